#!/bin/sh
# Regenerates the TLS fixtures (run once; the outputs are committed; nothing at check time needs openssl).
set -e
D=36500
openssl ecparam -name prime256v1 -genkey -noout -out ca.key
openssl req -x509 -new -key ca.key -sha256 -days $D -subj "/CN=verif test CA" -addext "basicConstraints=critical,CA:TRUE" -addext "keyUsage=critical,keyCertSign,cRLSign" -out ca.pem
openssl ecparam -name prime256v1 -genkey -noout -out ca2.key
openssl req -x509 -new -key ca2.key -sha256 -days $D -subj "/CN=verif untrusted CA" -addext "basicConstraints=critical,CA:TRUE" -addext "keyUsage=critical,keyCertSign,cRLSign" -out ca2.pem
leaf() { # name ca san
  openssl ecparam -name prime256v1 -genkey -noout -out $1.ec.key
  openssl pkcs8 -topk8 -nocrypt -in $1.ec.key -out $1.key
  openssl req -new -key $1.key -subj "/CN=$1" -out $1.csr
  printf "subjectAltName=$3\nbasicConstraints=CA:FALSE\nkeyUsage=critical,digitalSignature\nextendedKeyUsage=serverAuth\n" > $1.ext
  openssl x509 -req -in $1.csr -CA $2.pem -CAkey $2.key -CAcreateserial -sha256 -days $D -extfile $1.ext -out $1.pem
  rm -f $1.csr $1.ext $1.ec.key
}
leaf good ca "DNS:example.com,DNS:a.test,DNS:*.wild.test,DNS:localhost,DNS:xn--bcher-kva.example,IP:127.0.0.1,IP:::1,IP:2001:db8::7"
leaf other ca "DNS:other.test"
leaf untrusted ca2 "DNS:example.com,DNS:a.test,DNS:localhost,IP:127.0.0.1,IP:::1"
rm -f ca.srl ca2.srl
