#!/bin/sh
# usage: tools/seeded_verify2.sh <Cnn> — like seeded_verify.sh but drives the sub-agent's own demo.sh
id="$1"; wt=/tmp/wt/$id; sd=$wt/SEEDED
cd "$wt" || exit 2
git checkout -q -- . 2>/dev/null; git clean -fdq tests 2>/dev/null
echo "== patch applies to clean HEAD:"; git apply --check "$sd/patch.diff" && echo yes || { echo NO; exit 1; }
echo "== demo WITHOUT change:"; bash "$sd/demo.sh" 2>&1 | grep -E "^test result|FAILED|^error" | head -4; 
git checkout -q -- . ; git clean -fdq tests 2>/dev/null
git apply "$sd/patch.diff"
echo "== demo WITH change:"; bash "$sd/demo.sh" 2>&1 | grep -E "^test result|FAILED|^error" | head -6
git checkout -q -- Cargo.toml 2>/dev/null; git clean -fdq tests 2>/dev/null
echo "== suite WITH change:"; cargo test --workspace --no-fail-fast --offline 2>&1 | grep -E "^test result|FAILED|failed" | awk '{p+=$4; f+=$6} END {print "passed",p,"failed",f}'
echo "== hooks build WITH change:"; cargo build --offline --features verif-hooks,tls,tls-ring,sni 2>&1 | grep -E "^error|Finished" | head -3
git status --short | grep -v SEEDED
