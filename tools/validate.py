#!/usr/bin/env python3-vt
import json, glob, sys
import jsonschema
ok = True
m = json.load(open('/verif/MANIFEST.json'))
jsonschema.validate(m, json.load(open('/root/.vp/MANIFEST.schema.json')))
print('MANIFEST valid;', len(m['checks']), 'checks;', len(m.get('not_applicable', [])), 'not_applicable')
s = json.load(open('/root/.vp/EVIDENCE.schema.json'))
for f in sorted(glob.glob('/verif/evidence/*.json')):
    try:
        jsonschema.validate(json.load(open(f)), s)
    except Exception as e:
        ok = False; print(f, 'INVALID', str(e)[:200])
print('evidence files:', len(glob.glob('/verif/evidence/*.json')), 'all valid' if ok else 'SOME INVALID')
props = [json.loads(l)['id'] for l in open('/verif/properties.jsonl')]
claimed = {c['property_id'] for c in m['checks']}
na = {c['property_id'] for c in m.get('not_applicable', [])}
missing = [p for p in props if p not in claimed and p not in na]
if missing: ok = False; print('neither claimed nor not_applicable:', missing)
sys.exit(0 if ok else 1)
