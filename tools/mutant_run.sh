#!/bin/sh
# usage: tools/mutant_run.sh <patch.diff> <Cnn> [<Cnn> ...]
# Applies the patch to /repo's working tree, runs the quick tier of the named checks, reverts.
# Prints one line per check: "<patch> <Cnn> exit=<code> <first VIOLATION sig or ->"
patch=$(readlink -f "$1"); shift
if [ -n "$(git -C /repo status --porcelain --untracked-files=no)" ]; then echo "/repo working tree not clean" >&2; exit 3; fi
if ! git -C /repo apply "$patch"; then echo "$patch: does not apply" >&2; exit 3; fi
for p in "$@"; do
    out=$(/verif/check "$p" 2>&1); code=$?
    sig=$(printf '%s\n' "$out" | grep -m1 '^  sig:' | sed 's/^  sig: //')
    [ -z "$sig" ] && sig=$(printf '%s\n' "$out" | grep -m1 -E 'BUILD FAILED|INTERNAL|VACUITY' )
    echo "$(basename "$patch") $p exit=$code ${sig:--}"
done
git -C /repo checkout -- . 
git -C /repo clean -fdq src tests 2>/dev/null
# leave a harness binary that matches the clean tree behind (replays run it directly)
(cd /verif/harness && CARGO_NET_OFFLINE=true cargo build --offline --quiet 2>/dev/null)
