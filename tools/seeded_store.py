#!/usr/bin/env python3
"""usage: seeded_store.py <dir-name> <property> <worktree> <needs> <caught-by json> [<ran...>]"""
import sys, os, shutil, json, glob
name, prop, wt, needs, caught = sys.argv[1:6]
dst = f'/verif/seeded/{name}'
os.makedirs(dst, exist_ok=True)
for f in glob.glob(f'{wt}/SEEDED/*'):
    if 'foreign' in os.path.basename(f).lower():
        continue
    if os.path.isdir(f):
        continue
    shutil.copy(f, dst)
meta = {
    'property': prop,
    'origin': 'independent sub-agent given only the property text and a scratch worktree of /repo',
    'needs_to_manifest': needs,
    'verified': 'tools/seeded_verify.sh: patch applies to /repo HEAD; `cargo test --workspace --no-fail-fast --offline` still 85 passed / 0 failed with it; hooks build compiles; demonstration fails with the change and passes without it',
    'checks_run_against_it': json.loads(caught),
}
json.dump(meta, open(f'{dst}/meta.json', 'w'), indent=1)
print('stored', dst, os.listdir(dst))
