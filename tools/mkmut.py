#!/usr/bin/env python3
"""usage: mkmut.py <name> <file relative to /repo> <<< python dict literal {"old": "...", "new": "..."} on stdin
Creates /verif/mutants/manual/<name>.diff by applying the replacement to a clean /repo tree and reverting."""
import sys, subprocess, ast
name, rel = sys.argv[1], sys.argv[2]
spec = ast.literal_eval(sys.stdin.read())
p = '/repo/' + rel
s = open(p).read()
pairs = spec if isinstance(spec, list) else [spec]
for pr in pairs:
    if s.count(pr['old']) < 1:
        print('old text not found:', pr['old'][:60]); sys.exit(1)
    s = s.replace(pr['old'], pr['new'], pr.get('count', 1))
open(p, 'w').write(s)
d = subprocess.run(['git', '-C', '/repo', 'diff'], capture_output=True, text=True).stdout
open(f'/verif/mutants/manual/{name}.diff', 'w').write(d)
subprocess.run(['git', '-C', '/repo', 'checkout', '--', '.'])
print('wrote', name, len(d.splitlines()), 'lines')
