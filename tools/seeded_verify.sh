#!/bin/sh
# usage: tools/seeded_verify.sh <Cnn>   — verifies a sub-agent's seeded change inside its scratch worktree /tmp/wt/<Cnn>:
# patch applies to HEAD, suite passes with it, demonstration fails with it and passes without it.
id="$1"; wt=/tmp/wt/$id; sd=$wt/SEEDED
cd "$wt" || exit 2
git stash list | head -2
git checkout -q -- . 2>/dev/null
git status --short | grep -v SEEDED | head
echo "== patch applies to clean HEAD:"; git apply --check "$sd/patch.diff" && echo yes || { echo NO; exit 1; }
demo=$(ls "$sd"/*.rs | head -1); name=$(basename "$demo" .rs)
cp "$demo" tests/$name.rs
if grep -q "required-features\|\[\[test\]\]" "$sd/notes.md" "$sd/demo.sh" 2>/dev/null && ! grep -q "no .Cargo.toml. entry\|No Cargo.toml\|no Cargo.toml\|auto-discover" "$sd/notes.md"; then
  cp Cargo.toml /tmp/Cargo.toml.$id.bak
  printf '\n[[test]]\nname = "%s"\npath = "tests/%s.rs"\nrequired-features = ["server", "client", "stream"]\n' "$name" "$name" >> Cargo.toml
fi
echo "== demo WITHOUT change:"; cargo test --offline --test $name 2>&1 | grep -E "^test result|FAILED|error" | head -5
git apply "$sd/patch.diff"
echo "== demo WITH change:"; cargo test --offline --test $name 2>&1 | grep -E "^test result|FAILED|error" | head -8
rm -f tests/$name.rs; [ -f /tmp/Cargo.toml.$id.bak ] && mv /tmp/Cargo.toml.$id.bak Cargo.toml
echo "== suite WITH change:"; cargo test --workspace --no-fail-fast --offline 2>&1 | grep -E "^test result|FAILED|failed" | awk '{p+=$4; f+=$6} END {print "passed",p,"failed",f}'
echo "== hooks build WITH change:"; cargo build --offline --features verif-hooks,tls,tls-ring,sni 2>&1 | grep -E "^error|Finished" | head -3
git status --short | grep -v SEEDED
