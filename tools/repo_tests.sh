#!/bin/sh
# Runs the repository's baseline suite (hooks off) and, as a courtesy, the non-default `mocks`
# pool tests; prints one summary line each.
cd /repo || exit 2
cargo test --workspace --no-fail-fast --offline 2>&1 | grep -E "^test result|FAILED|failed" | awk '{p+=$4; f+=$6} END {print "baseline: passed",p,"failed",f}'
cargo test --offline --features mocks --lib 2>&1 | grep -E "^test result|FAILED" | tr '\n' ' '; echo
