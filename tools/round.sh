#!/bin/bash
# usage: tools/round.sh <round-prefix e.g. R6> [Cnn ...]
# For every delivered sub-agent worktree /tmp/wt/<round>-<Cnn>: verify it in the background
# (tools/seeded_verify2.sh -> /tmp/wt/verify_<round>-<Cnn>.log) and run the quick tier of the
# property's own check against its patch (tools/mutant_run.sh). Prints one line per change.
r="$1"; shift
ids="$@"; [ -z "$ids" ] && ids=$(ls -d /tmp/wt/$r-C?? 2>/dev/null | sed "s|/tmp/wt/$r-||")
for id in $ids; do
  [ -f /tmp/wt/$r-$id/SEEDED/patch.diff ] || { echo "$r-$id: no patch yet"; continue; }
  [ -f /tmp/wt/verify_$r-$id.log ] || (bash /verif/tools/seeded_verify2.sh $r-$id > /tmp/wt/verify_$r-$id.log 2>&1 &)
done
for id in $ids; do
  [ -f /tmp/wt/$r-$id/SEEDED/patch.diff ] || continue
  /verif/tools/mutant_run.sh /tmp/wt/$r-$id/SEEDED/patch.diff $id 2>&1 | sed "s/^/$r-$id: /"
done
