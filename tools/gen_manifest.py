#!/usr/bin/env python3
"""Regenerates /verif/MANIFEST.json from the table below (kept in one place so that the manifest is
always valid and current)."""
import json, subprocess

HOOK_COMMITS = ["0c039eb"]

POOL_NOTE = ("Thorough tier adds a coverage-guided libFuzzer leg (cargo-fuzz target fz_pool: bytes decoded into a pool history, same interpreter and monitors). Trusted base: tokio current_thread scheduler with paused clock (spawned pool tasks run only at "
             "explicit Bg steps); the scripted transport/protocol/connection collaborators, whose connection "
             "models HttpConnection readiness (is_open = open && (ready || multiplexed)); ground truth kept by the "
             "harness only. Liveness is bounded: 'eventually' = by the end of a deterministic drain. Every pool check also runs a corpus-mutation leg: seed histories (replays/corpus/poolsim, replays/regress) with 0-5 random edits.")

CHECKS = {
    "C02": dict(engine="poolsim", ref="§5 C02, §4 E1",
        technique="stateful property-based testing: generated operation histories (proptest) interpreted against the real pool with scripted collaborators; invariant checked at every hand-off",
        text="No counterexample among the generated issue/poll/cancel/dial/handshake/release/ready/close/upgrade/background histories: at every hand-off of a non-multiplexed connection nobody else held it, it had reported ready since its previous use, and it had not been taken over by an upgrade; the model connection comes in two flavours (is_open() = open and ready, as the crate's HttpConnection, or = not closed, which the trait also allows). An idle-list-pressure leg keeps one origin's idle list at max_idle 1-2 with peers closing idle connections while busy connections are released. A single-use leg runs the same histories with connections that are never shareable whatever version was asked for (custom Protocol). Exploration, not proof: histories up to 40 (quick) / 120 (thorough) operations, up to 16 requests.",
        note=POOL_NOTE),
    "C03": dict(engine="poolsim", ref="§5 C03, §4 E1",
        technique="stateful property-based testing with fault-sequence generation (dial/handshake failures, cancels) plus deterministic drain and probe; history invariants: no request pending after drain, no progress without a wake-up",
        text="Every generated history is followed by a drain (all outstanding attempts terminate) and a fresh probe request per origin: every uncancelled request must have resolved, no request may progress on a re-poll without its waker having fired (lost wake-up), and the probe must complete. Legs: profile, generic, mixed-version churn on one origin, and single-use connections (no connection shareable, as with a custom Protocol: requests that waited on an HTTP/2 attempt are then served one after the other).",
        note=POOL_NOTE),
    "C04": dict(engine="poolsim+netsim", ref="§5 C04, §4 E1, §10.3",
        technique="stateful property-based testing; necessary-condition rules over harness ground truth (reuse, HTTP/2 dial dedup, sharing, cancel preserves) compared with the transport's connect() calls",
        text="Rules A-D of DESIGN §5 C04 evaluated on ground truth kept by the harness (generic, profile and a mixed-version-churn leg: one origin, HTTP/1 and HTTP/2 requests, ALPN upgrades, failing attempts, peer closes, cancels): a request issued while a reusable connection certainly exists never dials; an HTTP/2 request issued while an HTTP/2 attempt for its origin is in flight never dials; cancelling a request that never used a connection leaves every healthy connection alive. An end-to-end leg (netsim, real hyper connections) requires all requests of a pooled client to an HTTP/2-only origin, bursts included, to arrive on one accepted connection.",
        note=POOL_NOTE + " Rule preconditions are lower bounds (ambiguity can hide violations, never invent them); one documented exclusion for rule B (DESIGN §5 C04)."),
    "C05": dict(engine="poolsim", ref="§5 C05, §4 E1",
        technique="stateful property-based testing with peer-close faults injected at every stage; hand-off invariant against recorded close/entry steps; small real-time leg for idle expiry",
        text="At every hand-off of a previously pooled connection its close step is compared with the request's issue step and the connection's last pool-entry step; two expiry legs (random histories and structured scenarios with several idle connections of different ages, one of them closed) sleep in real time on both sides of a 25 ms idle_timeout with one-sided assertions; a third leg uses whole-second timeouts (1 s / 2 s) with a 1.15 s sleep. Expiry is monitored for multiplexed (HTTP/2) connections too: a clone may only be handed out while the connection's last use lies within idle_timeout; the idle-list-pressure leg (max_idle 1-2, peers closing idle connections) and idle_timeout = Duration::MAX are part of the configurations. A real-time end-to-end leg (engine rtpool) builds the client through Client::builder() with with_pool(config) and an optional request timeout, sends rounds of 1-3 concurrent HTTP/1 requests (answered at once or after 70 ms) with pauses of 0/5/70 ms around a 30 ms idle timeout to a real Server: no request may travel on a connection that has been idle for more than idle_timeout + 25 ms.",
        note=POOL_NOTE + " Idle expiry uses std::time::Instant: only coarse one-sided real-time assertions."),
    "C06": dict(engine="poolsim", ref="§5 C06, §4 E1",
        technique="stateful property-based testing over a 25-entry origin table (scheme, port, host, letter case, near misses such as the other scheme's default port, IP literals) and over hundreds of synthetic origins; hand-off invariant on (scheme, host, effective port)",
        text="At every hand-off the origin the connection was dialed for equals the origin of the request's URI, with waiters and idle connections alive for several origins at once; a near-miss leg draws 2-4 origins per case from the whole table (http://h:443 vs http://h, https://h:80 vs https://h, same explicit port under the other scheme, ws/wss/custom schemes, mixed letter case with explicit ports, user information in the authority, hosts extending one another, IPv4/IPv6 literals), with caller-supplied Host headers naming a shared virtual host on all or every second request; a many-origins leg first sweeps 40-700 distinct origins (so that key/token bookkeeping is exercised at scale) and then issues requests to early and late origins.",
        note=POOL_NOTE),
    "C14": dict(engine="poolsim", ref="§5 C14, §4 E1",
        technique="stateful property-based testing; obligation tracking over generated schedules (release vs first poll vs background hand-back vs dial completion), both continue_after_preemption settings",
        text="(a) when a connection re-enters the pool while a request is waiting for its own in-flight dial, it must be delivered by the time every request lacking a connection has been polled once; (b) with continue_after_preemption an abandoned dial is never dropped and its connection is kept; (c) without it the dial is dropped and leaves nothing.",
        note=POOL_NOTE),
    "C15": dict(engine="poolsim+netsim", ref="§5 C15, §4 E1, §10.3",
        technique="stateful property-based testing; lower bound of retained idle connections per origin (counted from Drop-tracking harness connections) compared with max_idle_per_host after every operation",
        text="After every operation the number of connections that are certainly idle in the pool (alive, open, unheld, handed back with nobody waiting, minus one per issued-but-unpolled request) never exceeds max_idle_per_host in {0,1,2,3,32}. An end-to-end leg (netsim) counts the connections an HTTP/1-only origin still sees open long after bursts of requests completed: never more than max_idle_per_host. A real-time end-to-end leg (engine rtpool, Client::builder() with with_pool(config), requests that outlast the idle timeout, pauses on both sides of it) counts the connections the server still sees open at quiescence.",
        note=POOL_NOTE),
}

EYE_NOTE = ("Trusted base: tokio paused clock (virtual time exact at 1 ms); the hook re-export exposes the unmodified "
            "EyeballSet; the harness reference simulation, which is only used for exact comparison when it reports no tie.")

CHECKS.update({
    "C10": dict(engine="eyeballs+tcpeyes", ref="§5 C10/C11, §4 E4, §10.3",
        technique="property-based testing in virtual time: exhaustive small-scope enumeration plus random attempt sets against statement-derived necessary conditions and a differential reference (discrete-event simulation)",
        text="Every combination of up to 2 (quick) / 3 (thorough) scripted attempts over the outcome/latency/stagger/timeout/concurrency grid is enumerated, plus random sets of up to 8 attempts (candidates given through push, extend or both; the set awaited through finish() or its IntoFuture impl): the result must be the first success, failure only after every candidate failed (first failure), timeout only at the deadline without an earlier success, no-progress only for the empty set; tie-free cases must equal the reference exactly. A transport-level leg runs the real TcpTransport::connect_to_addrs over loopback candidates that accept, refuse, hang (listener with a full accept queue) or fail while their socket is prepared (unassignable local address) with timeout in {none, 1.2, 1.6, 2.4 s} and concurrency in {none, 0..3}: outcome and completion time must match the reference for stagger = timeout / number of addresses (banded real-time assertions; a deviation that machine load could explain is repeated and counts when it occurs three times in a row; configurations in which nothing allows progress must still be pending after 0.5 s).",
        note=EYE_NOTE),
    "C11": dict(engine="eyeballs+tcpeyes", ref="§5 C10/C11, §4 E4, §10.3",
        technique="property-based testing in virtual time: recorded first-poll instants of scripted attempts checked against ordering/pacing/deadline conditions and a differential reference",
        text="Same domain as C10: attempts start in index order, each at most once, at most the configured number at t=0, each later start justified by an elapsed stagger delay, a failure or idleness and never later than the stagger tick; the operation ends by the deadline; tie-free cases must reproduce the reference start instants exactly. A transport-level leg runs the real TcpTransport::connect_to_addrs over loopback candidates that accept, refuse or hang (listener with a full accept queue) with timeout in {none, 1.2, 1.6, 2.4 s} and concurrency in {none, 0..3}: outcome and completion time must match the reference for stagger = timeout / number of addresses (banded real-time assertions; a deviation that machine load could explain is repeated and counts when it occurs three times in a row; configurations in which nothing allows progress must still be pending after 0.5 s).",
        note=EYE_NOTE),
    "C16": dict(engine="addrsort", ref="§5 C16, §4 E7",
        technique="exhaustive small-scope enumeration plus property-based testing against an independent specification (stable partition); end-to-end differential leg over loopback listeners",
        text="All IPv4/IPv6 family patterns up to length 8 (quick) / 12 (thorough) for the four local-binding combinations, exhaustively, plus random lists with duplicates: output is a permutation, first/second element and remainder order equal the specification, set_port applies to every address; through TcpTransport with a scripted resolver and local bindings (none, loopback, wildcard) the socket is opened to the URI's port (explicit, or 80/443 by scheme) whatever port the resolver's answer carries, through TcpTransport and SimpleTcpTransport; the accepted peer is the first live address of the specified order, with unlimited concurrency the attempts reach one dual-stack listener in the specified order (arrival order = start order), through the Service impl and through connect_to_addrs; also when addresses in front of it hang (listeners that never answer: the next address is tried after the stagger delay).",
        note="Trusted base: the hook wrappers call the crate-private routines unchanged; loopback networking for the end-to-end leg (dead addresses are sockets held bound without listening: refused at once, immediate compared with the >= 570 ms stagger, and not bindable by anyone else meanwhile)."),
    "C20": dict(engine="sni+tlsstack", ref="§5 C20, §4 E10, §10.3",
        technique="grammar-based property testing of the public ValidateSNI layer against an independent reference predicate (two-directional: never forwarded on mismatch, never rejected on match)",
        text="Requests over all http::Version constants x Host header x URI authority x letter case x port x IPv4/IPv6 literals x server name (absent/equal/equal modulo case/different/near miss: one character more, fewer or replaced at either end) x TLS info, with names from a table and generated DNS-style names; forwarded/rejected outcome and the validated flag observed by a recording inner service must equal the reference predicate wherever the property constrains it. A full-stack leg (engine tlsstack) runs the real Server with with_tls_connection_info + with_tls + ValidateSNI against the real client stack (TlsTransport, HTTP/1 and HTTP/2, ALPN): the handler must run exactly when the request host equals the handshake SNI, and a mismatching Host header (HTTP/1) must be answered without the handler running.",
        note="Trusted base: the reference predicate in the harness (about 20 lines, from the statement); server names are generated as a TLS stack reports them (DNS names, never bracketed); rustls + fixture certificates in the full-stack leg."),
})

CHECKS.update({
    "C08": dict(engine="sniff", ref="§5 C08, §4 E3",
        technique="grammar-based and enumerated fragmentation testing: metamorphic (fragmented vs one chunk) and differential (auto-detecting connection vs plain hyper http1/http2 connection) oracles plus the preface classification rule",
        text="Byte streams from a grammar (HTTP/1 requests incl. ones sharing a prefix with the preface, h2 preface + frames, strict preface prefixes followed by EOF/diverging bytes, preface look-alikes that differ from the preface in one letter's case, one byte, one swap or one bit, raw bytes) are delivered to server::conn::auto::Builder through a scripted reader with exact chunk boundaries and Pending results (all compositions of the first 10/14 bytes for golden streams, every single cut position, one-byte reads, random plans). A reader that is polled more than 5000 times past the end of the stream is cut off and reported. The server's answer must be HTTP/2 exactly when the stream starts with the preface, equal the unfragmented answer and equal a single-protocol hyper connection's answer.",
        note="Trusted base: hyper's http1/http2 server connections as reference; exact-equality oracles are applied only where that reference itself is invariant under the same read plan and under one-byte reads (hyper's handling of malformed input may depend on read boundaries) - otherwise only the classification is asserted; HTTP/2 answers compared by DATA payload/END_STREAM/RST/GOAWAY, HTTP/1 byte-exact minus Date."),
})

CHECKS.update({
    "C18": dict(engine="iomodel", ref="§5 C18, §4 E8",
        technique="model-based property testing: generated read/write/vectored-write/flush/shutdown programs over a scripted faulty inner stream and over connected stream pairs, compared with a reference FIFO",
        text="TokioIo in both directions and round trip, Rewind with arbitrary prefix, client/server Stream and TlsBraid::NoTls are driven over an inner stream that returns short transfers, Pending, errors and EOF at generated points; every outward result must match what the inner returned in that call and the delivered/accepted byte streams must equal the reference FIFO. The same programs run over in-process duplex pairs (deterministic) and real TCP/Unix pairs wrapped in Braid + Stream. A TLS pair leg drives the client Stream::tls (lazy handshake) against the server-side TlsStream over Braid through duplex pipes of 16 B-64 KiB in virtual time with scripted read-buffer sizes: the decrypted streams must equal the reference FIFO in both directions and end-of-stream must follow (only) a shutdown.",
        note="In the TLS pair leg an end may also vanish abruptly (transport dropped without close_notify): the reader must then see an error, never a clean end of stream. Trusted base: wrapper adapters are pass-through (no buffering); real-socket legs use 2 s real-time guards whose expiry is inconclusive, never a violation; rustls/tokio-rustls record layer in the TLS pair leg (pipes below a record header stall in the TLS stack itself and are excluded)."),
    "C19": dict(engine="timeout+poolsim+netsim", ref="§5 C19, §4 E9/E1/E2",
        technique="property-based testing in virtual time: exhaustive grid plus random (duration, inner completion, first-poll delay) cases for the Timeout layer; stateful pool histories with virtual-time advances so deadlines fire at every stage of a pooled request",
        text="Unit leg: result value, resolution instant (never later than the deadline), inner future dropped at resolution and never polled again; durations range from 0 to Duration::MAX (no panic, the inner result is delivered); the future may be polled once under another waker before the task awaits it, and may be left alone after its first poll until some later instant (what had happened first still decides). Pool leg: requests wrapped in the real Timeout inside poolsim histories; a request polled at or after its deadline must resolve, a timeout never fires early, no connection is handed to a request that already ended, and after the drain a probe to every origin is served. End-to-end leg: the real client stack with with_timeout against slow handlers in netsim, with followed redirects (timeouts fire exactly at the deadline, which covers the whole chain of hops; no request future resolves after its deadline; completed requests are intact, a fresh client is served afterwards).",
        note="Trusted base: tokio paused clock; poolsim collaborators (see C02). When the first poll happens after both the deadline and the inner completion either answer is accepted."),
})

CHECKS.update({
    "C13": dict(engine="reqgrammar+tlsstack", ref="§5 C13, §4 E6, §10.3",
        technique="grammar-based property testing of the public client layers and the real connection builder with the wire captured; oracle = statement-derived expectations on request target, Host header, version, stripped headers and protocol selection",
        text="Requests from a grammar (schemes, hosts incl. IPv4/IPv6, ports, paths, queries, URI forms, methods incl. CONNECT, all versions, pre-set headers) crossed with connection outcomes (request version x ALPN) go through SetHostHeader/Http2Checks/Http1Checks over a stub connection, through ConnectionPoolService (pooled/unpooled) and ConnectorService with stub collaborators, and through the real HttpConnectionBuilder + RequestExecutor with the bytes captured: preface iff HTTP/2 requested or ALPN h2; HTTP/1 target, Host (caller's preserved) and HTTP/2 header stripping / CONNECT rejection as stated. An end-to-end leg (netsim, followed redirects, pooled HTTP/2 connections reused by later requests) requires every hop to name its origin and every request to arrive unaltered - a request its connection's protocol rejects counts. The full-stack TLS leg (engine tlsstack) checks the version the real TLS server's handler observes against requested version x negotiated ALPN (h2, http/1.1, h3, none, conflict). An end-to-end leg (netsim) follows redirects between origins and checks Host / :authority on every hop.",
        note="Trusted base: the http crate decides which requests are well-typed; hyper serialises the final http::Request (target compared via to_string and, in the wire leg, parsed from the captured bytes); for schemes without a default port either Host form is accepted."),
    "C17": dict(engine="reqgrammar+tlswire", ref="§5 C17, §4 E6/E5",
        technique="grammar-based robustness testing with a process-wide panic hook and catch_unwind: any panic located in the library (caller task or spawned task) is a violation; debug assertions on",
        text="The C13 request grammar (every http::Version constant, standard/extension methods incl. CONNECT, absolute/origin/authority/asterisk forms, DNS/IPv4/bracketed IPv6/unusual hosts from tables and from the URI grammar (reg-names over unreserved, sub-delims and pct-encoded characters, bracketed literals with arbitrary URI characters incl. IPvFuture and [], very long labels and names), header sets, bodies) is sent through the check layers, ConnectionPoolService with and without pool, ConnectorService and the real connection builder; panics caught by the runtime in spawned tasks are observed through the hook. A pool leg runs the poolsim histories with failing connect / handshake attempts and boundary configurations (idle_timeout 0 and Duration::MAX, max_idle 0) and flags any panic located in the library as well as a connect or handshake future polled again after completion. A TCP leg hands the grammar's URIs and 22 degenerate but well-typed ones (empty host, user information only, missing port, schemes without default port) to the real TcpTransport, SimpleTcpTransport and Client::build_tcp_http with a resolver that answers nothing or an address that refuses.",
        note="Trusted base: panic hook + location filter (/repo/); full-stack TLS/TCP legs live in the C12 engine (tlswire) and netsim."),
})

NET_NOTE = ("Trusted base: tokio current_thread scheduler with paused clock (schedules explored by timing perturbation: start "
            "times, handler delays, chunk gaps, transport connect delay and per-read latency, buffer sizes 1 B-64 KiB); hyper/h2 as "
            "HTTP engines on both sides; the duplex transport stands for the network. HTTP/2 is combined only with pipes >= 128 B "
            "(h2's own handshake deadlocks on smaller ones) and with pipes that hold at least the smaller direction's total traffic (h2 writes an owed control frame before it reads: with both directions full two ends owing SETTINGS ACK / GOAWAY stall each other, DESIGN 10.4) and GET bodies carry exact size hints (hyper does not chunk GET bodies). Every simulation runs on a supervised thread: one that has not come back after 60 s of real time (they take milliseconds) is a task that never yields and is reported. One case in three runs over TLS (Server::with_tls with the fixture certificate, client with_tls, https origins, no ALPN): rustls on both ends is then part of the trusted base.")

CHECKS.update({
    "C01": dict(engine="netsim+poolsim+tcpe2e", ref="§5 C01, §4 E2/E1",
        technique="end-to-end property-based testing in virtual time: generated concurrent request scripts with id-tagged payloads through the real client stack, pool, hyper and Server; two-directional oracle (handler checks every request, client checks every response); plus a pool-level leg requiring every uncancelled request of a fault-free history to succeed",
        text="Up to 8/24 concurrent requests over 1-3 h1/h2/auto servers with streamed patterned bodies, generated header sets on requests and responses (repeated names, empty, 3 kB and opaque non-ASCII values, compared per name and in order), chunked responses, handler delays, cancellations at any instant, pool on/off and all pool settings, followed redirects (303 to another origin; every hop must name the origin it is sent to), and HTTP/1.1 protocol upgrades (101 followed by a raw patterned exchange over the taken-over connection, checked at both ends incl. end-of-stream, never followed by another request on that connection): every handled request must carry exactly what its caller sent and every uncancelled request must complete with the response produced for its own id and origin. A real-socket leg drives the default Client (Client::build_tcp_http: TCP transport, system resolver, default pool/redirects/timeout) through request() and its tower Service impl against a real Server on loopback TCP. A body-adapter leg builds hyperdriver::Body through each public constructor, reads it directly, through as_boxed and through try_clone against the http_body contract (frames = data, size-hint bounds at every step, end-of-stream only without data to come) and sends it end to end in both directions over HTTP/1 and HTTP/2. The open finding (KNOWN_FINDINGS.txt) is matched by signature and does not mask other violations.",
        note=NET_NOTE),
    "C07": dict(engine="netsim", ref="§5 C07, §4 E2",
        technique="virtual-time schedule generation: the graceful-shutdown signal instant is swept relative to accept, protocol detection, request transfer, handler execution and response transfer; history invariants over the handler log, the executor-wrapped connection tasks and the client results",
        text="Serving future resolves Ok exactly at the signal; every request whose handler started before the signal receives its complete correct response; every connection task (including idle keep-alive connections and connections still in protocol detection) finishes while the clients keep their ends open; nothing is accepted or served on a connection accepted after the signal. A slow-make-service leg (engine makegate) lets the signal fall into a state in which the make-service future of a fresh connection (or its poll_ready) is pending: the serving future must still resolve at the signal, a connection whose service arrives later is not served, idle keep-alive connections are closed. A raw HTTP/1 client may pipeline a second request behind a slow first one: the first, once its handler started before the signal, must still be answered completely. A second leg resolves the signal synchronously while the k-th connection of a burst of simultaneous connects is being accepted (in the middle of one poll of the serving future): no connection beyond the k-th may be accepted or served.",
        note=NET_NOTE + " Idle holders are only placed where hyper itself closes them on graceful shutdown (auto-detecting and idle HTTP/1 connections)."),
    "C09": dict(engine="netsim+socksrv+tlsstack", ref="§5 C09, §4 E2, §10.3",
        technique="fault-sequence generation in virtual time: per-connection faults (cancelled connect, disconnects, garbage, truncated head/body, mid-response disconnect, partial preface, clients asking for a 0- or 1-byte pipe, handler errors) interleaved with well-behaved requests; oracle = serving futures still pending, probe client served, other requests correct",
        text="After 1-5 generated faults per case (over TLS also inside a completed TLS session, ended with close_notify; incl. a crowd of 2-65 clients that connect in one instant and hang up; servers built plain or with_graceful_shutdown on a signal that never resolves) the serving future of every server must still be pending, a fresh well-behaved probe client must be served by every server, and every well-behaved request on other connections must have completed with its correct response.",
        note=NET_NOTE + " A real-socket leg (engine socksrv) repeats the fault/probe scheme on TCP and Unix acceptors in real time (reset or close before accept, garbage, truncated head/body, Unix clients bound to plain and non-UTF-8 pathnames); a probe that merely times out there is inconclusive. A TLS-listener leg (engine tlsstack) injects plaintext, garbage, truncated-ClientHello, immediate-close and wrong-SNI clients at a real Server with with_tls and then requires a well-behaved TLS probe to be served and the serving future still pending. A faulty-before-accept leg (engine queueaccept) serves, through Acceptor::new(..) with and without with_tls and Server::with_acceptor, a listener written against the public Accept trait that hands out streams on which the peer has already spoken (plaintext, garbage, partial ClientHello or preface) or which it has already left. A capped make-service leg (engine makeready) gives the Server a make-service that admits a bounded number of live connections: call() without a preceding Ready from poll_ready is a violation, and a stalled client must not keep later clients from being served once a slot frees up. OS-level accept() errors are not reachable."),
})

NOT_YET = {
    "C01": "check not built yet (engine E2 netsim in progress)",
    "C07": "check not built yet (engine E2 netsim in progress)",
    "C08": "check not built yet (engine E3 sniff in progress)",
    "C09": "check not built yet (engine E2 netsim in progress)",
    "C10": "check not built yet (engine E4 eyeballs in progress)",
    "C11": "check not built yet (engine E4 eyeballs in progress)",
    "C12": "check not built yet (engine E5 tlswire in progress)",
    "C13": "check not built yet (engine E6 reqgrammar in progress)",
    "C16": "check not built yet (engine E7 addrsort in progress)",
    "C17": "check not built yet (engine E6 reqgrammar in progress)",
    "C18": "check not built yet (engine E8 iomodel in progress)",
    "C19": "check not built yet (engine E9 timeout in progress)",
    "C20": "check not built yet (engine E10 sni in progress)",
}

CHECKS.update({
    "C12": dict(engine="tlswire+tlsstack", ref="§5 C12, §4 E5, §10.3",
        technique="property-based testing with fault injection at the TLS peer: generated (scheme, host form, port, peer behaviour, ALPN, client TLS) combinations through the real TlsTransport with the client's wire recorded; oracle = TLS record framing of every byte, absence of a secret token, outcome vs certificate validity, SNI seen by the peer",
        text="For https/wss with a client TLS configuration every byte put on the wire must parse as TLS records and never contain the application secret; a stream is only returned after a handshake with a peer whose (fixture) certificate is valid for the URI host and the SNI offered equals that host; mismatching, untrusted, plaintext, closing, truncating and silent peers yield an error or nothing, never a stream; other schemes pass bytes verbatim; no syntactically valid host panics; a Host header naming another host (covered by the certificate or not, or an IP address) changes neither the server name offered nor the name the certificate is checked against, and neither does an earlier use of the same transport value for another host. The full-stack leg (engine tlsstack) runs the whole client (pool, connector, TlsTransport, HTTP/1 and HTTP/2) against a real TLS Server: request secrets in path/header/body never appear in the recorded client bytes, every byte is TLS-framed, and the server's certificate resolver sees SNI = URI host; the client is built with the TLS setting made before or after the builder calls that rebuild it. Request sequences mix schemes (http, https, ws, wss) to one authority through one pooled client, against the TLS server and a plaintext twin behind the same transport: a secure-scheme request must arrive through TLS, a plain one must not be wrapped.",
        note="Trusted base: rustls on both ends, the committed 100-year fixture certificates and the system clock inside their validity; ALPN offers without overlap are accepted either way."),
})
NOT_YET = {}

# sentences added after round 11 (appended to the level text of the check)
ADDENDA = {
    "C01": " Requests that would be labelled HTTP/1.1 are labelled HTTP/1.0 in one case out of six (same connections, same body expected at the server). In the body-adapter leg one handler in eleven passes the received request body through as its response body (a Body around hyper's incoming stream, never collected). One request in ten over HTTP/1.1 uses the CONNECT method (authority-form target checked by the handler, refused with 403 and an ordinary body); the client's transport and every clone of a connection's handler service are not ready for 0-2 polls.",
    "C02": " In a third of the configurations the holder of a connection polls readiness through the pooled handle before it sends (as ConnectionExt::when_ready does); in a quarter the connection's poll_ready does not notice a close (is_open does); in a third the pooling service is built through ConnectionPoolLayer with one or two configuration calls. The operation set includes spurious wake-ups of whoever waits for a busy connection (hand-back tasks must ask the connection again). The pool is built on the runtime that uses it, on an earlier runtime that is gone, or outside any runtime.",
    "C05": " A connection flavour whose poll_ready hides a close (always Ok, as the crate's own mock connection) while is_open reports it is part of the configurations.",
    "C06": " The origin table also holds three URIs without a scheme (authority-form): they are refused or kept apart, never merged with the http origin of the same authority. In a third of the near-miss cases the pool is keyed by a user-written key type whose hash is coarser than its equality. Origins with ports beyond 65535 (accepted by http::Uri) are part of the table.",
    "C07": " A further leg (engine sigedge) uses raw HTTP/1.1 and hand-framed HTTP/2 clients whose complete request is written in the very instant of the signal (the connection task sees request and shutdown in one poll), one instant earlier or later: a request written by the instant of the signal on a connection accepted before it gets its full response, every connection is closed, the serving future resolves at the signal. The accepted streams of that leg count what the server reads: a request written in the very instant of the signal counts as in flight only if the server has read from its connection.",
    "C03": " Connect and handshake futures come in a fused flavour: polled again after completion they answer Pending for ever instead of failing at once.",
    "C04": " Idle timeouts that are not a whole number of seconds (999 ms, 1.9 s, 90.5 s) are part of the configurations: the reuse rules apply to them while the whole case is younger than a third of the timeout in real time. A real-time HTTP/2 leg (engine rtpool): three to five rounds of 1-3 concurrent HTTP/2 requests with pauses of 5 / 70 ms under an idle timeout of 250 ms; when every request finished less than the timeout after the previous one was issued, exactly one connection may have been opened.",
    "C08": " The scripted stream delivers to its peer only what was flushed (or written before a shutdown), as a TLS session does: output that a wrapper fails to flush is missing from the transcript. A further leg (engine srvsniff) compares servers built through Server::builder() - with_auto_http() against with_http1() / with_http2() - over the same scripted stream from a one-connection acceptor, with the client pausing after a generated part of its bytes: what the client has received is compared at both pauses and in the end.",
    "C17": " The stub transport and protocol of the pooled-service and connector legs answer Pending from poll_ready for 0-2 polls before they are ready. The resolver of the TCP leg keeps its readiness in the value that was polled and panics when called unready (as tower::limit services do): a request that dies of it is a violation.",
    "C09": " The capped make-service keeps its readiness in the value that was polled (a clone starts unready) and the server is also built with_connection_info(): a make-service value called without having been polled ready itself is a violation.",
    "C10": " A pacing leg over real sockets (hanging or refused candidates first, a live one last, concurrency 0-2) makes the outcome hinge on stagger = timeout / number of addresses.",
    "C11": " A pacing leg over real sockets (hanging or refused candidates first, a live one last, concurrency 0-2) makes the outcome hinge on stagger = timeout / number of addresses.",
    "C18": " The stream-pair leg also issues vectored writes whose slices may be empty (the first one included).",
    "C14": " (a') a holder's release that destroys an open single-use connection on the spot while a polled request waits for its own dial is a violation whatever max_idle_per_host is (0 included).",
    "C15": " The pooling service is built through ConnectionPoolService::new or through ConnectionPoolLayer with with_pool / with_optional_pool / without_pool in one or two calls: the configuration given last must be the one enforced.",
    "C16": " Link-local IPv6 answers with interface scope and flow label are part of the sort leg (set_port must keep everything but the port); where the machine has a link-local address, a listener on it is reached only if the scoped address of the resolver's answer is the address tried. URI hosts are names or IP literals: with a custom resolver the resolver's answer is what is tried either way.",
    "C20": " A lazy-handshake leg (engine snilazy) drives Acceptor::with_tls + TlsConnectionInfoLayer + ValidateSNI without a Server: requests handed to the connection's service before the handshake completes are polled and dropped, or kept; every request that completes - before or after - is forwarded with the validated mark iff its host equals the server name. A fifth of the lazy-handshake cases use a client that sends no server name: nothing may be forwarded on such a connection.",
}

def main():
    checks = []
    for pid in sorted(CHECKS):
        c = CHECKS[pid]
        checks.append({
            "property_id": pid,
            "quick_cmd": f"./check {pid} --tier quick",
            "thorough_cmd": f"./check {pid} --tier thorough",
            "evidence_file": f"/verif/evidence/{pid}.json",
            "replay_cmd_template": f"./check {pid} --replay {{path}}",
            "engine": c["engine"],
            "level_claimed": {"category": "exploration", "text": c["text"] + ADDENDA.get(pid, ""), "design_ref": c["ref"]},
            "level_note": c["note"],
            "technique": c["technique"],
        })
    engines = {}
    for pid, c in CHECKS.items():
        engines.setdefault(c["engine"], []).append(pid)
    manifest = {
        "version": 1,
        "setup_cmd": "cd /verif/harness && CARGO_NET_OFFLINE=true cargo build --offline",
        "hooks": {
            "guard": "cargo feature `verif-hooks`",
            "enable": "the harness crate depends on hyperdriver by path (/repo) with features [\"verif-hooks\", \"tls\", \"tls-ring\", \"sni\"]",
            "baseline_off_cmd": "cd /repo && cargo test --workspace --no-fail-fast --offline",
            "source_commits": HOOK_COMMITS,
            "add_only": True,
        },
        "engines": [
            {"name": e, "path": f"/verif/harness/src/engines/{e}.rs", "serves_properties": sorted(ps),
             "kind_free_text": "proptest-driven generated-case engine inside the hdv harness binary"}
            for e, ps in sorted(engines.items())
        ],
        "checks": checks,
        "not_applicable": [{"property_id": k, "reason": v} for k, v in sorted(NOT_YET.items()) if k not in CHECKS],
        "notes": "All checks are property-based/fuzzing style generated-input searches against explicit oracles; see DESIGN.md. KNOWN_FINDINGS.txt lists fixed and open findings.",
    }
    json.dump(manifest, open("/verif/MANIFEST.json", "w"), indent=1)
    print("wrote MANIFEST.json with", len(checks), "checks")

main()
