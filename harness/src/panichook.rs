//! Process-wide panic hook: records (location, message) per thread and keeps stderr quiet unless
//! VERIF_PANIC_VERBOSE is set.
use std::cell::RefCell;

thread_local! {
    static LAST: RefCell<(String, String)> = RefCell::new((String::new(), String::new()));
    static ALL: RefCell<Vec<(String, String)>> = const { RefCell::new(Vec::new()) };
}

/// All panics recorded on this thread since the last call (including ones a runtime caught).
pub fn take_all() -> Vec<(String, String)> {
    ALL.with(|a| std::mem::take(&mut *a.borrow_mut()))
}

pub fn install() {
    let verbose = std::env::var_os("VERIF_PANIC_VERBOSE").is_some();
    let default = std::panic::take_hook();
    std::panic::set_hook(Box::new(move |info| {
        let loc = info
            .location()
            .map(|l| format!("{}:{}:{}", l.file(), l.line(), l.column()))
            .unwrap_or_else(|| "<unknown>".into());
        let msg = info
            .payload()
            .downcast_ref::<String>()
            .cloned()
            .or_else(|| info.payload().downcast_ref::<&str>().map(|s| s.to_string()))
            .unwrap_or_else(|| "<non-string panic>".into());
        // A future that is polled again after it completed may panic (std's contract); whoever polls
        // it is at fault, not the future. The harness' own transports are async fns / Ready futures,
        // so such a panic is located in harness code although the library caused it.
        let repoll = msg.contains("resumed after completion") || msg.contains("polled after completion") || msg.contains("polled after ready") || msg.contains("`Ready` polled after");
        let loc = if repoll { format!("<completed future polled again> {loc}") } else { loc };
        ALL.with(|a| {
            let mut a = a.borrow_mut();
            if a.len() < 64 {
                a.push((loc.clone(), msg.clone()));
            }
        });
        LAST.with(|l| *l.borrow_mut() = (loc, msg));
        if verbose {
            default(info);
        }
    }));
}

pub fn last_location() -> String {
    LAST.with(|l| l.borrow().0.clone())
}

pub fn last_message() -> String {
    LAST.with(|l| l.borrow().1.clone())
}

pub fn clear() {
    LAST.with(|l| *l.borrow_mut() = (String::new(), String::new()));
}

/// true when the recorded panic location is outside the harness itself: in the library under test
/// (/repo/...) or in a dependency it drives (registry / rustc paths). Harness sources are compiled
/// with paths relative to the harness crate (`src/...`).
pub fn in_library(loc: &str) -> bool {
    !loc.starts_with("src/") && !loc.is_empty() && loc != "<unknown>"
}
