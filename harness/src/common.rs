//! Shared machinery: CLI context, proptest-driven sharded runner with manual shrinking,
//! known-findings matching, evidence writing, replay files.
#![allow(dead_code)]

use std::collections::{BTreeMap, BTreeSet, HashSet};
use std::fmt::Debug;
use std::hash::{Hash, Hasher};
use std::path::{Path, PathBuf};
use std::time::{Duration, Instant};

use proptest::strategy::{Strategy, ValueTree};
use proptest::test_runner::{Config, RngAlgorithm, TestRng, TestRunner};
use serde::de::DeserializeOwned;
use serde::Serialize;
use serde_json::{json, Value};

pub const VERIF_DIR: &str = "/verif";

/// Progress counter for the watchdog: bumped once per executed case.
pub static PROGRESS: std::sync::atomic::AtomicU64 = std::sync::atomic::AtomicU64::new(0);

/// Starts a watchdog thread: when no case completes for `VERIF_WATCHDOG_S` seconds (default 180)
/// the process exits with status 2 (inconclusive — never reported as a violation).
pub fn start_watchdog() {
    let limit: u64 = std::env::var("VERIF_WATCHDOG_S").ok().and_then(|s| s.parse().ok()).unwrap_or(180);
    std::thread::spawn(move || {
        let mut last = PROGRESS.load(std::sync::atomic::Ordering::Relaxed);
        let mut idle = 0u64;
        loop {
            std::thread::sleep(std::time::Duration::from_secs(1));
            let now = PROGRESS.load(std::sync::atomic::Ordering::Relaxed);
            if now == last {
                idle += 1;
                if idle >= limit {
                    eprintln!("WATCHDOG: no case completed for {limit} s (a case hangs or spins); inconclusive");
                    std::process::exit(2);
                }
            } else {
                idle = 0;
                last = now;
            }
        }
    });
}
pub const DEFAULT_SEED: u64 = 20260926;

#[derive(Clone, Copy, Debug, PartialEq, Eq)]
pub enum Tier {
    Quick,
    Thorough,
}

impl Tier {
    pub fn as_str(&self) -> &'static str {
        match self {
            Tier::Quick => "quick",
            Tier::Thorough => "thorough",
        }
    }
    pub fn pick<T>(&self, quick: T, thorough: T) -> T {
        match self {
            Tier::Quick => quick,
            Tier::Thorough => thorough,
        }
    }
}

#[derive(Clone, Debug)]
pub struct Ctx {
    pub prop: String,
    pub tier: Tier,
    pub seed: u64,
    pub replay: Option<PathBuf>,
    /// multiplier on case counts (env VERIF_SCALE, float), for experiments only
    pub scale: f64,
    pub threads: usize,
    /// do not write evidence (used by sub-steps)
    pub verbose: bool,
}

impl Ctx {
    pub fn cases(&self, quick: u64, thorough: u64) -> u64 {
        let n = self.tier.pick(quick, thorough) as f64 * self.scale;
        (n as u64).max(1)
    }
}

/// One detected violation of the property being checked.
#[derive(Clone, Debug, Serialize)]
pub struct Violation {
    /// canonical signature: `<prop>/<rule>/<shape>`; matched against KNOWN_FINDINGS open: lines
    pub sig: String,
    pub msg: String,
}

/// What running one case yields.
#[derive(Clone, Debug, Default)]
pub struct CaseReport {
    pub nontrivial: bool,
    pub classes: Vec<&'static str>,
    pub violations: Vec<Violation>,
    /// number of generated operations that were no-ops (named a non-existent entity, …)
    pub noop_ops: u64,
    pub total_ops: u64,
    /// harness-internal inconsistency (exit 2)
    pub internal_error: Option<String>,
}

impl CaseReport {
    pub fn violate(&mut self, sig: impl Into<String>, msg: impl Into<String>) {
        let sig = sig.into();
        if self.violations.iter().any(|v| v.sig == sig) {
            return;
        }
        self.violations.push(Violation { sig, msg: msg.into() });
    }
    pub fn class(&mut self, c: &'static str) {
        if !self.classes.contains(&c) {
            self.classes.push(c);
        }
    }
}

/// A check over generated cases.
pub trait Engine: Sync {
    type Case: Debug + Clone + Serialize + DeserializeOwned + Send + 'static;
    /// tag stored in replay files
    fn name(&self) -> &'static str;
    fn run_case(&self, case: &Self::Case) -> CaseReport;
    /// Engines on real sockets and the real clock: a failing case can cost seconds (guards, repeated
    /// runs), so shrinking gets a wall-clock budget and a shard stops at its first violation.
    fn real_time(&self) -> bool {
        false
    }
}

// ------------------------------------------------------------------------------------------------
// Known findings

#[derive(Clone, Debug)]
pub struct KnownFinding {
    pub prop: String,
    pub sig: String,
    pub text: String,
}

pub fn load_known() -> Vec<KnownFinding> {
    let path = Path::new(VERIF_DIR).join("KNOWN_FINDINGS.txt");
    let Ok(text) = std::fs::read_to_string(&path) else {
        return vec![];
    };
    let mut out = vec![];
    for line in text.lines() {
        let line = line.trim();
        if !line.starts_with("open:") {
            continue;
        }
        let rest = line["open:".len()..].trim();
        let mut prop = None;
        let mut sig = None;
        let mut words = vec![];
        for w in rest.split_whitespace() {
            if let Some(p) = w.strip_prefix("property=") {
                if prop.is_none() {
                    prop = Some(p.to_string());
                    continue;
                }
            }
            if let Some(s) = w.strip_prefix("sig=") {
                if sig.is_none() {
                    sig = Some(s.to_string());
                    continue;
                }
            }
            words.push(w);
        }
        if let (Some(prop), Some(sig)) = (prop, sig) {
            out.push(KnownFinding { prop, sig, text: words.join(" ") });
        }
    }
    out
}

// ------------------------------------------------------------------------------------------------
// Accumulated outcome of a run

#[derive(Default)]
pub struct Outcome {
    pub evaluations: u64,
    pub nontrivial: HashSet<u64>,
    pub classes: BTreeMap<String, u64>,
    pub samples: Vec<Value>,
    pub noop_ops: u64,
    pub total_ops: u64,
    /// unknown violations: (sig, msg, shrunk case json, engine name)
    pub violations: Vec<(Violation, Value, String)>,
    pub known_hits: BTreeMap<String, u64>,
    pub internal_errors: Vec<String>,
    pub exhaustive: bool,
    pub budget_exhausted: bool,
    pub extra: BTreeMap<String, Value>,
    pub legs: Vec<String>,
}

impl Outcome {
    pub fn merge(&mut self, other: Outcome) {
        self.evaluations += other.evaluations;
        self.nontrivial.extend(other.nontrivial);
        for (k, v) in other.classes {
            *self.classes.entry(k).or_default() += v;
        }
        for s in other.samples {
            if self.samples.len() < 10 {
                self.samples.push(s);
            }
        }
        self.noop_ops += other.noop_ops;
        self.total_ops += other.total_ops;
        self.violations.extend(other.violations);
        for (k, v) in other.known_hits {
            *self.known_hits.entry(k).or_default() += v;
        }
        self.internal_errors.extend(other.internal_errors);
        self.budget_exhausted |= other.budget_exhausted;
        for (k, v) in other.extra {
            self.extra.insert(k, v);
        }
        self.legs.extend(other.legs);
    }
}

pub fn to_json<T: Serialize>(t: &T) -> String {
    serde_json::to_string(t).unwrap_or_default()
}

pub fn stable_hash<T: Hash>(t: &T) -> u64 {
    // FNV-1a over the std Hash stream with a fixed-key hasher (SipHasher default keys are fixed
    // for `DefaultHasher::new()`).
    let mut h = std::collections::hash_map::DefaultHasher::new();
    t.hash(&mut h);
    h.finish()
}

pub fn mix(seed: u64, salt: &str, shard: u64) -> [u8; 32] {
    let mut out = [0u8; 32];
    let mut x = seed ^ stable_hash(&salt) ^ shard.wrapping_mul(0x9E37_79B9_7F4A_7C15);
    for chunk in out.chunks_mut(8) {
        // splitmix64
        x = x.wrapping_add(0x9E37_79B9_7F4A_7C15);
        let mut z = x;
        z = (z ^ (z >> 30)).wrapping_mul(0xBF58_476D_1CE4_E5B9);
        z = (z ^ (z >> 27)).wrapping_mul(0x94D0_49BB_1331_11EB);
        z ^= z >> 31;
        chunk.copy_from_slice(&z.to_le_bytes());
    }
    out
}

fn new_runner(seed: u64, salt: &str, shard: u64) -> TestRunner {
    let cfg = Config {
        failure_persistence: None,
        ..Config::default()
    };
    let rng = TestRng::from_seed(RngAlgorithm::ChaCha, &mix(seed, salt, shard));
    TestRunner::new_with_rng(cfg, rng)
}

fn is_known(known: &[KnownFinding], prop: &str, sig: &str) -> bool {
    known.iter().any(|k| k.prop == prop && k.sig == sig)
}

/// Run `cases` generated cases of `engine` from `strategy`, sharded over threads.
/// Each shard is a pure function of (seed, salt, shard index); results are merged in shard order.
/// Runs one case; a panic that escapes the engine is judged by where it was raised: in the library
/// (or in a dependency the library drives) it is a violation of the property under check - the case
/// made library code panic on the harness thread -, in the harness it is an internal error.
pub fn run_case_guarded<E: Engine>(engine: &E, case: &E::Case, prop: &str) -> CaseReport {
    match std::panic::catch_unwind(std::panic::AssertUnwindSafe(|| engine.run_case(case))) {
        Ok(r) => r,
        Err(p) => {
            let msg = p.downcast_ref::<String>().cloned().or_else(|| p.downcast_ref::<&str>().map(|s| s.to_string())).unwrap_or_else(|| "panic".into());
            let loc = crate::panichook::last_location();
            let mut rep = CaseReport::default();
            if crate::panichook::in_library(&loc) {
                let file = loc.rsplit('/').next().unwrap_or(&loc).split(':').next().unwrap_or("").trim_end_matches(".rs").to_string();
                rep.violate(format!("{prop}/panic-in-library/{file}"), format!("engine {}: library code panicked at {loc}: {msg}", engine.name()));
            } else {
                rep.internal_error = Some(format!("engine {} panicked at {loc}: {msg}", engine.name()));
            }
            let _ = crate::panichook::take_all();
            rep
        }
    }
}

pub fn run_generated<E, S>(
    ctx: &Ctx,
    engine: &E,
    leg: &str,
    make: impl Fn() -> S + Sync,
    cases: u64,
    max_shrink: u32,
) -> Outcome
where
    E: Engine,
    S: Strategy<Value = E::Case>,
{
    let known = load_known();
    let shards = ctx.threads.max(1) as u64;
    let per = cases.div_ceil(shards);
    let salt = format!("{}:{}:{}", ctx.prop, engine.name(), leg);
    let results: Vec<Outcome> = std::thread::scope(|scope| {
        let handles: Vec<_> = (0..shards)
            .map(|shard| {
                let known = &known;
                let make = &make;
                let salt = &salt;
                scope.spawn(move || {
                    let strategy = make();
                    run_shard(ctx, engine, &strategy, known, salt, shard, per, max_shrink)
                })
            })
            .collect();
        handles
            .into_iter()
            .map(|h| match h.join() {
                Ok(o) => o,
                Err(p) => {
                    let mut o = Outcome::default();
                    let msg = p
                        .downcast_ref::<String>()
                        .cloned()
                        .or_else(|| p.downcast_ref::<&str>().map(|s| s.to_string()))
                        .unwrap_or_else(|| "shard panicked".into());
                    o.internal_errors.push(format!("shard panic: {msg}"));
                    o
                }
            })
            .collect()
    });
    let mut total = Outcome::default();
    for r in results {
        total.merge(r);
    }
    total.samples.truncate(2);
    total.legs.push(format!("{}:{}", engine.name(), leg));
    total
}

#[allow(clippy::too_many_arguments)]
fn run_shard<E, S>(
    ctx: &Ctx,
    engine: &E,
    strategy: &S,
    known: &[KnownFinding],
    salt: &str,
    shard: u64,
    cases: u64,
    max_shrink: u32,
) -> Outcome
where
    E: Engine,
    S: Strategy<Value = E::Case>,
{
    let mut out = Outcome::default();
    let mut runner = new_runner(ctx.seed, salt, shard);
    let mut seen_sigs: BTreeSet<String> = BTreeSet::new();
    for _ in 0..cases {
        let mut tree = match strategy.new_tree(&mut runner) {
            Ok(t) => t,
            Err(e) => {
                out.internal_errors.push(format!("generator rejected: {e}"));
                break;
            }
        };
        let case = tree.current();
        if std::env::var_os("VERIF_ECHO").is_some() {
            eprintln!("CASE {}", serde_json::to_string(&case).unwrap_or_default());
        }
        let report = run_case_guarded(engine, &case, &ctx.prop);
        PROGRESS.fetch_add(1, std::sync::atomic::Ordering::Relaxed);
        out.evaluations += 1;
        out.noop_ops += report.noop_ops;
        out.total_ops += report.total_ops;
        if let Some(e) = &report.internal_error {
            out.internal_errors.push(format!(
                "{e}; case={}",
                serde_json::to_string(&case).unwrap_or_default()
            ));
            if out.internal_errors.len() > 3 {
                break;
            }
            continue;
        }
        for c in &report.classes {
            *out.classes.entry((*c).to_string()).or_default() += 1;
        }
        if report.nontrivial {
            let js = serde_json::to_string(&case).unwrap_or_default();
            out.nontrivial.insert(stable_hash(&js));
            if out.samples.len() < 2 {
                out.samples.push(serde_json::to_value(&case).unwrap_or(Value::Null));
            }
        }
        let mut unknown: Vec<&Violation> = vec![];
        for v in &report.violations {
            if is_known(known, &ctx.prop, &v.sig) {
                *out.known_hits.entry(v.sig.clone()).or_default() += 1;
            } else {
                unknown.push(v);
            }
        }
        if let Some(first) = unknown.first() {
            if seen_sigs.contains(&first.sig) {
                continue;
            }
            seen_sigs.insert(first.sig.clone());
            // shrink towards any unknown violation with the same signature
            let target = first.sig.clone();
            let mut best_case = case.clone();
            let mut best_v = (*first).clone();
            let mut iters = 0u32;
            let shrink_started = Instant::now();
            if tree.simplify() {
                loop {
                    if iters >= max_shrink || (engine.real_time() && shrink_started.elapsed() > Duration::from_secs(25)) {
                        break;
                    }
                    iters += 1;
                    let cur = tree.current();
                    let rep = run_case_guarded(engine, &cur, &ctx.prop);
                    PROGRESS.fetch_add(1, std::sync::atomic::Ordering::Relaxed);
                    let hit = rep
                        .violations
                        .iter()
                        .find(|v| v.sig == target && !is_known(known, &ctx.prop, &v.sig))
                        .cloned();
                    if let Some(v) = hit {
                        best_case = cur;
                        best_v = v;
                        if !tree.simplify() {
                            break;
                        }
                    } else if !tree.complicate() {
                        break;
                    }
                }
            }
            out.violations.push((
                best_v,
                serde_json::to_value(&best_case).unwrap_or(Value::Null),
                engine.name().to_string(),
            ));
            if out.violations.len() >= 4 || engine.real_time() {
                break;
            }
        }
    }
    out
}

/// Run an explicit list of cases (exhaustive enumerations, replays of regression files).
pub fn run_listed<E: Engine>(ctx: &Ctx, engine: &E, leg: &str, cases: Vec<E::Case>) -> Outcome {
    let known = load_known();
    let shards = ctx.threads.max(1);
    let chunks: Vec<Vec<E::Case>> = {
        let mut v: Vec<Vec<E::Case>> = (0..shards).map(|_| vec![]).collect();
        for (i, c) in cases.into_iter().enumerate() {
            v[i % shards].push(c);
        }
        v
    };
    let results: Vec<Outcome> = std::thread::scope(|scope| {
        let handles: Vec<_> = chunks
            .into_iter()
            .map(|chunk| {
                let known = &known;
                scope.spawn(move || {
                    let mut out = Outcome::default();
                    let mut seen: BTreeSet<String> = BTreeSet::new();
                    for case in chunk {
                        let report = run_case_guarded(engine, &case, &ctx.prop);
                        PROGRESS.fetch_add(1, std::sync::atomic::Ordering::Relaxed);
                        out.evaluations += 1;
                        out.noop_ops += report.noop_ops;
                        out.total_ops += report.total_ops;
                        if let Some(e) = &report.internal_error {
                            out.internal_errors.push(format!(
                                "{e}; case={}",
                                serde_json::to_string(&case).unwrap_or_default()
                            ));
                            continue;
                        }
                        for c in &report.classes {
                            *out.classes.entry((*c).to_string()).or_default() += 1;
                        }
                        if report.nontrivial {
                            let js = serde_json::to_string(&case).unwrap_or_default();
                            out.nontrivial.insert(stable_hash(&js));
                            if out.samples.len() < 2 {
                                out.samples
                                    .push(serde_json::to_value(&case).unwrap_or(Value::Null));
                            }
                        }
                        for v in &report.violations {
                            if is_known(known, &ctx.prop, &v.sig) {
                                *out.known_hits.entry(v.sig.clone()).or_default() += 1;
                            } else if seen.insert(v.sig.clone()) && out.violations.len() < 4 {
                                out.violations.push((
                                    v.clone(),
                                    serde_json::to_value(&case).unwrap_or(Value::Null),
                                    engine.name().to_string(),
                                ));
                            }
                        }
                    }
                    out
                })
            })
            .collect();
        handles
            .into_iter()
            .map(|h| match h.join() {
                Ok(o) => o,
                Err(_) => {
                    let mut o = Outcome::default();
                    o.internal_errors.push("shard panicked".into());
                    o
                }
            })
            .collect()
    });
    let mut total = Outcome::default();
    for r in results {
        total.merge(r);
    }
    total.samples.truncate(2);
    total.legs.push(format!("{}:{}", engine.name(), leg));
    total
}

// ------------------------------------------------------------------------------------------------
// Replay files

#[derive(Serialize, serde::Deserialize)]
pub struct ReplayFile {
    pub property: String,
    pub engine: String,
    pub sig: String,
    pub msg: String,
    pub case: Value,
}

pub fn write_replay(prop: &str, engine: &str, v: &Violation, case: &Value) -> PathBuf {
    let base = std::env::var("VERIF_OUT_DIR").unwrap_or_else(|_| VERIF_DIR.to_string());
    let dir = Path::new(&base).join("replays").join("found");
    let _ = std::fs::create_dir_all(&dir);
    let rf = ReplayFile {
        property: prop.to_string(),
        engine: engine.to_string(),
        sig: v.sig.clone(),
        msg: v.msg.clone(),
        case: case.clone(),
    };
    let text = serde_json::to_string_pretty(&rf).unwrap();
    let h = stable_hash(&text);
    let path = dir.join(format!("{prop}-{:012x}.json", h & 0xffff_ffff_ffff));
    let _ = std::fs::write(&path, text);
    path
}

pub fn read_replay(path: &Path) -> Result<ReplayFile, String> {
    let text = std::fs::read_to_string(path).map_err(|e| format!("{}: {e}", path.display()))?;
    serde_json::from_str(&text).map_err(|e| format!("{}: {e}", path.display()))
}

/// Committed regression replays for a property: /verif/replays/regress/<prop>-*.json
pub fn regress_files(prop: &str) -> Vec<PathBuf> {
    let dir = Path::new(VERIF_DIR).join("replays").join("regress");
    let mut v: Vec<PathBuf> = std::fs::read_dir(dir)
        .map(|rd| {
            rd.filter_map(|e| e.ok())
                .map(|e| e.path())
                .filter(|p| {
                    p.file_name()
                        .and_then(|n| n.to_str())
                        .map(|n| n.starts_with(&format!("{prop}-")) && n.ends_with(".json"))
                        .unwrap_or(false)
                })
                .collect()
        })
        .unwrap_or_default();
    v.sort();
    v
}

// ------------------------------------------------------------------------------------------------
// Finishing: evidence + exit code

pub struct Finish {
    pub rule: String,
    pub assumptions: Vec<String>,
    /// minimum fraction (of evaluations) for named classes; below ⇒ generator bug (exit 2)
    pub min_class_fraction: Vec<(&'static str, f64)>,
}

pub fn finish(ctx: &Ctx, started: Instant, out: Outcome, fin: Finish) -> i32 {
    let known = load_known();
    let wall = started.elapsed().as_secs_f64();
    let mut code = 0;

    for (sig, n) in &out.known_hits {
        let text = known
            .iter()
            .find(|k| k.prop == ctx.prop && &k.sig == sig)
            .map(|k| k.text.clone())
            .unwrap_or_default();
        println!(
            "KNOWN-FINDING: property={} sig={} hits={} {}",
            ctx.prop, sig, n, text
        );
    }

    // one report per signature: the smallest case found by any shard
    let mut by_sig: BTreeMap<String, (Violation, Value, String)> = BTreeMap::new();
    for (v, case, engine) in &out.violations {
        let size = serde_json::to_string(case).map(|s| s.len()).unwrap_or(usize::MAX);
        let replace = match by_sig.get(&v.sig) {
            Some((_, c, _)) => size < serde_json::to_string(c).map(|s| s.len()).unwrap_or(usize::MAX),
            None => true,
        };
        if replace {
            by_sig.insert(v.sig.clone(), (v.clone(), case.clone(), engine.clone()));
        }
    }
    let mut replay_paths = vec![];
    for (v, case, engine) in by_sig.values() {
        let path = write_replay(&ctx.prop, engine, v, case);
        println!("VIOLATION property={} replay={}", ctx.prop, path.display());
        println!("  sig: {}", v.sig);
        println!("  msg: {}", v.msg);
        replay_paths.push(path.display().to_string());
        code = 1;
    }

    let mut class_fracs = BTreeMap::new();
    for (k, v) in &out.classes {
        class_fracs.insert(
            k.clone(),
            (*v as f64 / out.evaluations.max(1) as f64 * 10000.0).round() / 10000.0,
        );
    }
    let mut vacuity = vec![];
    if ctx.replay.is_none() {
        for (c, min) in &fin.min_class_fraction {
            let got = class_fracs.get(*c).copied().unwrap_or(0.0);
            if got < *min {
                vacuity.push(format!("class {c} fraction {got} < required {min}"));
            }
            if std::env::var_os("VERIF_SHOW_MARGINS").is_some() {
                // auditing aid: how far each required class is above its vacuity threshold
                eprintln!("MARGIN {} {c} got={got} min={min} ratio={:.2}", ctx.prop, got / min.max(1e-9));
            }
        }
    }

    let mut coverage = serde_json::Map::new();
    coverage.insert("evaluations".into(), json!(out.evaluations));
    coverage.insert("distinct_nontrivial".into(), json!(out.nontrivial.len()));
    coverage.insert("rule".into(), json!(fin.rule));
    coverage.insert("samples".into(), Value::Array(out.samples.clone()));
    coverage.insert("classes".into(), json!(out.classes));
    coverage.insert("class_fractions".into(), json!(class_fracs));
    coverage.insert("legs".into(), json!(out.legs));
    coverage.insert(
        "noop_op_ratio".into(),
        json!(if out.total_ops > 0 {
            (out.noop_ops as f64 / out.total_ops as f64 * 1000.0).round() / 1000.0
        } else {
            0.0
        }),
    );
    coverage.insert("total_ops".into(), json!(out.total_ops));
    coverage.insert("known_finding_hits".into(), json!(out.known_hits));
    coverage.insert("exhaustive".into(), json!(out.exhaustive));
    coverage.insert("budget_exhausted".into(), json!(out.budget_exhausted));
    coverage.insert("replays".into(), json!(replay_paths));
    for (k, v) in &out.extra {
        coverage.insert(k.clone(), v.clone());
    }

    let evidence = json!({
        "property_id": ctx.prop,
        "tier": ctx.tier.as_str(),
        "seed": ctx.seed,
        "level": "exploration",
        "coverage": Value::Object(coverage),
        "assumptions": fin.assumptions,
        "wall_s": (wall * 100.0).round() / 100.0,
        "violations": out.violations.len(),
    });

    if ctx.replay.is_none() {
        // VERIF_OUT_DIR redirects evidence (experiments in the background); default /verif
        let base = std::env::var("VERIF_OUT_DIR").unwrap_or_else(|_| VERIF_DIR.to_string());
        let dir = Path::new(&base).join("evidence");
        let _ = std::fs::create_dir_all(&dir);
        let path = dir.join(format!("{}.json", ctx.prop));
        if let Err(e) = std::fs::write(&path, serde_json::to_string_pretty(&evidence).unwrap()) {
            eprintln!("cannot write evidence {}: {e}", path.display());
            return 2;
        }
    }

    println!(
        "{} tier={} seed={} evaluations={} distinct_nontrivial={} violations={} known_hits={} wall={:.1}s",
        ctx.prop,
        ctx.tier.as_str(),
        ctx.seed,
        out.evaluations,
        out.nontrivial.len(),
        out.violations.len(),
        out.known_hits.values().sum::<u64>(),
        wall
    );
    if ctx.verbose {
        println!("classes: {}", serde_json::to_string(&class_fracs).unwrap());
    }

    if !out.internal_errors.is_empty() {
        for e in out.internal_errors.iter().take(5) {
            eprintln!("INTERNAL: {e}");
        }
        // a violation that was found stands: an inconsistency of the harness elsewhere does not unsay it
        if code == 0 {
            return 2;
        }
    }
    if code == 0 && !vacuity.is_empty() {
        for v in vacuity {
            eprintln!("VACUITY: {v}");
        }
        return 2;
    }
    if code == 0 && ctx.replay.is_none() && out.nontrivial.len() < 2 {
        eprintln!("VACUITY: fewer than 2 distinct non-trivial cases");
        return 2;
    }
    code
}

/// Replay helper: run one stored case through an engine; prints the result. Strict: known findings
/// are reported as violations too (a replay file is evidence of the behaviour itself).
pub fn replay_one<E: Engine>(ctx: &Ctx, engine: &E, rf: &ReplayFile) -> Result<i32, String> {
    let case: E::Case =
        serde_json::from_value(rf.case.clone()).map_err(|e| format!("bad case: {e}"))?;
    let report = run_case_guarded(engine, &case, &ctx.prop);
    if let Some(e) = report.internal_error {
        return Err(e);
    }
    if report.violations.is_empty() {
        println!("replay: no violation (property={} engine={})", ctx.prop, engine.name());
        Ok(0)
    } else {
        for v in &report.violations {
            println!(
                "VIOLATION property={} replay={}",
                ctx.prop,
                ctx.replay.as_ref().map(|p| p.display().to_string()).unwrap_or_default()
            );
            println!("  sig: {}", v.sig);
            println!("  msg: {}", v.msg);
        }
        Ok(1)
    }
}

// ------------------------------------------------------------------------------------------------
// helpers for generators

/// monotone index mapping: shrinking the raw value moves towards index 0
pub fn idx(raw: u16, len: usize) -> Option<usize> {
    if len == 0 {
        None
    } else {
        Some(((raw as usize) * len) >> 16)
    }
}

// ------------------------------------------------------------------------------------------------
// coverage-guided leg (libFuzzer through cargo-fuzz), thorough tiers only

/// Runs `cargo +nightly fuzz run <target>` for `runs` executions with a fresh corpus seeded by
/// `seeds`. A crash carries the violating case as JSON on stderr (`FUZZ-VIOLATION` / `FUZZ-CASE`),
/// which is turned into an ordinary violation with a JSON replay (no dependence on libFuzzer).
pub fn run_fuzz_leg(ctx: &Ctx, target: &str, engine_name: &str, fz_prop: Option<&str>, runs: u64, max_len: u32, seeds: Vec<Vec<u8>>) -> Outcome {
    let mut out = Outcome::default();
    let fuzz_dir = Path::new(VERIF_DIR).join("harness").join("fuzz");
    let corpus = fuzz_dir.join("work").join(format!("corpus-{}-{}", target, ctx.prop));
    let _ = std::fs::remove_dir_all(&corpus);
    let _ = std::fs::create_dir_all(&corpus);
    for (i, s) in seeds.iter().enumerate() {
        let _ = std::fs::write(corpus.join(format!("seed-{i}")), s);
    }
    let artifacts = fuzz_dir.join("work").join(format!("artifacts-{}-{}", target, ctx.prop));
    let _ = std::fs::remove_dir_all(&artifacts);
    let _ = std::fs::create_dir_all(&artifacts);
    let mut cmd = std::process::Command::new("cargo");
    cmd.current_dir(&fuzz_dir)
        .env("CARGO_NET_OFFLINE", "true")
        .args(["+nightly", "fuzz", "run", target])
        .arg(&corpus)
        .arg("--")
        .arg(format!("-runs={runs}"))
        .arg(format!("-seed={}", (ctx.seed % 0xffff_ffff).max(1)))
        .arg(format!("-max_len={max_len}"))
        .arg("-len_control=0")
        .arg(format!("-artifact_prefix={}/", artifacts.display()));
    if let Some(p) = fz_prop {
        cmd.env("FZ_PROP", p);
    }
    let started = Instant::now();
    cmd.stdout(std::process::Stdio::null()).stderr(std::process::Stdio::piped());
    // run the child while keeping the watchdog fed; a 40 min cap turns a runaway campaign into
    // "budget exhausted" (inconclusive), never a violation
    let res = (|| -> std::io::Result<std::process::Output> {
        let mut child = cmd.spawn()?;
        let mut stderr = child.stderr.take();
        let reader = std::thread::spawn(move || {
            let mut buf = Vec::new();
            if let Some(e) = stderr.as_mut() {
                let _ = std::io::Read::read_to_end(e, &mut buf);
            }
            buf
        });
        let status = loop {
            if let Some(st) = child.try_wait()? {
                break st;
            }
            PROGRESS.fetch_add(1, std::sync::atomic::Ordering::Relaxed);
            if started.elapsed().as_secs() > 2400 {
                let _ = child.kill();
                out.budget_exhausted = true;
            }
            std::thread::sleep(std::time::Duration::from_millis(500));
        };
        let err = reader.join().unwrap_or_default();
        Ok(std::process::Output { status, stdout: vec![], stderr: err })
    })();
    let mut info = serde_json::Map::new();
    info.insert("target".into(), json!(target));
    info.insert("requested_runs".into(), json!(runs));
    match res {
        Err(e) => {
            info.insert("status".into(), json!(format!("unavailable: {e}")));
        }
        Ok(o) => {
            let err = String::from_utf8_lossy(&o.stderr).to_string();
            let done = err.lines().rev().find_map(|l| l.strip_prefix("Done ").and_then(|r| r.split_whitespace().next()).and_then(|n| n.parse::<u64>().ok()));
            let cov = err.lines().rev().find_map(|l| l.split("cov: ").nth(1).and_then(|r| r.split_whitespace().next()).and_then(|n| n.parse::<u64>().ok()));
            info.insert("executions".into(), json!(done));
            info.insert("coverage_edges".into(), json!(cov));
            info.insert("wall_s".into(), json!(started.elapsed().as_secs()));
            if let Some(n) = done {
                out.evaluations += n;
            }
            if let Some(vline) = err.lines().find(|l| l.starts_with("FUZZ-VIOLATION ")) {
                let sig = vline.split("sig=").nth(1).and_then(|r| r.split(" msg=").next()).unwrap_or("unknown").to_string();
                let msg = vline.split(" msg=").nth(1).unwrap_or("").to_string();
                let case = err.lines().find_map(|l| l.strip_prefix("FUZZ-CASE ")).and_then(|j| serde_json::from_str::<Value>(j).ok()).unwrap_or(Value::Null);
                out.violations.push((Violation { sig, msg }, case, engine_name.to_string()));
                info.insert("status".into(), json!("violation"));
            } else if o.status.success() {
                info.insert("status".into(), json!("ok"));
            } else if err.contains("could not compile") || err.contains("error: no such command") || err.contains("toolchain") && done.is_none() {
                info.insert("status".into(), json!("unavailable: fuzz target did not build"));
            } else if done.is_none() {
                let tail: Vec<&str> = err.lines().rev().take(6).collect();
                out.internal_errors.push(format!("fuzz leg {target} crashed without a decoded violation: {}", tail.join(" | ")));
                info.insert("status".into(), json!("crash"));
            } else {
                info.insert("status".into(), json!("ok"));
            }
        }
    }
    out.extra.insert(format!("fuzz_{target}"), Value::Object(info));
    out.legs.push(format!("libfuzzer:{target}"));
    out
}
