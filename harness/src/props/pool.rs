//! Checks decided by engine E1 (poolsim): C02 C03 C04 C05 C06 C14 C15.

use std::time::Instant;

use proptest::prelude::*;

use crate::common::*;
use crate::engines::poolsim::*;

fn has(c: &[&'static str], k: &str) -> bool {
    c.iter().any(|x| *x == k)
}

struct Def {
    prop: &'static str,
    profile: Weights,
    plain_cfg: bool,
    max_ops: (usize, usize),
    cases: (u64, u64),
    nontrivial: fn(&[&'static str]) -> bool,
    rule: &'static str,
    min_class: Vec<(&'static str, f64)>,
}

fn def(prop: &str) -> Option<Def> {
    Some(match prop {
        "C02" => Def {
            prop: "C02",
            profile: Weights { issue: 16, poll: 28, cancel: 4, dial_ok: 12, dial_fail: 1, hs_ok: 12, hs_fail: 1, release: 14, ready: 12, close: 3, takeover: 3, bg: 16, warm: 8, advance: 0, hold: 3, sleep: 0, h2_pct: 12, alpn_pct: 5, origins: 2 },
            plain_cfg: false,
            max_ops: (40, 120),
            cases: (240_000, 6_000_000),
            nontrivial: |c| has(c, "h1-conn-reused") && has(c, "overlapping-requests-same-origin"),
            rule: "history = pool config + vec(op) over {Issue,Poll,Cancel,DialOk/Fail,HsOk/Fail,Release,ConnReady,ConnClose,TakeOver,Bg} interpreted against the real ConnectionPoolService with scripted transport/protocol/connection; non-trivial = some HTTP/1 connection was handed out at least twice AND two requests to one origin overlapped; distinct by hash of the serialised case",
            min_class: vec![("h1-conn-reused", 0.10)],
        },
        "C03" => Def {
            prop: "C03",
            profile: Weights { issue: 18, poll: 30, cancel: 9, dial_ok: 8, dial_fail: 7, hs_ok: 8, hs_fail: 5, release: 6, ready: 6, close: 2, takeover: 0, bg: 12, warm: 3, advance: 0, hold: 3, sleep: 0, h2_pct: 75, alpn_pct: 5, origins: 1 },
            plain_cfg: false,
            max_ops: (40, 120),
            cases: (240_000, 6_000_000),
            nontrivial: |c| has(c, "waiter-present-when-dial-failed") || has(c, "cancel-pure-waiter") || (has(c, "cancel-while-dialing") && has(c, "h2-issue-during-h2-dial")),
            rule: "history as for C02 with an HTTP/2-heavy single-origin profile rich in dial/handshake failures and cancels, followed by a deterministic drain (all outstanding attempts succeed, holders release, background runs, woken requests polled) and a probe request; non-trivial = another request was waiting on a dial when it failed, or a pure waiter was cancelled, or a dialing owner was cancelled while an HTTP/2 request had been issued during its dial",
            min_class: vec![("waiter-present-when-dial-failed", 0.03), ("cancel-while-dialing", 0.05)],
        },
        "C04" => Def {
            prop: "C04",
            profile: Weights { issue: 20, poll: 28, cancel: 7, dial_ok: 12, dial_fail: 1, hs_ok: 12, hs_fail: 1, release: 12, ready: 12, close: 2, takeover: 0, bg: 14, warm: 8, advance: 0, hold: 3, sleep: 0, h2_pct: 50, alpn_pct: 8, origins: 2 },
            plain_cfg: true,
            max_ops: (40, 120),
            cases: (240_000, 6_000_000),
            nontrivial: |c| has(c, "issue-with-idle-conn-available") || has(c, "issue-with-h2-conn-available") || has(c, "h2-issue-during-h2-dial") || has(c, "cancel-with-healthy-connections"),
            rule: "history as for C02 with max_idle=32 and no expiry; non-trivial = a request was issued while a reusable connection was certainly available, or an HTTP/2 request was issued while an HTTP/2 dial to its origin was in flight, or a request that never used a connection was cancelled while healthy connections existed",
            min_class: vec![("issue-with-idle-conn-available", 0.05), ("issue-with-h2-conn-available", 0.05), ("h2-issue-during-h2-dial", 0.05), ("cancel-with-healthy-connections", 0.035)],
        },
        "C05" => Def {
            prop: "C05",
            profile: Weights { issue: 18, poll: 28, cancel: 4, dial_ok: 12, dial_fail: 1, hs_ok: 12, hs_fail: 1, release: 12, ready: 12, close: 9, takeover: 1, bg: 16, warm: 10, advance: 0, hold: 3, sleep: 0, h2_pct: 30, alpn_pct: 5, origins: 2 },
            plain_cfg: false,
            max_ops: (40, 120),
            cases: (240_000, 6_000_000),
            nontrivial: |c| has(c, "closed-while-pool-owned") && has(c, "issue-after-pooled-close"),
            rule: "history as for C02 with a close-heavy profile; non-trivial = a connection was closed by the peer while the pool or a hand-back task owned it and a later request for its origin was issued",
            min_class: vec![("closed-while-pool-owned", 0.10), ("issue-with-only-expired-idle-connection", 0.0002)],
        },
        "C06" => Def {
            prop: "C06",
            profile: Weights { issue: 20, poll: 30, cancel: 5, dial_ok: 12, dial_fail: 2, hs_ok: 12, hs_fail: 2, release: 12, ready: 12, close: 2, takeover: 0, bg: 14, warm: 10, advance: 0, hold: 3, sleep: 0, h2_pct: 35, alpn_pct: 8, origins: 6 },
            plain_cfg: false,
            max_ops: (48, 140),
            cases: (240_000, 6_000_000),
            nontrivial: |c| has(c, "reuse-while-other-origin-connection-alive"),
            rule: "history as for C02 over six URIs forming four origins that differ in scheme, port, host and letter case, plus a leg over random 2-4-element subsets of an 18-entry table with near misses (explicit port equal to the other scheme's default, same explicit port under the other scheme, hosts extending one another, IPv4/IPv6 literals); origins are compared by (scheme, host, effective port); non-trivial = a pooled connection was reused while a live connection of a different origin existed",
            min_class: vec![("reuse-while-other-origin-connection-alive", 0.10)],
        },
        "C14" => Def {
            prop: "C14",
            profile: Weights { issue: 16, poll: 30, cancel: 6, dial_ok: 5, dial_fail: 1, hs_ok: 6, hs_fail: 1, release: 14, ready: 14, close: 1, takeover: 0, bg: 18, warm: 6, advance: 0, hold: 3, sleep: 0, h2_pct: 15, alpn_pct: 5, origins: 1 },
            plain_cfg: true,
            max_ops: (40, 120),
            cases: (240_000, 6_000_000),
            nontrivial: |c| has(c, "release-while-polled-request-waits") || has(c, "dial-preempted") || has(c, "cancel-while-dialing"),
            rule: "history as for C02, single origin, slow dials; non-trivial = a released connection re-entered the pool strictly after a still-dialing request's first poll, or a dial was pre-empted, or a dialing request was cancelled",
            min_class: vec![("release-while-polled-request-waits", 0.1), ("cancel-while-dialing", 0.05)],
        },
        "C15" => Def {
            prop: "C15",
            profile: Weights { issue: 22, poll: 30, cancel: 3, dial_ok: 14, dial_fail: 1, hs_ok: 14, hs_fail: 1, release: 16, ready: 16, close: 3, takeover: 0, bg: 16, warm: 10, advance: 0, hold: 3, sleep: 0, h2_pct: 0, alpn_pct: 0, origins: 2 },
            plain_cfg: false,
            max_ops: (48, 140),
            cases: (240_000, 6_000_000),
            nontrivial: |c| has(c, "idle-surplus-released"),
            rule: "history as for C02, HTTP/1 bursts over two origins, max_idle_per_host in {0,1,2,3,32}; non-trivial = more than max_idle_per_host connections of one origin were handed back while open",
            min_class: vec![("idle-surplus-released", 0.10)],
        },
        _ => return None,
    })
}

pub fn run(ctx: &Ctx) -> i32 {
    let started = Instant::now();
    let Some(d) = def(&ctx.prop) else {
        eprintln!("not a poolsim property: {}", ctx.prop);
        return 2;
    };
    let engine = PoolEngine { prop: d.prop, nontrivial: d.nontrivial, phases: Phases { drain: true, probe: true } };

    if let Some(path) = &ctx.replay {
        return match read_replay(path).and_then(|rf| {
            if std::env::var_os("VERIF_TRACE").is_some() {
                if let Ok(case) = serde_json::from_value::<PoolCase>(rf.case.clone()) {
                    let out = run_pool_case(&case, true, engine.phases);
                    for l in out.log {
                        println!("   {l}");
                    }
                }
            }
            if rf.engine == "netsim" {
                return replay_one(ctx, &crate::props::net::NetEngine { prop: d.prop }, &rf);
            }
            if rf.engine == "execheld" {
                return replay_one(ctx, &crate::engines::reqgrammar::ExecHeldEngine, &rf);
            }
            if rf.engine == "rtpool" {
                return replay_one(ctx, &crate::engines::rtpool::RtPoolEngine { prop: d.prop }, &rf);
            }
            replay_one(ctx, &engine, &rf)
        }) {
            Ok(c) => c,
            Err(e) => {
                eprintln!("replay failed: {e}");
                2
            }
        };
    }

    let mut total = Outcome::default();

    // regression tier: committed replays first
    let mut regress = vec![];
    for f in regress_files(d.prop) {
        match read_replay(&f).and_then(|rf| serde_json::from_value::<PoolCase>(rf.case).map_err(|e| e.to_string())) {
            Ok(c) => regress.push(c),
            Err(e) => {
                eprintln!("bad regression file {}: {e}", f.display());
                return 2;
            }
        }
    }
    if !regress.is_empty() {
        total.merge(run_listed(ctx, &engine, "regress", regress));
    }

    let max_ops = ctx.tier.pick(d.max_ops.0, d.max_ops.1);
    let n = ctx.cases(d.cases.0, d.cases.1);
    let own = n * 3 / 4;
    let generic = n - own;
    if d.plain_cfg {
        total.merge(run_generated(ctx, &engine, "profile", || case_strategy(d.profile, max_ops, cfg_plain_strategy()), own, 2000));
        total.merge(run_generated(ctx, &engine, "generic", || case_strategy(GENERIC, max_ops, cfg_plain_strategy()), generic / 2, 2000));
        total.merge(run_generated(ctx, &engine, "generic-anycfg", || case_strategy(GENERIC, max_ops, cfg_any_strategy()), generic - generic / 2, 2000));
    } else {
        total.merge(run_generated(ctx, &engine, "profile", || case_strategy(d.profile, max_ops, cfg_any_strategy()), own, 2000));
        total.merge(run_generated(ctx, &engine, "generic", || case_strategy(GENERIC, max_ops, cfg_any_strategy()), generic, 2000));
    }

    if ctx.tier == Tier::Thorough && std::env::var_os("VERIF_NO_FUZZ").is_none() {
        // coverage-guided leg: byte input decoded into a pool history, same interpreter and monitors
        let seeds: Vec<Vec<u8>> = vec![
            vec![0x10, 0, 0x80, 2, 0, 6, 0, 8, 0, 2, 0, 10, 0, 2, 0, 11, 0, 13, 0, 0, 0x80, 2, 0x80],
            vec![0x30, 14, 0, 14, 0x80, 0, 0x80, 0, 0x80, 2, 0, 5, 0, 13, 0, 2, 0xff],
            (0..200u32).map(|i| (i * 37 % 251) as u8).collect(),
        ];
        total.merge(run_fuzz_leg(ctx, "fz_pool", "poolsim", Some(d.prop), ctx.cases(0, 40_000), 400, seeds));
    }
    if d.prop == "C02" || d.prop == "C05" || d.prop == "C15" || d.prop == "C14" || d.prop == "C04" {
        // idle-list pressure: one origin, HTTP/1 only, idle bound 1 or 2, many releases without readiness
        // and peer closes, connection flavour "open = not closed" in three of four cases
        let wt = Weights { issue: 20, poll: 30, cancel: 2, dial_ok: 14, dial_fail: 0, hs_ok: 14, hs_fail: 0, release: 18, ready: 5, close: 9, takeover: 0, bg: 18, warm: 6, advance: 0, hold: 4, sleep: 0, h2_pct: 0, alpn_pct: 0, origins: 1 };
        total.merge(run_generated(ctx, &engine, "idle-list-pressure", move || case_strategy(wt, max_ops, cfg_small_idle_strategy()), ctx.cases(80_000, 2_000_000), 2000));
    }
    if d.prop == "C03" || d.prop == "C02" || d.prop == "C05" || d.prop == "C15" {
        // a protocol whose connections are never shareable, whatever version a request asks for (a
        // custom `Protocol`; the crate's `MockTransport::single()`): requests that wait on an
        // "HTTP/2" attempt are served one after the other, nobody may be stranded, the idle bound holds
        let wt = Weights { h2_pct: 60, ..d.profile };
        total.merge(run_generated(
            ctx,
            &engine,
            "single-use-connections",
            move || {
                use proptest::strategy::Strategy;
                case_strategy(wt, max_ops, cfg_any_strategy()).prop_map(|mut c| {
                    c.cfg.single_use = true;
                    c
                })
            },
            ctx.cases(60_000, 1_500_000),
            2000,
        ));
    }
    {
        // mutational search around the corpus of deep histories (every pool property: all monitors apply)
        let seeds = load_corpus();
        if !seeds.is_empty() {
            let wt = d.profile;
            total.merge(run_generated(ctx, &engine, "corpus-mutation", move || corpus_mutation_strategy(seeds.clone(), wt), ctx.cases(40_000, 1_500_000), 2000));
        }
    }
    if d.prop == "C04" || d.prop == "C03" || d.prop == "C14" {
        // mixed-version churn on one origin: HTTP/1 and HTTP/2 requests, ALPN upgrades, failing dials and
        // handshakes, peer closes and cancels - the histories in which the "HTTP/2 attempt in flight"
        // mark changes hands (defect D15 and its relatives lived here)
        let wt = Weights { issue: 22, poll: 30, cancel: 8, dial_ok: 10, dial_fail: 4, hs_ok: 10, hs_fail: 6, release: 10, ready: 10, close: 5, takeover: 0, bg: 14, warm: 8, advance: 0, hold: 3, sleep: 0, h2_pct: 60, alpn_pct: 15, origins: 1 };
        total.merge(run_generated(ctx, &engine, "mixed-version-churn", move || case_strategy(wt, max_ops, cfg_plain_strategy()), ctx.cases(200_000, 4_000_000), 2000));
    }
    if d.prop == "C04" {
        // end to end with the real hyper connections: one HTTP/2 connection per origin
        let e2e = crate::props::net::NetEngine { prop: "C04" };
        total.merge(run_generated(ctx, &e2e, "netsim-h2-sharing", || crate::props::net::ordered(crate::props::net::c04_e2e_strategy(8)), ctx.cases(6_000, 300_000), 300));
    }
    if d.prop == "C02" {
        // the crate's own RequestExecutor as the inner service, over a single-use connection that always reports ready
        total.merge(run_generated(ctx, &crate::engines::reqgrammar::ExecHeldEngine, "request-executor-holds-the-handle", crate::engines::reqgrammar::exec_strategy, ctx.cases(2_000, 60_000), 100));
    }
    if d.prop == "C04" {
        // real time, HTTP/2: a connection in steady use outlives its idle timeout
        let rctx = Ctx { threads: 16, ..ctx.clone() };
        total.merge(run_generated(&rctx, &crate::engines::rtpool::RtPoolEngine { prop: "C04" }, "real-time-h2-steady-use", crate::engines::rtpool::h2_strategy, ctx.cases(64, 2_000), 16));
    }
    if d.prop == "C05" {
        // a request labelled HTTP/2 between two HTTP/1 uses: looking at a pooled connection is not using it
        let rctx = Ctx { threads: 16, ..ctx.clone() };
        total.merge(run_generated(&rctx, &crate::engines::rtpool::RtPoolEngine { prop: "C05" }, "real-time-looked-at-but-not-used", crate::engines::rtpool::probe_strategy, ctx.cases(48, 1_500), 12));
    }
    if d.prop == "C05" || d.prop == "C15" {
        // end to end in real time through Client::builder(): idle expiry and the idle bound with real
        // hyper connections, requests that outlast the idle timeout, pauses on both sides of it
        let rctx = Ctx { threads: 16, ..ctx.clone() };
        total.merge(run_generated(&rctx, &crate::engines::rtpool::RtPoolEngine { prop: d.prop }, "real-time-client-e2e", crate::engines::rtpool::strategy, ctx.cases(160, 6_000), 30));
    }
    if d.prop == "C15" {
        // end to end: connections still open at an HTTP/1 origin after everything completed
        let e2e = crate::props::net::NetEngine { prop: "C15" };
        total.merge(run_generated(ctx, &e2e, "netsim-idle-bound", || crate::props::net::ordered(crate::props::net::c15_e2e_strategy(8)), ctx.cases(6_000, 300_000), 300));
    }
    if d.prop == "C15" || d.prop == "C06" || d.prop == "C05" || d.prop == "C02" {
        // hundreds of other origins pass through the pool in the middle of the traffic to a few origins
        total.merge(run_generated(ctx, &engine, "many-origins-mid-traffic", move || many_origins_mid_strategy(40), ctx.cases(400, 24_000), 300));
    }
    if d.prop == "C06" {
        total.merge(run_generated(ctx, &engine, "near-miss-origins", move || near_origins_strategy(d.profile, max_ops), ctx.cases(60_000, 1_500_000), 2000));
        total.merge(run_generated(ctx, &engine, "many-origins", move || many_origins_strategy(40), ctx.cases(240, 20_000), 300));
    }
    if d.prop == "C05" {
        // idle expiry: real-time leg with 60 ms sleeps on both sides of a 25 ms idle timeout
        let wt = Weights { issue: 10, poll: 20, cancel: 2, dial_ok: 8, dial_fail: 0, hs_ok: 8, hs_fail: 0, release: 8, ready: 8, close: 1, takeover: 0, bg: 10, warm: 14, advance: 0, hold: 2, sleep: 5, h2_pct: 15, alpn_pct: 0, origins: 2 };
        let ectx = Ctx { threads: 16, ..ctx.clone() };
        total.merge(run_generated(&ectx, &engine, "idle-expiry-real-time", move || case_strategy(wt, 24, cfg_expiry_strategy()), ctx.cases(400, 12_000), 200));
        total.merge(run_generated(&ectx, &engine, "idle-expiry-scenarios", expiry_scenario_strategy, ctx.cases(400, 12_000), 200));
        // whole-second idle timeouts, 1.15 s real sleeps: few cases, all threads
        total.merge(run_generated(&ectx, &engine, "idle-expiry-whole-seconds", expiry_whole_second_strategy, ctx.cases(32, 640), 20));
    }
    finish(
        ctx,
        started,
        total,
        Finish {
            rule: d.rule.to_string(),
            assumptions: vec![
                "tokio current_thread scheduler with paused clock; spawned pool tasks run only at Bg steps".into(),
                "harness connection models HttpConnection readiness: is_open = open && (ready || multiplexed)".into(),
                "ground truth is maintained by harness collaborators only; pool internals are never read".into(),
            ],
            min_class_fraction: d.min_class,
        },
    )
}

#[allow(dead_code)]
pub fn any_case() -> impl Strategy<Value = PoolCase> {
    case_strategy(GENERIC, 40, cfg_any_strategy())
}
