//! C10 / C11: happy eyeballs result and pacing.
use std::time::Instant;

use crate::common::*;
use crate::engines::eyeballs::*;

pub fn run(ctx: &Ctx) -> i32 {
    let started = Instant::now();
    let prop: &'static str = if ctx.prop == "C10" { "C10" } else { "C11" };
    let engine = EyeEngine { prop };
    if let Some(path) = &ctx.replay {
        return match read_replay(path).and_then(|rf| if rf.engine == "tcpeyes" { replay_one(ctx, &crate::engines::tcpeyes::TcpEyesEngine { prop }, &rf) } else { replay_one(ctx, &engine, &rf) }) {
            Ok(c) => c,
            Err(e) => {
                eprintln!("replay failed: {e}");
                2
            }
        };
    }
    let mut total = Outcome::default();
    // exhaustive small scope over the grid
    let (max_n, lats): (usize, Vec<u64>) = match ctx.tier {
        Tier::Quick => (2, vec![0, 10, 20, 30, 40]),
        Tier::Thorough => (3, vec![0, 10, 20, 30, 40, 50, 60]),
    };
    let ex = exhaustive(max_n, &lats);
    let n_ex = ex.len();
    let mut o = run_listed(ctx, &engine, &format!("exhaustive-n<={max_n}"), ex);
    o.extra.insert("exhaustive_scope".into(), serde_json::json!(format!("all attempt sets with n <= {max_n}, outcome in {{Ok,Err}} x latency {lats:?} or Never, x stagger {{None,0,13,25}} x timeout {{None,0,35,85}} x initial concurrency {{None,0..n}}: {n_ex} cases")));
    total.merge(o);
    total.merge(run_generated(ctx, &engine, "random-grid-n<=6", || random_strategy(6, false), ctx.cases(300_000, 6_000_000), 1000));
    total.merge(run_generated(ctx, &engine, "random-offgrid-n<=8", || random_strategy(8, true), ctx.cases(300_000, 6_000_000), 1000));
    // a set that already finished once (empty) and is filled afterwards behaves like a fresh one
    total.merge(run_generated(ctx, &engine, "reused-set", || {
        use proptest::prelude::*;
        (random_strategy(6, false), prop_oneof![Just(0u16), Just(7u16), 1u16..200]).prop_map(|(mut c, pause)| {
            c.reuse = Some(pause);
            c
        })
    }, ctx.cases(60_000, 1_500_000), 1000));
    // the real TcpTransport over loopback sockets (live / refused / hanging candidates), real clock
    let tctx = Ctx { threads: 16, ..ctx.clone() };
    total.merge(run_generated(&tctx, &crate::engines::tcpeyes::TcpEyesEngine { prop }, "tcp-transport", crate::engines::tcpeyes::strategy, ctx.cases(48, 1_500), 12));
    // outcomes that hinge on the pacing: hanging candidates first, the live one reached by the stagger timer only
    total.merge(run_generated(&tctx, &crate::engines::tcpeyes::TcpEyesEngine { prop }, "tcp-transport-pacing", crate::engines::tcpeyes::pacing_strategy, ctx.cases(32, 600), 8));
    let rule = "attempt sets of scripted (outcome in {Ok,Err,Never}, latency) futures pushed into the hooked EyeballSet with stagger delay, overall timeout and initial concurrency from the grid (and off-grid values), run on a paused current_thread runtime; each attempt records its first-poll instant and sequence; result, instant and start instants are checked against necessary conditions from the statement and, when the reference simulation reports no cross-kind tie and no zero-latency attempt, must equal the reference exactly. non-trivial = at least two attempts with different non-zero completion times and a positive stagger delay or deadline; distinct by hash of the case. tcp-transport leg: the real TcpTransport::connect_to_addrs over loopback candidates that accept, refuse, or hang (listener with a full accept queue), with happy_eyeballs_timeout in {none, 1.2 s, 1.6 s, 2.4 s} and concurrency in {none, 0..3}: outcome and completion time must match the reference for stagger = timeout / number of addresses (not earlier than expected; later than expected + 0.4 s is inconclusive)";
    finish(
        ctx,
        started,
        total,
        Finish {
            rule: rule.into(),
            assumptions: vec![
                "tokio paused clock: virtual time is exact at 1 ms granularity".into(),
                "the reference discrete-event simulation (harness) reads initial_concurrency = 0 as 'start the first attempt because nothing is running' and treats zero-latency attempts and simultaneous cross-kind events as ties".into(),
            ],
            min_class_fraction: vec![("tie-free", 0.15), ("result-ok", 0.1), ("result-err", 0.03), ("result-timeout", 0.1)],
        },
    )
}
