//! C18: stream adapters deliver exactly the bytes written.
use std::time::Instant;

use crate::common::*;
use crate::engines::iomodel::*;

pub fn run(ctx: &Ctx) -> i32 {
    let started = Instant::now();
    if let Some(path) = &ctx.replay {
        return match read_replay(path).and_then(|rf| match rf.engine.as_str() {
            "iomodel" => replay_one(ctx, &IoEngine, &rf),
            "iomodel-pair" => replay_one(ctx, &PairEngine, &rf),
            "iomodel-tlspair" => replay_one(ctx, &TlsPairEngine, &rf),
            "sniff" => replay_one(ctx, &crate::engines::sniff::SniffRewindEngine, &rf),
            "tcpreset" => replay_one(ctx, &TcpResetEngine, &rf),
            other => Err(format!("unknown engine {other}")),
        }) {
            Ok(c) => c,
            Err(e) => {
                eprintln!("replay failed: {e}");
                2
            }
        };
    }
    let mut total = Outcome::default();
    total.merge(run_generated(ctx, &IoEngine, "wrappers-over-scripted-inner", strategy, ctx.cases(300_000, 10_000_000), 2000));
    total.merge(run_generated(ctx, &PairEngine, "duplex-pairs", || pair_strategy(0..2), ctx.cases(40_000, 1_500_000), 1000));
    total.merge(run_generated(ctx, &TlsPairEngine, "tls-pairs", tls_pair_strategy, ctx.cases(6_000, 300_000), 300));
    // the sniffer + rewind buffer in front of hyper, driven with exact chunk boundaries and Pending results
    total.merge(run_generated(ctx, &crate::engines::sniff::SniffRewindEngine, "sniffing-rewind", crate::engines::sniff::strategy, ctx.cases(20_000, 600_000), 300));
    let sock_ctx = Ctx { threads: 8, ..ctx.clone() };
    total.merge(run_generated(&sock_ctx, &PairEngine, "tcp-unix-pairs", || pair_strategy(2..4), ctx.cases(1_500, 60_000), 300));
    // a connection aborted by the peer (RST) is an error for the reader, never an orderly end of the stream
    total.merge(run_generated(&sock_ctx, &TcpResetEngine, "tcp-abort", reset_strategy, ctx.cases(300, 10_000), 50));
    if ctx.tier == Tier::Thorough && std::env::var_os("VERIF_NO_FUZZ").is_none() {
        // coverage-guided leg: byte input decoded into an adapter program and inner scripts
        let seeds: Vec<Vec<u8>> = vec![
            vec![3, 5, 9, 4, 0x83, 4, 0, 0, 0x85, 2, 2, 0, 0x80, 3, 0, 9, 3, 1, 0x85, 2, 5, 3, 4, 9, 6, 0, 7, 0],
            vec![0, 0, 6, 3, 3, 7, 3, 1, 2, 0, 3, 2, 0, 1, 0x80, 1, 0, 1, 0, 0, 1, 3, 0, 4],
            (0..160u32).map(|i| (i * 41 % 251) as u8).collect(),
        ];
        total.merge(run_fuzz_leg(ctx, "fz_io", "iomodel", None, ctx.cases(0, 200_000), 200, seeds));
    }
    finish(
        ctx,
        started,
        total,
        Finish {
            rule: "wrapper leg: program of read(cap, prefilled)/write(len)/write_vectored(lens)/flush/shutdown with capacities incl. 0 and 1 applied to TokioIo (both directions and round trip), Rewind (hook) with arbitrary prefix, client/server Stream and TlsBraid::NoTls over a scripted inner stream whose read/write scripts contain short transfers, Pending, errors and EOF; every outward result is compared with what the inner returned during that call and the delivered/accepted byte streams with the reference FIFO. pair leg: the same kind of program over in-process duplex pairs (raw and wrapped in Braid + client/server Stream) and over real TCP / Unix socket pairs wrapped the same way. sniffing-rewind leg: byte streams from the C08 grammar delivered to server::conn::auto::Builder with exact chunk boundaries and Pending results; the answer must not depend on the fragmentation and must equal the single-protocol server's (where that reference is itself fragmentation-invariant). tls leg: client Stream::tls (lazy handshake) over a duplex pipe of 1 B-64 KiB against the server-side TlsStream over Braid, both ends driven concurrently in virtual time with scripted read-buffer sizes; the decrypted streams must equal the reference FIFO in both directions and end-of-stream must follow (only) a shutdown. non-trivial = a partial transfer or Pending result occurred and bytes moved; distinct by hash of the case".into(),
            assumptions: vec![
                "wrapper adapters are pass-through (no internal buffering), so delivered == handed out after every call; the Rewind prefix is delivered first and in order".into(),
                "TCP/Unix legs use real loopback sockets with 5 s real-time guards; a guard expiry while data is outstanding is reported as lost bytes only in the final drain".into(),
            ],
            min_class_fraction: vec![("partial-read", 0.2), ("pending-result", 0.2), ("error-result", 0.1), ("vectored-write", 0.2), ("rewind-prefix-split-across-reads", 0.02)],
        },
    )
}
