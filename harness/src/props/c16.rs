//! C16: address preference sorting.
use std::time::Instant;

use crate::common::*;
use crate::engines::addrsort::*;

pub fn run(ctx: &Ctx) -> i32 {
    let started = Instant::now();
    if let Some(path) = &ctx.replay {
        return match read_replay(path).and_then(|rf| match rf.engine.as_str() {
            "addrsort" => replay_one(ctx, &SortEngine, &rf),
            "addrsort-e2e" => replay_one(ctx, &E2eEngine, &rf),
            "addrsort-port" => replay_one(ctx, &PortEngine, &rf),
            "addrsort-order" => replay_one(ctx, &OrderEngine, &rf),
            other => Err(format!("unknown engine {other}")),
        }) {
            Ok(c) => c,
            Err(e) => {
                eprintln!("replay failed: {e}");
                2
            }
        };
    }
    let mut total = Outcome::default();
    // exhaustive small scope: every family pattern up to length 8 (quick) / 12 (thorough) x 4 bindings
    let max_len = ctx.tier.pick(8, 12);
    let ex = exhaustive_cases(max_len);
    let n_ex = ex.len();
    let mut o = run_listed(ctx, &SortEngine, &format!("exhaustive-len<={max_len}"), ex);
    o.extra.insert("exhaustive_family_patterns_up_to_len".into(), serde_json::json!(max_len));
    o.extra.insert("exhaustive_cases".into(), serde_json::json!(n_ex));
    total.merge(o);
    total.merge(run_generated(ctx, &SortEngine, "random-with-duplicates", random_strategy, ctx.cases(100_000, 3_000_000), 1000));
    // end-to-end through TcpTransport on loopback (real time, failing attempts are refused at once)
    let e2e_ctx = Ctx { threads: 4, ..ctx.clone() };
    total.merge(run_generated(&e2e_ctx, &E2eEngine, "tcp-loopback", e2e_strategy, ctx.cases(320, 4000), 60));
    // the port of the request URI (explicit or the scheme's default) reaches the socket, through
    // TcpTransport and SimpleTcpTransport, whatever port the resolver's answer carries
    total.merge(run_generated(&e2e_ctx, &PortEngine, "uri-port", port_strategy, ctx.cases(240, 4000), 40));
    // unlimited concurrency: the order in which the attempts reach one dual-stack listener
    total.merge(run_generated(&e2e_ctx, &OrderEngine, "attempt-order", order_strategy, ctx.cases(200, 4000), 40));
    finish(
        ctx,
        started,
        total,
        Finish {
            rule: "sort leg: address lists over {IPv4,IPv6} (all family patterns up to the stated length with distinct addresses, exhaustively, for the four local-binding combinations; plus random lists up to length 24 with duplicates and ports) through the hooked SocketAddrs::sort_preferred/set_port, compared with an independent stable-partition specification; e2e leg: TcpTransport with a scripted resolver answer over loopback addresses (3 IPv4, ::1, 2 IPv4-mapped), listeners on a subset sharing the URI port, concurrency 1: the accepted peer must be the first live address of the specified order. non-trivial = both families present and length >= 3 (sort) / a dead address precedes the first live one (e2e); distinct by hash of the case".into(),
            assumptions: vec![
                "loopback 127.0.0.0/8 and ::1 are available; a connect to a closed loopback port is refused well within the stagger delay (>= 570 ms)".into(),
                "the hook wrappers call SocketAddrs::sort_preferred / set_port / IpVersion::from_binding unchanged".into(),
            ],
            min_class_fraction: vec![("mixed-families", 0.3)],
        },
    )
}
