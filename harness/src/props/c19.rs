//! C19: timeout layer (unit leg in virtual time + pool leg through poolsim).
use std::time::Instant;

use crate::common::*;
use crate::engines::poolsim::*;
use crate::engines::timeout::*;

const PROFILE: Weights = Weights {
    issue: 16, poll: 28, cancel: 2, dial_ok: 14, dial_fail: 2, hs_ok: 14, hs_fail: 1, release: 5, ready: 8, close: 1, takeover: 0, bg: 12, warm: 4, advance: 12, hold: 6, sleep: 0,
    h2_pct: 45, alpn_pct: 5, origins: 2,
};

fn has(c: &[&'static str], k: &str) -> bool {
    c.iter().any(|x| *x == k)
}

pub fn run(ctx: &Ctx) -> i32 {
    let started = Instant::now();
    let pool = PoolEngine { prop: "C19", nontrivial: |c| has(c, "request-timed-out"), phases: Phases { drain: true, probe: true } };
    if let Some(path) = &ctx.replay {
        return match read_replay(path).and_then(|rf| match rf.engine.as_str() {
            "timeout" => replay_one(ctx, &ToEngine, &rf),
            "netsim" => replay_one(ctx, &crate::props::net::NetEngine { prop: "C19" }, &rf),
            "poolsim" => {
                if std::env::var_os("VERIF_TRACE").is_some() {
                    if let Ok(case) = serde_json::from_value::<PoolCase>(rf.case.clone()) {
                        for l in run_pool_case(&case, true, pool.phases).log {
                            println!("   {l}");
                        }
                    }
                }
                replay_one(ctx, &pool, &rf)
            }
            other => Err(format!("unknown engine {other}")),
        }) {
            Ok(c) => c,
            Err(e) => {
                eprintln!("replay failed: {e}");
                2
            }
        };
    }
    let mut total = Outcome::default();
    let ex = exhaustive();
    let n_ex = ex.len();
    let mut o = run_listed(ctx, &ToEngine, "unit-grid", ex);
    o.extra.insert("unit_grid_cases".into(), serde_json::json!(n_ex));
    total.merge(o);
    total.merge(run_generated(ctx, &ToEngine, "unit-random", strategy, ctx.cases(150_000, 5_000_000), 500));
    let max_ops = ctx.tier.pick(40, 120);
    total.merge(run_generated(ctx, &pool, "pool-with-timeouts", || case_strategy(PROFILE, max_ops, cfg_timeout_strategy()), ctx.cases(200_000, 5_000_000), 2000));
    // end-to-end leg: the real client stack with `with_timeout` against slow handlers (netsim)
    let e2e = crate::props::net::NetEngine { prop: "C19" };
    total.merge(run_generated(ctx, &e2e, "netsim-client-timeout", || crate::props::net::ordered(crate::props::net::c19_strategy(6)), ctx.cases(8_000, 400_000), 300));
    finish(
        ctx,
        started,
        total,
        Finish {
            rule: "unit leg: TimeoutLayer around a scripted inner service (completes Ok/Err at t or never; pending poll_ready; first poll delayed) for all durations/completion times of a grid (exhaustive) and random values, on a paused clock: result value, resolution instant, inner Drop and absence of later polls are checked; pool leg: poolsim histories (see C02) with every request wrapped in the real Timeout and virtual-time Advance operations, so that deadlines fire while requests dial, wait on another request's dial, handshake or hold a connection; after drain the probe must be served. non-trivial = inner completion time differs from the deadline (unit) / some request timed out (pool); distinct by hash of the case".into(),
            assumptions: vec![
                "tokio paused clock; the deadline counts from Service::call".into(),
                "when the first poll happens after both the deadline and the inner completion either answer is accepted (tie)".into(),
            ],
            min_class_fraction: vec![("timed-out", 0.1), ("inner-result", 0.07), ("request-timed-out", 0.07), ("timeout-while-dialing", 0.02), ("timeout-while-holding", 0.01), ("timeout-while-waiting-on-other", 0.005), ("e2e-request-timed-out", 0.005), ("e2e-request-completed", 0.005)],
        },
    )
}
