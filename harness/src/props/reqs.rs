//! C13 (request on the wire matches the connection's protocol) and C17 (no request value panics),
//! grammar legs. C17 additionally has full-stack legs in netsim (see props/c17 dispatch).
use std::time::Instant;

use crate::common::*;
use crate::engines::reqgrammar::*;

/// The C12 engine re-used for C17: a panic while connecting through the TLS transport.
pub struct TlsPanics;
impl Engine for TlsPanics {
    type Case = crate::engines::tlswire::TlsCase;
    fn name(&self) -> &'static str {
        "tlswire"
    }
    fn run_case(&self, case: &Self::Case) -> CaseReport {
        let mut rep = crate::engines::tlswire::TlsEngine.run_case(case);
        rep.violations.retain(|v| v.sig.starts_with("C12/panic"));
        for v in rep.violations.iter_mut() {
            v.sig = "C17/panic-in-tls-transport".into();
        }
        rep
    }
}

pub fn run(ctx: &Ctx) -> i32 {
    let started = Instant::now();
    let prop: &'static str = if ctx.prop == "C13" { "C13" } else { "C17" };
    let engine = ReqEngine { prop };
    if let Some(path) = &ctx.replay {
        return match read_replay(path).and_then(|rf| if rf.engine == "poolsim" { replay_one(ctx, &crate::engines::poolsim::PoolEngine { prop: "C17", nontrivial: |_| true, phases: crate::engines::poolsim::Phases { drain: true, probe: true } }, &rf) } else if rf.engine == "tlsstack" { crate::props::stack::replay(ctx, "C13", &rf) } else if rf.engine == "netsim" { replay_one(ctx, &crate::props::net::NetEngine { prop: "C13" }, &rf) } else if rf.engine == "tlswire" { replay_one(ctx, &TlsPanics, &rf) } else if rf.engine == "tcpuri" { replay_one(ctx, &crate::engines::reqgrammar::TcpUriEngine, &rf) } else { replay_one(ctx, &engine, &rf) }) {
            Ok(c) => c,
            Err(e) => {
                eprintln!("replay failed: {e}");
                2
            }
        };
    }
    let mut total = Outcome::default();
    total.merge(run_generated(ctx, &engine, "grammar", strategy, ctx.cases(60_000, 2_000_000), 600));
    if prop == "C13" {
        // protocol selection through real TLS/ALPN
        total.merge(crate::props::stack::leg(ctx, "C13"));
        // the whole client against real servers, redirects followed: Host / :authority on every hop
        let e2e = crate::props::net::NetEngine { prop: "C13" };
        total.merge(run_generated(ctx, &e2e, "netsim-redirect-hops", || crate::props::net::c13_e2e_strategy(5), ctx.cases(4_000, 200_000), 300));
    }
    if prop == "C17" {
        // pool histories with failing dials and handshakes: nothing may poll a finished connect or
        // handshake future again (a real transport future panics when that happens, in a spawned task)
        {
            use crate::engines::poolsim as ps;
            let pool_engine = ps::PoolEngine { prop: "C17", nontrivial: |c| c.iter().any(|x| *x == "waiter-present-when-dial-failed" || *x == "cancel-while-dialing" || *x == "dial-preempted"), phases: ps::Phases { drain: true, probe: true } };
            let wt = ps::Weights { dial_fail: 8, hs_fail: 6, cancel: 6, ..ps::GENERIC };
            total.merge(run_generated(ctx, &pool_engine, "poolsim-failing-attempts", move || ps::case_strategy(wt, 40, ps::cfg_any_strategy()), ctx.cases(40_000, 1_500_000), 2000));
        }
        // the real TCP transports (and the default TCP client) handed the grammar's URIs and degenerate ones
        total.merge(run_generated(ctx, &crate::engines::reqgrammar::TcpUriEngine, "tcp-transport-uri-handling", crate::engines::reqgrammar::tcpuri_strategy, ctx.cases(6_000, 200_000), 200));
        // TLS transport leg: the tlswire cases, only panics count here
        total.merge(run_generated(ctx, &TlsPanics, "tls-transport", crate::engines::tlswire::strategy, ctx.cases(20_000, 600_000), 300));
    }
    if ctx.tier == Tier::Thorough && std::env::var_os("VERIF_NO_FUZZ").is_none() {
        // coverage-guided leg: byte input decoded into a request (hosts taken verbatim from the input)
        let mut s1 = vec![0x80u8, 9, 1, 0, 0, 2, 3, 0, 6, 0, 0, 0];
        s1.extend_from_slice(b"[::1]%41x");
        let seeds: Vec<Vec<u8>> = vec![s1, vec![1, 4, 3, 0, 0, 9, 5, 7, 6, 3, 9, 0xff], (0..60u32).map(|i| (i * 37 % 251) as u8).collect()];
        total.merge(run_fuzz_leg(ctx, "fz_req", "reqgrammar", Some(prop), ctx.cases(0, 100_000), 64, seeds));
    }
    let (rule, mins): (&str, Vec<(&'static str, f64)>) = if prop == "C13" {
        (
            "request = scheme {http,https,ws,wss,ftp,custom} x host {names, IPv4, bracketed IPv6, unusual URI-legal} x port {absent, default, other} x path x query x URI form {absolute, origin, authority, asterisk} x method (incl. CONNECT, OPTIONS, extension) x version (all five constants) x pre-set headers (caller Host, Connection, Keep-Alive, Proxy-Connection, Transfer-Encoding, Upgrade, x-custom) x connection outcome (request version x ALPN); legs: public SetHostHeader/Http2Checks/Http1Checks layers over a stub connection, ConnectionPoolService (with and without pool) and ConnectorService over stub transport/protocol, and the real HttpConnectionBuilder + RequestExecutor with the client's bytes captured on the wire (preface / request line / Host header parsed). non-trivial = anything but a plain GET http://name/ over HTTP/1.1 without pre-set headers; distinct by hash of the case",
            vec![("h2-connection", 0.3), ("connect", 0.1), ("wire-h1-request-parsed", 0.08), ("wire-h2", 0.2), ("ipv6-host", 0.05)],
        )
    } else {
        (
            "same request grammar as C13 (every http::Version constant, standard and extension methods incl. CONNECT, absolute/origin/authority/asterisk URI forms, DNS/IPv4/bracketed IPv6/unusual hosts, header sets, bodies) sent through the check layers, ConnectionPoolService with and without pool, ConnectorService and the real connection builder; every panic recorded by the process-wide hook with a location inside /repo (also when a runtime caught it in a spawned task) is a violation; debug assertions are on. non-trivial as for C13",
            // fractions over all legs; the request-grammar leg is half of the evaluations
            vec![("unusual-version", 0.05), ("connect", 0.05), ("origin-form", 0.05), ("asterisk-form", 0.02), ("authority-form", 0.02), ("waiter-present-when-dial-failed", 0.003)],
        )
    };
    finish(
        ctx,
        started,
        total,
        Finish {
            rule: rule.into(),
            assumptions: vec![
                "requests the http crate refuses to build are outside the domain (counted as rejected-by-http-crate)".into(),
                "for schemes without a known default port either Host form (with or without the port) is accepted".into(),
            ],
            min_class_fraction: mins,
        },
    )
}
