//! C12: with TLS configured, https/wss traffic is never sent in the clear.
use std::time::Instant;

use crate::common::*;
use crate::engines::tlswire::*;

pub fn run(ctx: &Ctx) -> i32 {
    let started = Instant::now();
    if let Some(path) = &ctx.replay {
        return match read_replay(path).and_then(|rf| if rf.engine == "tlsstack" { crate::props::stack::replay(ctx, "C12", &rf) } else { replay_one(ctx, &TlsEngine, &rf) }) {
            Ok(c) => c,
            Err(e) => {
                eprintln!("replay failed: {e}");
                2
            }
        };
    }
    let mut total = Outcome::default();
    total.merge(run_generated(ctx, &TlsEngine, "transport-level", strategy, ctx.cases(60_000, 2_000_000), 300));
    total.merge(crate::props::stack::leg(ctx, "C12"));
    finish(
        ctx,
        started,
        total,
        Finish {
            rule: "scheme {https,wss,http,ws,ftp,custom} x host form (DNS names in / not in the fixture certificate's SAN incl. wildcard and upper case, IPv4 and bracketed IPv6 literals in / not in SAN, URI-legal non-DNS hosts) x port x peer behaviour (TLS server with matching / other-name / untrusted-CA certificate, closes at once, speaks plaintext HTTP, handshake truncated after k bytes, never answers) x ALPN offers on either side x client with/without TLS configuration, through the real TlsTransport over an in-memory stream; every byte the client writes is recorded on the wire, the TLS peer records the SNI it was offered and the plaintext it decrypted; a secret token is written through any stream that is returned. non-trivial = scheme is https/wss and the client has a TLS configuration (the property constrains the outcome); distinct by hash of the case".into(),
            assumptions: vec![
                "rustls (client and peer) and the committed fixture certificates (valid until 2126) are trusted; the system clock lies inside their validity".into(),
                "with both sides offering ALPN protocols without overlap rustls refuses the handshake: either outcome is accepted there".into(),
            ],
            min_class_fraction: vec![("tls-stream-established", 0.06), ("tls-connect-refused", 0.2), ("plain-stream", 0.05), ("ipv6-literal", 0.1), ("peer-plaintext", 0.03), ("peer-truncated-handshake", 0.03)],
        },
    )
}
