//! Checks decided by engine E2 (netsim): C01 (end-to-end integrity), C07 (graceful shutdown),
//! C09 (one misbehaving connection never takes the server down).
use std::time::Instant;

use proptest::prelude::*;

use crate::common::*;
use crate::engines::netsim::*;

pub struct NetEngine {
    pub prop: &'static str,
}

fn overlap(a: &ReqSpec, b: &ReqSpec) -> bool {
    // scripted windows: start .. start + handler delay + transfer gaps (a lower bound of the real one)
    let end = |r: &ReqSpec| r.start as u64 + r.handler_delay as u64 + (r.body_chunks as u64 * r.body_gap as u64) + (r.resp_chunks as u64 * r.resp_gap as u64) + 1;
    (a.start as u64) < end(b) && (b.start as u64) < end(a)
}

/// Shared correctness oracle for one well-behaved request; returns a violation (sig suffix, message).
fn judge_request(case: &NetCase, obs: &Obs, id: usize) -> Option<(String, String)> {
    let spec = &case.reqs[id];
    let nsrv = case.servers.len().clamp(1, 3);
    let srv = spec.server as usize % nsrv;
    let (outcome, t) = obs.client.get(&id).cloned().unwrap_or((ClientOutcome::Pending, 0));
    let desc = format!("request #{id} ({} to s{srv}, {:?}, body {} B in {} chunks, response {} B, started {} ms)", METHODS[spec.method as usize % METHODS.len()], request_version(case, spec), spec.body_len, spec.body_chunks, spec.resp_len, spec.start);
    match outcome {
        ClientOutcome::Cancelled => None,
        ClientOutcome::Pending => Some(("request-never-completes".into(), format!("{desc} is still pending at the end of the simulation"))),
        ClientOutcome::Err(e) => {
            // the dial this request waited on can be abandoned by a cancellation of its owner or by
            // the owner being served by a released HTTP/1 connection (pre-emption; needs HTTP/1 and
            // HTTP/2 requests to the same origin)
            let my_version = request_version(case, spec);
            // (a redirected request also visits its redirect target, and redirected requests visit this origin)
            let mine: Vec<usize> = std::iter::once(srv).chain(redirect_target(case, spec)).collect();
            let others_cancelled = case.reqs.iter().enumerate().any(|(j, r)| {
                let theirs = std::iter::once(r.server as usize % nsrv).chain(redirect_target(case, r));
                j != id && theirs.into_iter().any(|t| mine.contains(&t)) && (r.cancel_at.is_some() || request_version(case, r) != my_version)
            });
            if e.contains("pool closed, no connection can be made") && case.pool.as_ref().map(|p| !p.cont).unwrap_or(false) && others_cancelled {
                Some(("unavailable-after-abandoned-dial/cont=false".into(), format!("{desc} failed at {t} ms with `{e}` because the request whose HTTP/2 dial it waited on was cancelled (continue_after_preemption=false)")))
            } else {
                Some(("request-failed-without-fault".into(), format!("{desc} failed at {t} ms: {e}")))
            }
        }
        ClientOutcome::BodyErr(e) => Some(("response-body-broken".into(), format!("{desc}: response body failed at {t} ms: {e}"))),
        ClientOutcome::Ok { status, id_hdr, origin_hdr, body_ok, body_len, hdr_problem, .. } => {
            if let Some(hp) = hdr_problem.filter(|_| id_hdr == Some(id)) {
                Some(("response-headers-altered".into(), format!("{desc}: {hp}")))
            } else if id_hdr != Some(id) {
                Some(("response-for-another-request".into(), format!("{desc} received the response produced for request {id_hdr:?}")))
            } else if origin_hdr != Some(redirect_target(case, spec).unwrap_or(srv)) {
                Some(("response-from-wrong-origin".into(), format!("{desc} was answered by server {origin_hdr:?}")))
            } else if status != (if is_upgrade(case, spec) { 101 } else if is_connect(case, spec) { 403 } else { 200 + (id % 3) as u16 }) {
                Some(("response-status-altered".into(), format!("{desc} received status {status}")))
            } else if !body_ok {
                Some(("response-body-altered".into(), format!("{desc} received a body of {body_len} bytes that differs from what the server produced")))
            } else {
                None
            }
        }
    }
}

impl Engine for NetEngine {
    type Case = NetCase;
    fn name(&self) -> &'static str {
        "netsim"
    }
    fn run_case(&self, case: &NetCase) -> CaseReport {
        // The simulation runs on a thread of its own under a real-time limit. It lives in virtual time and
        // takes milliseconds (a spin that keeps polling the simulated transport is cut off after 5 s and is
        // inconclusive); a thread that has not come back after 60 s sits in a loop that never returns to
        // the executor and never touches the transport - library code polling something in a loop. The
        // thread cannot be stopped; it is left behind.
        let (tx, rx) = std::sync::mpsc::channel();
        let (prop, c2) = (self.prop, case.clone());
        let spawned = std::thread::Builder::new().name("netsim-case".into()).spawn(move || {
            let _ = tx.send(NetEngine { prop }.run_inner(&c2));
        });
        if spawned.is_err() {
            return self.run_inner(case);
        }
        match rx.recv_timeout(std::time::Duration::from_secs(60)) {
            Ok(rep) => rep,
            Err(_) => {
                let mut rep = CaseReport::default();
                rep.violate(
                    format!("{}/simulation-never-returns", self.prop),
                    "the simulation (virtual time, normally milliseconds) did not come back within 60 s of real time and never tripped the transport-poll guard: some task spins without yielding and without touching its transport, the runtime thread stands still and nothing completes".to_string(),
                );
                rep
            }
        }
    }
}

impl NetEngine {
    fn run_inner(&self, case: &NetCase) -> CaseReport {
        let mut rep = CaseReport::default();
        let _ = crate::panichook::take_all();
        let obs = match run_net_case(case) {
            Ok(o) => o,
            Err(e) => {
                let loc = crate::panichook::last_location();
                if e.contains(SIM_BUDGET_MSG) {
                    // inconclusive, never a violation
                    rep.class("budget-exceeded-inconclusive");
                    if std::env::var_os("VERIF_NET_DEBUG").is_some() {
                        eprintln!("BUDGET-CASE {}", crate::common::to_json(case));
                    }
                    return rep;
                }
                if crate::panichook::in_library(&loc) {
                    rep.violate(format!("{}/panic-in-library", self.prop), e);
                } else {
                    rep.internal_error = Some(e);
                }
                return rep;
            }
        };
        for (loc, msg) in crate::panichook::take_all() {
            if crate::panichook::in_library(&loc) {
                rep.violate(format!("{}/panic-in-library-task", self.prop), format!("a task panicked at {loc}: {msg}"));
            }
        }
        let nsrv = case.servers.len().clamp(1, 3);
        let p = self.prop;

        // ---- request/response integrity (C01; also the "other connections undisturbed" part of C09)
        if p == "C01" || p == "C09" {
            for m in &obs.mismatches {
                rep.violate(format!("{p}/request-altered-on-the-way"), m.clone());
            }
            // upgraded connections: the raw exchange after the 101 must be intact on the server's side
            // too, and nothing else may be served on a connection after it was taken over
            for (id, s, conn, t, problem) in &obs.upgrades {
                if let Some(pr) = problem {
                    if case.reqs[*id].cancel_at.is_none() {
                        rep.violate(format!("{p}/upgraded-stream-corrupted"), format!("request #{id} upgraded connection {conn} of s{s}; server half at {t} ms: {pr}"));
                    }
                } else {
                    rep.class("upgrade-completed");
                }
                if let Some(pos) = obs.handler_start.iter().position(|(i, _, _, _)| i == id) {
                    if let Some((j, _, _, tj)) = obs.handler_start[pos + 1..].iter().find(|(_, s2, c2, _)| s2 == s && c2 == conn) {
                        rep.violate(format!("{p}/request-on-upgraded-connection"), format!("request #{j} was handled at {tj} ms on connection {conn} of s{s}, which request #{id} had taken over by an upgrade"));
                    }
                }
                if case.reqs.iter().enumerate().any(|(j, r)| j != *id && r.server as usize % nsrv == *s && r.start as u64 >= *t) {
                    rep.class("request-after-upgrade-same-origin");
                }
            }
            for id in 0..case.reqs.len() {
                if case.reqs[id].handler_error {
                    continue;
                }
                if let Some((sig, msg)) = judge_request(case, &obs, id) {
                    if p == "C09" && sig.starts_with("unavailable-after-abandoned-dial") {
                        // the open C01 finding (KNOWN_FINDINGS.txt) is not caused by a connection fault
                        rep.class("excluded-open-C01-finding");
                        continue;
                    }
                    let sig = if p == "C09" { format!("C09/good-request-disturbed/{sig}") } else { format!("C01/{sig}") };
                    rep.violate(sig, msg);
                }
            }
        }

        // ---- C07
        if p == "C07" {
            let fired = match (case.shutdown, case.shutdown_on_accept) {
                (Some((srv, _)), Some(_)) => match obs.signal_at.filter(|t| *t < HORIZON_MS) {
                    Some(t) => Some((srv, t)),
                    // not fired by a scripted request (the probe after the horizon may trigger it)
                    None => {
                        rep.class("accept-triggered-signal-never-fired");
                        None
                    }
                },
                (Some((srv, t)), None) => Some((srv, t as u64)),
                _ => None,
            };
            if let Some((srv, t_sig)) = fired {
                let s = srv as usize % nsrv;
                if let Some(k) = case.shutdown_on_accept {
                    // the signal resolved inside the accept of connection k: no later connection
                    // may be accepted, not even within the same poll of the serving future
                    rep.class("signal-during-accept");
                    for (conn, t_acc) in &obs.accepted[s] {
                        if *conn > k as usize {
                            rep.violate("C07/connection-accepted-after-signal", format!("server s{s} accepted connection {conn} at {t_acc} ms although the signal had resolved while connection {k} was being accepted (at {t_sig} ms)"));
                        }
                    }
                    for (id, hs, conn, t_h) in obs.handler_start.iter() {
                        if *hs == s && *conn > k as usize {
                            rep.violate("C07/request-served-on-late-connection", format!("request #{id} handled at {t_h} ms on connection {conn}, accepted after the signal"));
                        }
                    }
                    let to_s: Vec<u16> = case.reqs.iter().filter(|r| r.server as usize % nsrv == s).map(|r| r.start).collect();
                    if to_s.iter().enumerate().any(|(i, a)| to_s[i + 1..].contains(a)) {
                        rep.class("simultaneous-connects-at-signal-server");
                    }
                }
                match &obs.server_done[s] {
                    None => rep.violate("C07/server-future-never-resolves", format!("signal at {t_sig} ms, the serving future is still pending at the end")),
                    Some((Err(e), t)) => rep.violate("C07/server-future-failed", format!("signal at {t_sig} ms, serving future resolved at {t} ms with error {e}")),
                    Some((Ok(()), t)) => {
                        if *t != t_sig {
                            rep.violate("C07/server-future-not-resolved-at-signal", format!("signal at {t_sig} ms, serving future resolved at {t} ms"));
                        }
                    }
                }
                for (id, hs, _conn, t_h) in obs.handler_start.iter() {
                    if *hs != s || *t_h >= t_sig || case.reqs[*id].cancel_at.is_some() || case.reqs[*id].handler_error {
                        continue;
                    }
                    if let Some((sig, msg)) = judge_request(case, &obs, *id) {
                        if !sig.starts_with("unavailable-after-abandoned-dial") {
                            rep.violate(format!("C07/in-flight-request-lost/{sig}"), format!("handler started at {t_h} ms, before the signal at {t_sig} ms: {msg}"));
                        }
                    }
                    rep.class("handler-started-before-signal");
                    let ended = obs.handler_end.iter().find(|(i, _)| i == id).map(|(_, t)| *t);
                    if ended.map(|e| e > t_sig).unwrap_or(true) {
                        rep.class("signal-while-handler-executing");
                    }
                }
                // counted at the horizon, while the client still holds its pooled connections open
                let (spawned, finished) = obs.conn_at_horizon.get(s).copied().unwrap_or((0, 0));
                if spawned != finished {
                    rep.violate("C07/connection-task-never-finishes", format!("server s{s}: {spawned} connection tasks spawned, {finished} finished although the signal fired at {t_sig} ms and every request ended long ago; {:?}", obs.fault_log));
                }
                if case.faults.iter().any(|f| f.kind == 7 && f.server as usize % nsrv == s && (f.at as u64) < t_sig) {
                    rep.class("idle-connection-open-at-signal");
                }
                // a pipelined request whose handler started before the signal gets its complete response
                // although the next request is already waiting in the connection's read buffer
                if let Some((_, _, _, t_start)) = obs.pipe_started.iter().find(|(ps, _, seq, _)| *ps == s && *seq == 1) {
                    if *t_start < t_sig {
                        rep.class("pipelined-request-in-flight-at-signal");
                        match obs.pipe_received.iter().find(|(ps, _, _)| *ps % nsrv == s) {
                            Some((_, bytes, t_end)) => {
                                let text = String::from_utf8_lossy(bytes);
                                if !(text.starts_with("HTTP/1.1 200") && text.contains("pipelined-1")) {
                                    rep.violate(
                                        "C07/in-flight-request-lost/pipelined-request-unanswered",
                                        format!("server s{s}: the handler of a pipelined request started at {t_start} ms, before the signal at {t_sig} ms, but its client received {:?} until the connection ended at {t_end} ms", &text[..text.len().min(80)]),
                                    );
                                }
                            }
                            None => rep.violate("C07/in-flight-request-lost/pipelined-request-unanswered", format!("server s{s}: the pipelining client of a request started at {t_start} ms never saw its connection end")),
                        }
                    }
                }
                for (conn, t_acc) in &obs.accepted[s] {
                    if *t_acc > t_sig {
                        rep.violate("C07/connection-accepted-after-signal", format!("server s{s} accepted connection {conn} at {t_acc} ms, after the signal at {t_sig} ms"));
                    }
                }
                for (id, hs, conn, t_h) in obs.handler_start.iter() {
                    if *hs == s && *t_h > t_sig {
                        let acc = obs.accepted[s].iter().find(|(c, _)| c == conn).map(|(_, t)| *t);
                        if acc.map(|a| a > t_sig).unwrap_or(false) {
                            rep.violate("C07/request-served-on-late-connection", format!("request #{id} handled at {t_h} ms on a connection accepted after the signal"));
                        }
                    }
                }
                if obs.accepted[s].len() >= 2 {
                    rep.class("several-connections");
                }
                if case.reqs.iter().any(|r| r.server as usize % nsrv == s && r.start as u64 > t_sig) {
                    rep.class("request-after-signal");
                }
                rep.nontrivial = rep.classes.contains(&"signal-while-handler-executing");
            }
        }

        // ---- C19 (end-to-end leg): Client::builder().with_timeout(d) against slow handlers
        if p == "C19" {
            if let Some(d) = case.timeout_ms {
                let d = d as u64;
                for (id, spec) in case.reqs.iter().enumerate() {
                    let (outcome, t) = obs.client.get(&id).cloned().unwrap_or((ClientOutcome::Pending, 0));
                    let deadline = spec.start as u64 + d;
                    let desc = format!("request #{id} started {} ms with timeout {d} ms (deadline {deadline} ms, handler delay {} ms): {outcome:?} at {t} ms", spec.start, spec.handler_delay);
                    match &outcome {
                        ClientOutcome::Pending => rep.violate("C19/e2e-never-resolves", desc),
                        ClientOutcome::Err(e) if e.contains("request timeout") => {
                            if t != deadline {
                                rep.violate("C19/e2e-timeout-not-at-deadline", desc);
                            }
                            rep.class("e2e-request-timed-out");
                        }
                        ClientOutcome::Ok { .. } => {
                            // the timeout covers the response head (of the last hop of a followed
                            // redirect); the body is read afterwards
                            if let Some(at) = obs.resolved_at.get(&id).copied().filter(|at| *at > deadline) {
                                rep.violate("C19/e2e-resolved-after-deadline", format!("{desc}: the request future resolved at {at} ms"));
                            }
                            if redirect_target(case, spec).is_some() {
                                rep.class("e2e-redirected-request-completed");
                            }
                            if let Some((sig, msg)) = judge_request(case, &obs, id) {
                                rep.violate(format!("C19/e2e-inner-result-altered/{sig}"), msg);
                            }
                            rep.class("e2e-request-completed");
                        }
                        ClientOutcome::Err(e) => {
                            if !e.contains("pool closed, no connection can be made") {
                                rep.violate("C19/e2e-unexpected-error", desc);
                            }
                        }
                        ClientOutcome::BodyErr(_) | ClientOutcome::Cancelled => {}
                    }
                }
                for (s, out) in &obs.probes {
                    if !matches!(out, ClientOutcome::Ok { .. }) {
                        rep.violate("C19/e2e-probe-failed-after-timeouts", format!("server s{s} did not serve a fresh client after the timed-out requests: {out:?}"));
                    }
                }
                rep.nontrivial = rep.classes.contains(&"e2e-request-timed-out");
            }
        }

        // ---- C09
        if p == "C09" {
            for s in 0..nsrv {
                if let Some((r, t)) = &obs.server_done[s] {
                    rep.violate("C09/server-stopped-after-connection-fault", format!("server s{s} stopped serving at {t} ms with {r:?}; faults: {:?}", obs.fault_log));
                }
            }
            for (s, out) in &obs.probes {
                match out {
                    ClientOutcome::Ok { .. } => {}
                    other => rep.violate("C09/probe-not-served", format!("a fresh well-behaved client was not served by s{s} after the faults {:?}: {other:?}", obs.fault_log)),
                }
            }
            if !obs.fault_log.is_empty() {
                rep.class("fault-injected");
            }
            let in_flight_during_fault = case.faults.iter().any(|f| {
                case.reqs.iter().enumerate().any(|(id, r)| {
                    let end = obs.client.get(&id).map(|(_, t)| *t).unwrap_or(0);
                    (r.start as u64) <= f.at as u64 && (f.at as u64) <= end
                })
            });
            if in_flight_during_fault {
                rep.class("fault-while-request-in-flight");
            }
            if case.reqs.iter().any(|r| r.handler_error) {
                rep.class("handler-error");
            }
            for f in &case.faults {
                rep.class(["fault-cancelled-connect", "fault-disconnect", "fault-garbage", "fault-truncated-head", "fault-truncated-body", "fault-mid-response", "fault-partial-preface", "holder", "fault-degenerate-pipe", "fault-crowd", "fault-pipelining-client"][f.kind as usize % 11]);
            }
            rep.nontrivial = in_flight_during_fault && obs.probes.iter().all(|(_, o)| matches!(o, ClientOutcome::Ok { .. }));
        }

        // ---- C13 end to end: every request names the origin it is sent to (Host on HTTP/1, :authority
        // on HTTP/2), also on the hops of a followed redirect
        if p == "C13" {
            for m in &obs.mismatches {
                if m.contains("Host header") || m.contains("HTTP/2 authority") {
                    rep.violate("C13/e2e-host-or-authority-wrong", m.clone());
                }
            }
            // nothing in this leg breaks a connection or cancels a request: a request that fails or arrives
            // altered was put on the wire in a form its connection's protocol does not accept
            for id in 0..case.reqs.len() {
                if let Some((sig, msg)) = judge_request(case, &obs, id) {
                    if !sig.starts_with("unavailable-after-abandoned-dial") {
                        rep.violate(format!("C13/e2e-request-failed-or-altered/{sig}"), msg);
                    }
                }
            }
            if case.reqs.iter().any(|r| redirect_target(case, r).is_some()) {
                rep.class("redirect-followed");
            }
            if case.reqs.iter().any(|r| redirect_target(case, r).map(|t| t != r.server as usize % nsrv).unwrap_or(false)) {
                rep.class("cross-origin-redirect");
            }
            rep.nontrivial = rep.classes.contains(&"cross-origin-redirect");
        }

        // ---- C04 end to end: all requests to an HTTP/2-only origin share one connection
        if p == "C04" {
            let all_done = (0..case.reqs.len()).all(|id| matches!(obs.client.get(&id), Some((ClientOutcome::Ok { .. }, _))));
            for s in 0..nsrv {
                let n_req = case.reqs.iter().filter(|r| r.server as usize % nsrv == s).count();
                if case.servers[s] % 3 == 1 && case.pool.is_some() && n_req >= 1 {
                    // the probe after the horizon uses a client of its own
                    let acc: Vec<&(usize, u64)> = obs.accepted[s].iter().filter(|(_, t)| *t < HORIZON_MS).collect();
                    if acc.len() > 1 {
                        rep.violate("C04/e2e-second-h2-connection", format!("server s{s} (HTTP/2 only) accepted {} connections for {n_req} requests of one pooled client, none of them cancelled or failed: {acc:?}", acc.len()));
                    }
                    if n_req >= 2 {
                        rep.class("several-h2-requests-one-origin");
                    }
                    let starts: Vec<u16> = case.reqs.iter().filter(|r| r.server as usize % nsrv == s).map(|r| r.start).collect();
                    if starts.iter().enumerate().any(|(i, a)| starts[i + 1..].contains(a)) {
                        rep.class("h2-requests-issued-at-the-same-instant");
                    }
                }
            }
            for id in 0..case.reqs.len() {
                if let Some((sig, msg)) = judge_request(case, &obs, id) {
                    if !sig.starts_with("unavailable-after-abandoned-dial") {
                        rep.violate(format!("C04/e2e-request-failed/{sig}"), msg);
                    }
                }
            }
            rep.nontrivial = all_done && rep.classes.contains(&"several-h2-requests-one-origin");
        }

        // ---- C15 end to end: connections an HTTP/1 origin keeps open once everything finished
        if p == "C15" {
            if let Some(pool) = &case.pool {
                let all_done = (0..case.reqs.len()).all(|id| matches!(obs.client.get(&id), Some((ClientOutcome::Ok { .. }, _))));
                for s in 0..nsrv {
                    if case.servers[s] % 3 != 0 || !all_done {
                        continue;
                    }
                    let (spawned, finished) = obs.conn_at_horizon.get(s).copied().unwrap_or((0, 0));
                    let open = spawned.saturating_sub(finished);
                    if open > pool.max_idle as usize {
                        rep.violate("C15/e2e-idle-connections-exceed-bound", format!("server s{s} (HTTP/1): {open} connections are still open long after all {} requests completed, max_idle_per_host = {}", case.reqs.len(), pool.max_idle));
                    }
                    if spawned > pool.max_idle as usize {
                        rep.class("more-connections-than-the-bound-were-used");
                    }
                }
                rep.nontrivial = all_done && rep.classes.contains(&"more-connections-than-the-bound-were-used");
            }
        }

        // ---- classes / non-triviality for C01
        let mut per_conn: std::collections::BTreeMap<(usize, usize), usize> = Default::default();
        for (_, s, c, _) in &obs.handler_start {
            *per_conn.entry((*s, *c)).or_default() += 1;
        }
        let reused = per_conn.values().any(|n| *n >= 2);
        if reused {
            rep.class("connection-carried-2+-requests");
        }
        let overlapping = (0..case.reqs.len()).any(|i| (i + 1..case.reqs.len()).any(|j| case.reqs[i].server as usize % nsrv == case.reqs[j].server as usize % nsrv && overlap(&case.reqs[i], &case.reqs[j])));
        if overlapping {
            rep.class("overlapping-requests-same-origin");
        }
        let cancelled = obs.client.values().any(|(o, _)| *o == ClientOutcome::Cancelled);
        if cancelled {
            rep.class("request-cancelled");
        }
        if obs.client.values().filter(|(o, _)| matches!(o, ClientOutcome::Ok { .. })).count() >= 1 {
            rep.class("some-request-succeeded");
        }
        if case.reqs.iter().any(|r| request_version(case, r) == http::Version::HTTP_2) {
            rep.class("h2-request");
        }
        if case.reqs.iter().any(|r| request_version(case, r) == http::Version::HTTP_11) {
            rep.class("h1-request");
        }
        if case.reqs.iter().enumerate().any(|(id, r)| is_connect(case, r) && matches!(obs.client.get(&id), Some((ClientOutcome::Ok { status: 403, .. }, _)))) {
            rep.class("connect-request-answered");
        }
        if p == "C01" {
            rep.nontrivial = overlapping && (reused || cancelled);
        }
        rep.total_ops = (case.reqs.len() + case.faults.len()) as u64;
        rep
    }
}

/// Adds the builder-call-order dimension to a case strategy.
/// Adds the "serving future kept alive after completion" dimension. Not combined with the accept-burst
/// leg: there the connection whose accept triggered the signal stays inside the completed future,
/// un-served and un-dropped, and its HTTP/2 client busy-wakes on a blocked write (h2 crate), which
/// stalls virtual time.
pub fn held(s: impl Strategy<Value = NetCase>) -> impl Strategy<Value = NetCase> {
    (s, any::<bool>()).prop_map(|(mut c, h)| {
        c.hold_server_future = h;
        c
    })
}

/// One case in three runs over TLS: every server a TLS listener (`Server::with_tls`), the client with
/// a TLS configuration, `https://` origins. (Debugging aid: VERIF_NET_TLS=1 / 0 forces it on / off.)
pub fn secured(s: impl Strategy<Value = NetCase>) -> impl Strategy<Value = NetCase> {
    let forced = std::env::var("VERIF_NET_TLS").ok().map(|v| v == "1");
    (s, prop_oneof![2 => Just(false), 1 => Just(true)], prop_oneof![3 => Just(0u8), 3 => 1u8..9]).prop_map(move |(mut c, tls, not_ready)| {
        c.tls = forced.unwrap_or(tls);
        // (a transport that is not ready at once, as `tower::Service` allows)
        c.transport_not_ready = not_ready;
        c
    })
}

/// Servers that have no signal scheduled are built `with_graceful_shutdown(pending)` in half of the cases.
pub fn guarded(s: impl Strategy<Value = NetCase>) -> impl Strategy<Value = NetCase> {
    (s, any::<bool>()).prop_map(|(mut c, g)| {
        c.graceful_never = g;
        c
    })
}

pub fn ordered(s: impl Strategy<Value = NetCase>) -> impl Strategy<Value = NetCase> {
    (s, 0u8..2, prop_oneof![2 => Just(false), 1 => Just(true)]).prop_map(|(mut c, o, same_host)| {
        c.builder_order = o;
        c.same_host = same_host;
        c
    })
}

fn servers_strategy() -> impl Strategy<Value = Vec<u8>> {
    proptest::collection::vec(0u8..3, 1..=3)
}

pub fn c01_strategy(max_reqs: usize) -> impl Strategy<Value = NetCase> {
    c01_strategy_up(max_reqs, 1)
}

/// `up_weight` out of 8 requests ask for a protocol upgrade (effective on HTTP/1.1 only)
pub fn c01_strategy_up(max_reqs: usize, up_weight: u32) -> impl Strategy<Value = NetCase> {
    (servers_strategy(), env_strategy()).prop_flat_map(move |(servers, (pool, connect_delay, latency, buf))| {
        let n = servers.len() as u8;
        let req = (req_strategy(n, true, false), prop_oneof![8 - up_weight => Just(false), up_weight => Just(true)], prop_oneof![9 => Just(None), 1 => (0..n).prop_map(Some)]).prop_map(|(mut r, up, redirect)| {
            r.upgrade = up;
            r.redirect = redirect;
            r
        });
        proptest::collection::vec(req, 1..=max_reqs).prop_map(move |reqs| NetCase {
            servers: servers.clone(),
            reqs,
            faults: vec![],
            shutdown: None,
            pool: pool.clone(),
            connect_delay,
            latency,
            buf,
            timeout_ms: None,
            shutdown_on_accept: None,
            builder_order: 0,
            hold_server_future: false,
            same_host: false,
            tls: false,
            graceful_never: false,
            transport_not_ready: 0,
        })
    })
}

pub fn c07_strategy(max_reqs: usize) -> impl Strategy<Value = NetCase> {
    (servers_strategy(), env_strategy(), 0u16..90).prop_flat_map(move |(servers, (pool, connect_delay, latency, buf), t_sig)| {
        let n = servers.len() as u8;
        (
            proptest::collection::vec(req_strategy(n, false, false), 0..=max_reqs),
            0..n,
            // (the high bit of arg: over TLS the holder completes the handshake before it idles)
            proptest::collection::vec(
                prop_oneof![
                    3 => (0..n, 0u16..90, 0u16..24, any::<bool>()).prop_map(|(server, at, arg, hs)| FaultSpec { server, at, kind: 7, arg: arg | if hs { 0x8000 } else { 0 } }),
                    // a raw client that pipelines two HTTP/1 requests, the first one slow (not over TLS)
                    1 => (0..n, 0u16..90, 0u16..40).prop_map(|(server, at, arg)| FaultSpec { server, at, kind: 10, arg }),
                ],
                0..3,
            ),
        )
            .prop_map(move |(reqs, srv, mut faults)| {
                // an HTTP/1 connection that has received part of a request head is, for hyper, an
                // exchange in flight: graceful shutdown waits for it. Idle holders on HTTP/1-only
                // servers therefore send nothing; on auto/h2 servers they send a preface prefix.
                // hyper's http2 server connection defers a graceful shutdown requested during its
                // handshake until the client preface has arrived, so idle holders are not placed on
                // HTTP/2-only servers either.
                faults.retain(|f| servers[f.server as usize % servers.len()] % 3 != 1);
                for f in faults.iter_mut() {
                    if f.kind == 7 && servers[f.server as usize % servers.len()] % 3 == 0 {
                        f.arg &= 0x8000;
                    }
                }
                // at most one pipelining client per server (its answer is matched by server)
                let mut seen_pipe = std::collections::BTreeSet::new();
                faults.retain(|f| f.kind != 10 || seen_pipe.insert(f.server as usize % servers.len()));
                NetCase {
            servers: servers.clone(),
            reqs,
            faults,
            shutdown: Some((srv, t_sig)),
            pool: pool.clone(),
            connect_delay,
            latency,
            buf,
            timeout_ms: None,
            shutdown_on_accept: None,
            builder_order: 0,
            hold_server_future: false,
            same_host: false,
            tls: false,
            graceful_never: false,
            transport_not_ready: 0,
        }})
    })
}

/// Bursts of simultaneous connections with the signal resolving synchronously while the k-th of
/// them is being accepted, i.e. in the middle of one poll of the serving future.
pub fn c07_burst_strategy(max_reqs: usize) -> impl Strategy<Value = NetCase> {
    (servers_strategy(), env_strategy(), 0u8..4).prop_flat_map(move |(servers, (pool, connect_delay, latency, buf), k)| {
        let n = servers.len() as u8;
        (proptest::collection::vec((req_strategy(n, false, false), prop_oneof![3 => Just(0u16), 1 => Just(7u16), 1 => 0u16..30]), 1..=max_reqs), 0..n).prop_map(move |(reqs, srv)| NetCase {
            servers: servers.clone(),
            reqs: reqs
                .into_iter()
                .map(|(mut r, start)| {
                    r.start = start;
                    r
                })
                .collect(),
            faults: vec![],
            shutdown: Some((srv, 0)),
            // an unpooled client dials once per request: bursts of simultaneous connects
            pool: if k % 2 == 0 { None } else { pool.clone() },
            connect_delay,
            latency,
            buf,
            timeout_ms: None,
            shutdown_on_accept: Some(k),
            builder_order: 0,
            hold_server_future: false,
            same_host: false,
            tls: false,
            graceful_never: false,
            transport_not_ready: 0,
        })
    })
}

/// Requests of which half are answered 303 and followed to another (or the same) origin.
pub fn c13_e2e_strategy(max_reqs: usize) -> impl Strategy<Value = NetCase> {
    (servers_strategy(), env_strategy()).prop_flat_map(move |(servers, (pool, connect_delay, latency, buf))| {
        let n = servers.len() as u8;
        let req = (req_strategy(n, false, false), prop_oneof![1 => Just(None), 1 => (0..n).prop_map(Some)]).prop_map(|(mut r, redirect)| {
            r.redirect = redirect;
            r
        });
        proptest::collection::vec(req, 1..=max_reqs).prop_map(move |reqs| NetCase {
            servers: servers.clone(),
            reqs,
            faults: vec![],
            shutdown: None,
            pool: pool.clone(),
            connect_delay,
            latency,
            buf,
            timeout_ms: None,
            shutdown_on_accept: None,
            builder_order: 0,
            hold_server_future: false,
            same_host: false,
            tls: false,
            graceful_never: false,
            transport_not_ready: 0,
        })
    })
}

/// HTTP/2-only origins, pooled client, no cancellations, bursts of simultaneous requests.
pub fn c04_e2e_strategy(max_reqs: usize) -> impl Strategy<Value = NetCase> {
    (1usize..=2, env_strategy(), prop_oneof![Just(1u8), Just(2u8), Just(32u8)], any::<bool>()).prop_flat_map(move |(nsrv, (_, connect_delay, latency, buf), max_idle, cont)| {
        proptest::collection::vec((req_strategy(nsrv as u8, false, false), prop_oneof![2 => Just(0u16), 1 => Just(3u16), 2 => 0u16..40]), 1..=max_reqs).prop_map(move |reqs| NetCase {
            servers: vec![1; nsrv],
            reqs: reqs
                .into_iter()
                .map(|(mut r, start)| {
                    r.start = start;
                    r
                })
                .collect(),
            faults: vec![],
            shutdown: None,
            pool: Some(NetPool { max_idle, cont }),
            connect_delay,
            latency,
            buf,
            timeout_ms: None,
            shutdown_on_accept: None,
            builder_order: 0,
            hold_server_future: false,
            same_host: false,
            tls: false,
            graceful_never: false,
            transport_not_ready: 0,
        })
    })
}

/// HTTP/1-only origins, pooled client with a small idle bound, bursts of simultaneous requests.
pub fn c15_e2e_strategy(max_reqs: usize) -> impl Strategy<Value = NetCase> {
    (1usize..=2, env_strategy(), prop_oneof![Just(0u8), Just(1u8), Just(2u8), Just(3u8)], any::<bool>()).prop_flat_map(move |(nsrv, (_, connect_delay, latency, buf), max_idle, cont)| {
        proptest::collection::vec((req_strategy(nsrv as u8, false, false), prop_oneof![3 => Just(0u16), 1 => Just(9u16), 1 => 0u16..60]), 1..=max_reqs).prop_map(move |reqs| NetCase {
            servers: vec![0; nsrv],
            reqs: reqs
                .into_iter()
                .map(|(mut r, start)| {
                    r.start = start;
                    r
                })
                .collect(),
            faults: vec![],
            shutdown: None,
            pool: Some(NetPool { max_idle, cont }),
            connect_delay,
            latency,
            buf,
            timeout_ms: None,
            shutdown_on_accept: None,
            builder_order: 0,
            hold_server_future: false,
            same_host: false,
            tls: false,
            graceful_never: false,
            transport_not_ready: 0,
        })
    })
}

pub fn c19_strategy(max_reqs: usize) -> impl Strategy<Value = NetCase> {
    (servers_strategy(), env_strategy(), prop_oneof![Just(0u16), Just(5u16), Just(15u16), Just(40u16)]).prop_flat_map(move |(servers, (pool, connect_delay, latency, buf), timeout)| {
        let n = servers.len() as u8;
        let req = (req_strategy(n, false, false), prop_oneof![3 => Just(None), 1 => (0..n).prop_map(Some)]).prop_map(|(mut r, redirect)| {
            // followed redirects: the deadline covers the whole chain of hops
            r.redirect = redirect;
            r
        });
        proptest::collection::vec(req, 1..=max_reqs).prop_map(move |reqs| NetCase {
            servers: servers.clone(),
            reqs,
            faults: vec![],
            shutdown: None,
            pool: pool.clone(),
            connect_delay,
            latency,
            buf,
            timeout_ms: Some(timeout),
            shutdown_on_accept: None,
            builder_order: 0,
            hold_server_future: false,
            same_host: false,
            tls: false,
            graceful_never: false,
            transport_not_ready: 0,
        })
    })
}

pub fn c09_strategy(max_reqs: usize) -> impl Strategy<Value = NetCase> {
    (servers_strategy(), env_strategy()).prop_flat_map(move |(servers, (pool, connect_delay, latency, buf))| {
        let n = servers.len() as u8;
        (
            proptest::collection::vec(req_strategy(n, false, true), 0..=max_reqs),
            proptest::collection::vec((0..n, 0u16..60, prop_oneof![7 => 0u8..7, 1 => Just(8u8), 1 => Just(9u8)], any::<u16>()).prop_map(|(server, at, kind, arg)| FaultSpec { server, at, kind, arg }), 1..6),
        )
            .prop_map(move |(reqs, faults)| NetCase {
                servers: servers.clone(),
                reqs,
                faults,
                shutdown: None,
                pool: pool.clone(),
                connect_delay,
                latency,
                buf,
                timeout_ms: None,
                shutdown_on_accept: None,
            builder_order: 0,
            hold_server_future: false,
            same_host: false,
            tls: false,
            graceful_never: false,
            transport_not_ready: 0,
            })
    })
}

pub fn run(ctx: &Ctx) -> i32 {
    let started = Instant::now();
    let prop: &'static str = match ctx.prop.as_str() {
        "C01" => "C01",
        "C07" => "C07",
        _ => "C09",
    };
    let engine = NetEngine { prop };
    if let Some(path) = &ctx.replay {
        return match read_replay(path).and_then(|rf| {
            if rf.engine == "tlsstack" {
                return crate::props::stack::replay(ctx, "C09", &rf);
            }
            if rf.engine == "socksrv" {
                return replay_one(ctx, &crate::engines::socksrv::SockEngine, &rf);
            }
            if rf.engine == "tcpe2e" {
                return replay_one(ctx, &crate::engines::tcpe2e::TcpE2eEngine, &rf);
            }
            if rf.engine == "bodyadapt" {
                return replay_one(ctx, &crate::engines::bodyadapt::BodyEngine, &rf);
            }
            if rf.engine == "queueaccept" {
                return replay_one(ctx, &crate::engines::socksrv::QueueAcceptEngine, &rf);
            }
            if rf.engine == "sigedge" {
                return replay_one(ctx, &crate::engines::sigedge::SigEdgeEngine, &rf);
            }
            if rf.engine == "makegate" {
                return replay_one(ctx, &crate::engines::socksrv::MakeGateEngine, &rf);
            }
            if rf.engine == "makeready" {
                return replay_one(ctx, &crate::engines::socksrv::MakeReadyEngine, &rf);
            }
            if rf.engine == "dupstream" {
                return replay_one(ctx, &crate::engines::socksrv::DupStreamEngine, &rf);
            }
            if std::env::var_os("VERIF_TRACE").is_some() {
                if let Ok(case) = serde_json::from_value::<NetCase>(rf.case.clone()) {
                    println!("{:#?}", run_net_case(&case));
                }
            }
            replay_one(ctx, &engine, &rf)
        }) {
            Ok(c) => c,
            Err(e) => {
                eprintln!("replay failed: {e}");
                2
            }
        };
    }
    let mut total = Outcome::default();
    let mut regress = vec![];
    for f in regress_files(prop) {
        match read_replay(&f).and_then(|rf| serde_json::from_value::<NetCase>(rf.case).map_err(|e| e.to_string())) {
            Ok(c) => regress.push(c),
            Err(e) => {
                eprintln!("bad regression file {}: {e}", f.display());
                return 2;
            }
        }
    }
    if !regress.is_empty() {
        total.merge(run_listed(ctx, &engine, "regress", regress));
    }
    let max_reqs = ctx.tier.pick(8, 24);
    let (rule, mins): (&str, Vec<(&'static str, f64)>) = match prop {
        "C01" => {
            total.merge(run_generated(ctx, &engine, "concurrent-requests", move || guarded(secured(ordered(c01_strategy(max_reqs)))), ctx.cases(30_000, 1_500_000), 300));
            // upgrade-heavy leg: half of the requests ask for a protocol upgrade (101 + raw exchange)
            total.merge(run_generated(ctx, &engine, "upgraded-connections", move || secured(c01_strategy_up(max_reqs.min(10), 4)), ctx.cases(8_000, 400_000), 300));
            // the default Client (Client::build_tcp_http) over real TCP against a real Server
            {
                let tctx = Ctx { threads: 8, ..ctx.clone() };
                total.merge(run_generated(&tctx, &crate::engines::tcpe2e::TcpE2eEngine, "default-client-over-tcp", crate::engines::tcpe2e::strategy, ctx.cases(150, 6_000), 40));
            }
            // hyperdriver::Body through each public constructor: http_body contract and end to end
            total.merge(run_generated(ctx, &crate::engines::bodyadapt::BodyEngine, "body-adapters", crate::engines::bodyadapt::strategy, ctx.cases(4_000, 200_000), 100));
            // pool-level leg: every uncancelled request of a fault-free poolsim history must succeed
            {
                use crate::engines::poolsim as ps;
                let pool_engine = ps::PoolEngine {
                    prop: "C01",
                    nontrivial: |c| c.iter().any(|x| *x == "cancel-while-dialing" || *x == "dial-preempted" || *x == "cancel-pure-waiter"),
                    phases: ps::Phases { drain: true, probe: true },
                };
                let wt = ps::Weights { dial_fail: 0, hs_fail: 0, close: 0, takeover: 0, cancel: 8, ..ps::GENERIC };
                let max_ops = ctx.tier.pick(40, 120);
                total.merge(run_generated(ctx, &pool_engine, "poolsim-fault-free", move || ps::case_strategy(wt, max_ops, ps::cfg_any_strategy()), ctx.cases(120_000, 4_000_000), 2000));
            }
            (
                "1-3 servers (h1 / h2 / auto) behind Server::builder() on in-process duplex acceptors and the real client stack (Client builder with streaming request body, pool on/off, both continue_after_preemption settings, max_idle in {0,1,2,32}) on one paused current_thread runtime; up to 8 (quick) / 24 (thorough) requests with id-tagged path, query, headers and patterned bodies (0-20 kB, chunked with gaps), handler delays, chunked responses, duplex buffers 1 B-64 KiB, transport connect delay and per-read latency, cancellation at any virtual instant; 1 in 8 requests (1 in 2 in the upgrade leg) asks for a protocol upgrade on HTTP/1.1 - the handler answers 101 and both sides exchange patterned raw bytes over the taken-over connection, which must arrive intact at both ends, end with end-of-stream, and never carry another request. The handler checks every request against the script; the client checks every response against its own id, origin, status and body. non-trivial = two requests to one origin overlap AND (some connection carried two requests OR a request was cancelled); distinct by hash of the case",
                {
                    // thresholds are stated for the netsim leg and scaled by its share of all evaluations
                    let share = ctx.cases(30_000, 1_500_000) as f64 / (ctx.cases(30_000, 1_500_000) + ctx.cases(120_000, 4_000_000)) as f64;
                    vec![("connection-carried-2+-requests", 0.3 * share), ("request-cancelled", 0.07 * share), ("h2-request", 0.3 * share), ("h1-request", 0.3 * share), ("cancel-while-dialing", 0.08), ("dial-preempted", 0.05), ("upgrade-completed", 0.02), ("request-after-upgrade-same-origin", 0.01)]
                },
            )
        }
        "C07" => {
            total.merge(run_generated(ctx, &engine, "signal-sweep", move || secured(held(c07_strategy(max_reqs.min(8)))), ctx.cases(30_000, 1_500_000), 300));
            // a make-service that takes its time (pending future, pending poll_ready) when the signal resolves
            total.merge(run_generated(ctx, &crate::engines::socksrv::MakeGateEngine, "slow-make-service", crate::engines::socksrv::makegate_strategy, ctx.cases(6_000, 200_000), 200));
            // raw clients whose request is written in the very instant of the signal (same scheduler turn)
            total.merge(run_generated(ctx, &crate::engines::sigedge::SigEdgeEngine, "signal-on-the-edge-of-a-request", crate::engines::sigedge::strategy, ctx.cases(10_000, 400_000), 200));
            // the signal resolves synchronously in the middle of an accept burst (one poll of the server)
            total.merge(run_generated(ctx, &engine, "signal-during-accept-burst", move || secured(c07_burst_strategy(max_reqs.min(8))), ctx.cases(8_000, 400_000), 300));
            (
                "same simulation as C01 without cancellations, with a graceful-shutdown signal on one server at a virtual instant swept over 0-90 ms so that it lands before accept, during protocol detection, mid request head/body (chunk gaps, latency), during the handler, mid response, and on idle keep-alive connections; requests also start after the signal. Checked: serving future resolves Ok exactly at the signal; every request whose handler started before the signal gets its complete correct response; every connection task counted by the executor wrapper finishes; nothing is accepted after the signal. A second leg resolves the signal synchronously while the k-th connection of a burst of simultaneous connects is being accepted (inside one poll of the serving future): no connection beyond the k-th may be accepted or served. non-trivial = the signal fired while a handler was executing; distinct by hash of the case",
                vec![("signal-while-handler-executing", 0.07), ("handler-started-before-signal", 0.25), ("request-after-signal", 0.15), ("idle-connection-open-at-signal", 0.07), ("signal-during-accept", 0.05), ("simultaneous-connects-at-signal-server", 0.03)],
            )
        }
        _ => {
            total.merge(run_generated(ctx, &engine, "fault-sequences", move || guarded(secured(c09_strategy(max_reqs.min(8)))), ctx.cases(30_000, 1_500_000), 300));
            // TLS listener: plaintext, truncated ClientHello, silent peers; then a probe
            total.merge(crate::props::stack::leg(ctx, "C09"));
            // a make-service with back-pressure: the accept loop must respect poll_ready
            total.merge(run_generated(ctx, &crate::engines::socksrv::MakeReadyEngine, "capped-make-service", crate::engines::socksrv::makeready_strategy, ctx.cases(3_000, 100_000), 100));
            // connections that are already faulty when they are accepted (custom `Accept` impl, with and without TLS)
            total.merge(run_generated(ctx, &crate::engines::socksrv::QueueAcceptEngine, "faulty-before-accept", crate::engines::socksrv::queue_strategy, ctx.cases(3_000, 100_000), 100));
            // accept loops written against the duplex listener's Stream interface
            total.merge(run_generated(ctx, &crate::engines::socksrv::DupStreamEngine, "duplex-stream-accept-loop", crate::engines::socksrv::dupstream_strategy, ctx.cases(3_000, 100_000), 100));
            // real TCP / Unix acceptors (real time): reset or close before accept, garbage, truncation
            let sctx = Ctx { threads: 8, ..ctx.clone() };
            total.merge(run_generated(&sctx, &crate::engines::socksrv::SockEngine, "tcp-unix-acceptors", crate::engines::socksrv::strategy, ctx.cases(400, 20_000), 60));
            (
                "same simulation as C01 plus 1-5 per-connection faults at generated instants (cancelled connect before the acceptor acknowledged it, immediate disconnect, garbage bytes, truncated head, truncated body, disconnect mid response, partial h2 preface) and handlers returning errors, interleaved with well-behaved requests on other connections. Checked after the horizon: every serving future is still pending, a fresh well-behaved probe client is served by every server, and every well-behaved request completed with its correct response. non-trivial = a fault was injected while a well-behaved request was in flight and the probes succeeded; distinct by hash of the case",
                // fractions over all legs (the netsim fault leg is about three quarters of the evaluations)
                vec![("fault-injected", 0.5), ("fault-while-request-in-flight", 0.15), ("fault-cancelled-connect", 0.1), ("handler-error", 0.07), ("tcp-reset-before-accept", 0.001), ("unix-acceptor", 0.002), ("more-clients-than-the-cap", 0.02), ("duplex-stream-cancelled-connect", 0.02)],
            )
        }
    };
    finish(
        ctx,
        started,
        total,
        Finish {
            rule: rule.into(),
            assumptions: vec![
                "tokio current_thread scheduler with paused clock: schedules are explored by timing perturbation (start times, delays, latencies, buffer sizes), not by preemption inside a poll".into(),
                "hyper/h2 are the HTTP engines on both sides; the in-process duplex transport stands for the network".into(),
            ],
            min_class_fraction: mins,
        },
    )
}
