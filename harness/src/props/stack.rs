//! Helper: the full-stack TLS leg (engine tlsstack) merged into C09, C12, C13 and C20.
use crate::common::*;
use crate::engines::tlsstack::*;

pub fn leg(ctx: &Ctx, prop: &'static str) -> Outcome {
    let engine = StackEngine { prop };
    run_generated(ctx, &engine, "tls-full-stack", strategy, ctx.cases(3_000, 200_000), 200)
}

pub fn replay(ctx: &Ctx, prop: &'static str, rf: &ReplayFile) -> Result<i32, String> {
    replay_one(ctx, &StackEngine { prop }, rf)
}
