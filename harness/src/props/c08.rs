//! C08: protocol detection independent of fragmentation.
use std::time::Instant;

use crate::common::*;
use crate::engines::sniff::*;

pub fn run(ctx: &Ctx) -> i32 {
    let started = Instant::now();
    if let Some(path) = &ctx.replay {
        return match read_replay(path).and_then(|rf| if rf.engine == "srvsniff" { replay_one(ctx, &SrvSniffEngine, &rf) } else { replay_one(ctx, &SniffEngine, &rf) }) {
            Ok(c) => c,
            Err(e) => {
                eprintln!("replay failed: {e}");
                2
            }
        };
    }
    let mut total = Outcome::default();
    // every way of cutting the first 10 (quick) / 14 (thorough) bytes for three golden streams
    let n = ctx.tier.pick(10, 14);
    let mut listed = vec![];
    for stream in [
        StreamSpec::H2 { post: false, path: 0, body: 0, extra_settings: false },
        StreamSpec::H1 { method: 3, target: 2, body: 0, pipelined: false, close: false },
        StreamSpec::Prefix { n: 12, then: b" / HTTP/1.1\r\nhost: a.test\r\n\r\n".to_vec() },
    ] {
        listed.extend(compositions(stream, n, false));
    }
    // single cut at every position of the first 32 bytes, one byte at a time, with and without pendings
    for stream in [
        StreamSpec::H2 { post: true, path: 1, body: 40, extra_settings: true },
        StreamSpec::H1 { method: 0, target: 1, body: 10, pipelined: true, close: true },
    ] {
        for k in 1u8..32 {
            for pend in [0u32, u32::MAX] {
                listed.push(SniffCase { stream: stream.clone(), cuts: vec![k], pendings: pend, tail: 0, eof_now: false, error_at: None });
            }
        }
        listed.push(SniffCase { stream: stream.clone(), cuts: vec![1; 32], pendings: 0x5555_5555, tail: 1, eof_now: false, error_at: None });
    }
    let n_listed = listed.len();
    let mut o = run_listed(ctx, &SniffEngine, "all-compositions-of-head", listed);
    o.extra.insert("enumerated_cut_plans".into(), serde_json::json!(n_listed));
    total.merge(o);
    total.merge(run_generated(ctx, &SniffEngine, "grammar", strategy, ctx.cases(150_000, 4_000_000), 400));
    // servers built through Server::builder(): with_auto_http() against with_http1() / with_http2(), the
    // client pausing in the middle of its bytes
    total.merge(run_generated(ctx, &SrvSniffEngine, "server-builder-with-pauses", srv_strategy, ctx.cases(20_000, 600_000), 200));
    if ctx.tier == Tier::Thorough && std::env::var_os("VERIF_NO_FUZZ").is_none() {
        let mut seed1 = vec![3u8, 4, 9, 1, 0, 0, 0, 0, 0, 2, 1, 0, 20];
        seed1.extend_from_slice(b"GET / HTTP/1.1\r\nhost: a\r\n\r\n");
        let seeds = vec![seed1, vec![1u8, 10, 0, 0, 0, 0, 0, 0, 12, 32, 47, 32, 72, 84, 84, 80], (0..120u32).map(|i| (i * 29 % 253) as u8).collect()];
        total.merge(run_fuzz_leg(ctx, "fz_sniff", "sniff", None, ctx.cases(0, 2_500), 200, seeds));
    }
    finish(
        ctx,
        started,
        total,
        Finish {
            rule: "byte stream from a grammar (HTTP/1.1 requests incl. methods/targets sharing a prefix with the preface; h2 preface + SETTINGS + HEADERS (+DATA); strict prefixes of the preface followed by EOF or diverging bytes; raw bytes) x cut plan for the first 32 bytes (all compositions of the first 10/14 bytes for golden streams, random plans, 1-byte cuts, Pending between chunks) delivered through a scripted AsyncRead with exact chunk boundaries to server::conn::auto::Builder; the server's output is compared (classification by preface rule; metamorphic vs one chunk; differential vs plain hyper http1/http2 connection with the same handler). non-trivial = the first 24 bytes were delivered in at least two reads; distinct by hash of the case".into(),
            assumptions: vec![
                "HTTP/1 transcripts are compared byte-exactly after removing Date headers; HTTP/2 transcripts by per-stream DATA payload, END_STREAM, HEADERS streams and RST/GOAWAY codes (HPACK blocks contain the date)".into(),
                "hyper's http1/http2 server connections are the reference for what a single-protocol server answers".into(),
            ],
            min_class_fraction: vec![("first-24-bytes-in-2+-reads", 0.3), ("expects-h2", 0.15), ("h1-shares-prefix-with-preface", 0.05), ("preface-prefix-stream", 0.05)],
        },
    )
}
