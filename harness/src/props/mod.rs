pub mod pool;
pub mod c16;
pub mod eyes;
pub mod c20;
pub mod c08;
pub mod c18;
pub mod c19;
pub mod reqs;
