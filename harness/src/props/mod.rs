pub mod pool;
