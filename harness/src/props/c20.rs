//! C20: SNI validation middleware.
use std::time::Instant;

use crate::common::*;
use crate::engines::sni::*;

pub fn run(ctx: &Ctx) -> i32 {
    let started = Instant::now();
    if let Some(path) = &ctx.replay {
        return match read_replay(path).and_then(|rf| if rf.engine == "tlsstack" { crate::props::stack::replay(ctx, "C20", &rf) } else if rf.engine == "snilazy" { replay_one(ctx, &crate::engines::snilazy::LazySniEngine, &rf) } else { replay_one(ctx, &SniEngine, &rf) }) {
            Ok(c) => c,
            Err(e) => {
                eprintln!("replay failed: {e}");
                2
            }
        };
    }
    let mut total = Outcome::default();
    total.merge(run_generated(ctx, &SniEngine, "grammar", strategy, ctx.cases(400_000, 12_000_000), 500));
    // low-level layers on a connection whose handshake is still in flight: early requests abandoned or kept
    total.merge(run_generated(ctx, &crate::engines::snilazy::LazySniEngine, "requests-before-the-handshake", crate::engines::snilazy::strategy, ctx.cases(10_000, 300_000), 100));
    // integration: real TLS server with connection info + ValidateSNI, real TLS client
    total.merge(crate::props::stack::leg(ctx, "C20"));
    finish(
        ctx,
        started,
        total,
        Finish {
            rule: "request = version in all five http::Version constants x Host header (absent / name, IPv4 or bracketed IPv6 literal, random letter case, optional port) x URI authority (absent / same domain) x TLS info (present 90%) x server name (absent / equal / equal modulo case / different), sent through the public ValidateSNI layer around a recording inner service; outcome (forwarded + validated flag / rejected) compared with a reference predicate written from the statement. non-trivial = TLS info present and a host named (the property constrains the outcome); distinct by hash of the case".into(),
            assumptions: vec!["server names are DNS names or bare IPv4 literals as reported by a TLS stack (never bracketed)".into()],
            min_class_fraction: vec![("expect-forward", 0.15), ("expect-reject", 0.15), ("h2-host-fallback", 0.02), ("case-differs", 0.035)],
        },
    )
}
