//! Byte-level decoders (arbitrary::Unstructured) turning fuzzer input into the same case structs the
//! proptest generators produce, so that libFuzzer targets and proptest share interpreters and oracles.
use arbitrary::Unstructured;

use crate::engines::poolsim::{Op, PoolCase, PoolCfg};
use crate::engines::sniff::{SniffCase, StreamSpec};

pub fn pool_case(data: &[u8]) -> Option<PoolCase> {
    let mut u = Unstructured::new(data);
    let cfg_byte: u8 = u.arbitrary().ok()?;
    let cfg = PoolCfg {
        idle_timeout_ms: match cfg_byte & 3 {
            0 => None,
            1 => Some(0),
            _ => Some(3_600_000),
        },
        max_idle: [0usize, 1, 2, 3, 32, 32, 32, 32][((cfg_byte >> 2) & 7) as usize],
        cont: cfg_byte & 0x20 != 0,
        req_timeout_ms: None,
        open_is_ready: true,
        caller_host: 0,
    };
    let mut ops = vec![];
    while !u.is_empty() && ops.len() < 160 {
        let tag: u8 = u.arbitrary().ok()?;
        let arg: u8 = u.arbitrary().unwrap_or(0);
        // spread the one-byte argument over the 16-bit index space
        let idx = (arg as u16) << 8 | 0x80;
        let op = match tag % 16 {
            0 | 1 => Op::Issue { origin: arg % 6, h2: arg & 0x80 != 0 },
            2 | 3 | 4 => Op::Poll(idx),
            5 => Op::Cancel(idx),
            6 => Op::DialOk(idx),
            7 => Op::DialFail(idx),
            8 => Op::HsOk(idx, arg & 1 != 0),
            9 => Op::HsFail(idx),
            10 => Op::Release(idx),
            11 => Op::ConnReady(idx),
            12 => Op::ConnClose(idx),
            13 => Op::Bg,
            14 => Op::Warm { origin: arg % 6, h2: arg & 0x80 != 0 },
            _ => {
                if arg & 1 == 0 {
                    Op::Hold { origin: (arg >> 1) % 6, h2: arg & 0x80 != 0 }
                } else {
                    Op::TakeOver(idx)
                }
            }
        };
        ops.push(op);
    }
    Some(PoolCase { cfg, ops })
}

pub fn sniff_case(data: &[u8]) -> Option<SniffCase> {
    let mut u = Unstructured::new(data);
    let ncuts: u8 = u.arbitrary().ok()?;
    let mut cuts = vec![];
    for _ in 0..(ncuts % 12) {
        let c: u8 = u.arbitrary().ok()?;
        cuts.push(c % 32 + 1);
    }
    let pendings: u32 = u.arbitrary().ok()?;
    let flags: u8 = u.arbitrary().ok()?;
    let kind: u8 = u.arbitrary().ok()?;
    let stream = match kind % 4 {
        0 => {
            let n: u8 = u.arbitrary().ok()?;
            let rest = u.bytes(u.len().min(48)).ok()?.to_vec();
            StreamSpec::Prefix { n: n % 25, then: rest }
        }
        1 => {
            let a: [u8; 4] = u.arbitrary().ok()?;
            StreamSpec::H1 { method: a[0] % 8, target: a[1] % 8, body: (a[2] as u16) % 200, pipelined: a[3] & 1 != 0, close: a[3] & 2 != 0 }
        }
        2 => {
            let a: [u8; 3] = u.arbitrary().ok()?;
            StreamSpec::H2 { post: a[0] & 1 != 0, path: a[1] % 4, body: (a[2] as u16) * 2, extra_settings: a[0] & 2 != 0 }
        }
        _ => StreamSpec::Raw(u.bytes(u.len().min(80)).ok()?.to_vec()),
    };
    Some(SniffCase { stream, cuts, pendings, tail: (flags >> 1) as u16 % 40, eof_now: flags & 1 != 0 })
}
