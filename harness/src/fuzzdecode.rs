//! Byte-level decoders (arbitrary::Unstructured) turning fuzzer input into the same case structs the
//! proptest generators produce, so that libFuzzer targets and proptest share interpreters and oracles.
use arbitrary::Unstructured;

use crate::engines::poolsim::{Op, PoolCase, PoolCfg};
use crate::engines::sniff::{SniffCase, StreamSpec};

pub fn pool_case(data: &[u8]) -> Option<PoolCase> {
    let mut u = Unstructured::new(data);
    let cfg_byte: u8 = u.arbitrary().ok()?;
    let cfg = PoolCfg {
        idle_timeout_ms: match cfg_byte & 3 {
            0 => None,
            1 => Some(0),
            _ => Some(3_600_000),
        },
        max_idle: [0usize, 1, 2, 3, 32, 32, 32, 32][((cfg_byte >> 2) & 7) as usize],
        cont: cfg_byte & 0x20 != 0,
        req_timeout_ms: None,
        open_is_ready: true,
        caller_host: 0,
        single_use: false,
        holder_polls_ready: false,
        ready_hides_close: false,
        build_path: 0,
        fused_attempts: false,
        coarse_key: false,
        built_on: 0,
        conn_version_10: false,
    };
    let mut ops = vec![];
    while !u.is_empty() && ops.len() < 160 {
        let tag: u8 = u.arbitrary().ok()?;
        let arg: u8 = u.arbitrary().unwrap_or(0);
        // spread the one-byte argument over the 16-bit index space
        let idx = (arg as u16) << 8 | 0x80;
        let op = match tag % 16 {
            0 | 1 => Op::Issue { origin: arg % 6, h2: arg & 0x80 != 0 },
            2 | 3 | 4 => Op::Poll(idx),
            5 => Op::Cancel(idx),
            6 => Op::DialOk(idx),
            7 => Op::DialFail(idx),
            8 => Op::HsOk(idx, arg & 1 != 0),
            9 => Op::HsFail(idx),
            10 => Op::Release(idx),
            11 => {
                if arg & 3 == 3 {
                    Op::ConnNudge(idx)
                } else {
                    Op::ConnReady(idx)
                }
            }
            12 => Op::ConnClose(idx),
            13 => Op::Bg,
            14 => Op::Warm { origin: arg % 6, h2: arg & 0x80 != 0 },
            _ => {
                if arg & 1 == 0 {
                    Op::Hold { origin: (arg >> 1) % 6, h2: arg & 0x80 != 0 }
                } else {
                    Op::TakeOver(idx)
                }
            }
        };
        ops.push(op);
    }
    Some(PoolCase { cfg, ops })
}

pub fn sniff_case(data: &[u8]) -> Option<SniffCase> {
    let mut u = Unstructured::new(data);
    let ncuts: u8 = u.arbitrary().ok()?;
    let mut cuts = vec![];
    for _ in 0..(ncuts % 12) {
        let c: u8 = u.arbitrary().ok()?;
        cuts.push(c % 32 + 1);
    }
    let pendings: u32 = u.arbitrary().ok()?;
    let flags: u8 = u.arbitrary().ok()?;
    let kind: u8 = u.arbitrary().ok()?;
    let stream = match kind % 4 {
        0 => {
            let n: u8 = u.arbitrary().ok()?;
            let rest = u.bytes(u.len().min(48)).ok()?.to_vec();
            StreamSpec::Prefix { n: n % 25, then: rest }
        }
        1 => {
            let a: [u8; 4] = u.arbitrary().ok()?;
            StreamSpec::H1 { method: a[0] % 8, target: a[1] % 8, body: (a[2] as u16) % 200, pipelined: a[3] & 1 != 0, close: a[3] & 2 != 0 }
        }
        2 => {
            let a: [u8; 3] = u.arbitrary().ok()?;
            StreamSpec::H2 { post: a[0] & 1 != 0, path: a[1] % 4, body: (a[2] as u16) * 2, extra_settings: a[0] & 2 != 0 }
        }
        _ => StreamSpec::Raw(u.bytes(u.len().min(80)).ok()?.to_vec()),
    };
    Some(SniffCase { stream, cuts, pendings, tail: (flags >> 1) as u16 % 40, eof_now: flags & 1 != 0, error_at: None })
}

/// Bytes -> adapter program (engine iomodel, C18).
pub fn io_case(data: &[u8]) -> Option<crate::engines::iomodel::IoCase> {
    use crate::engines::iomodel::{IoCase, IoOp, REv, WEv};
    let mut u = Unstructured::new(data);
    let head: [u8; 4] = u.arbitrary().ok()?;
    let adapter = head[0] % 7;
    let prefix = (head[1] as u16) % 64;
    let inner_vectored = head[2] & 1 != 0;
    let (nr, nw) = ((head[2] >> 1) as usize % 12, (head[3] as usize) % 12);
    let mut rscript = vec![];
    for _ in 0..nr {
        let a: [u8; 2] = u.arbitrary().ok()?;
        rscript.push(match a[0] % 8 {
            0 => REv::Pending,
            1 => REv::Err(a[1]),
            2 => REv::Eof,
            _ => REv::Data(if a[0] & 0x80 != 0 { a[1] as u16 * 13 } else { a[1] as u16 % 9 }),
        });
    }
    let mut wscript = vec![];
    for _ in 0..nw {
        let a: [u8; 2] = u.arbitrary().ok()?;
        wscript.push(match a[0] % 6 {
            0 => WEv::Pending,
            1 => WEv::Err(a[1]),
            _ => WEv::Accept(if a[0] & 0x80 != 0 { a[1] as u16 * 13 } else { a[1] as u16 % 9 }),
        });
    }
    let mut ops = vec![];
    while ops.len() < 40 {
        let Ok(a) = u.arbitrary::<[u8; 2]>() else { break };
        ops.push(match a[0] % 8 {
            0 | 1 | 2 => IoOp::Read { cap: if a[0] & 0x80 != 0 { a[1] as u16 * 9 } else { a[1] as u16 % 5 }, prefill: a[0] >> 3 & 7 },
            3 | 4 => IoOp::Write { len: if a[0] & 0x80 != 0 { a[1] as u16 * 9 } else { a[1] as u16 % 5 } },
            5 => {
                let n = (a[1] % 5) as usize;
                let mut lens = vec![];
                for _ in 0..n {
                    lens.push(u.arbitrary::<u8>().ok()? as u16 % 70);
                }
                IoOp::WriteVectored { lens }
            }
            6 => IoOp::Flush,
            _ => IoOp::Shutdown,
        });
    }
    Some(IoCase { adapter, prefix, ops, rscript, wscript, inner_vectored })
}

/// Bytes -> request (engine reqgrammar, C13 / C17): table indices plus, optionally, a host taken
/// verbatim from the input (kept only if the http crate accepts it as a host).
pub fn req_case(data: &[u8]) -> Option<crate::engines::reqgrammar::ReqCase> {
    use crate::engines::reqgrammar::ReqCase;
    let mut u = Unstructured::new(data);
    let a: [u8; 12] = u.arbitrary().ok()?;
    let port = match a[2] % 6 {
        0 | 1 => None,
        2 => Some(80),
        3 => Some(443),
        _ => Some(u16::from_le_bytes([a[3], a[4]])),
    };
    let ghost = if a[0] & 0x80 != 0 {
        let n = (a[1] as usize % 40).min(u.len());
        let raw = u.bytes(n).ok()?;
        let h = std::str::from_utf8(raw).ok()?.to_string();
        if !format!("https://{h}/").parse::<http::Uri>().map(|x| x.host().is_some()).unwrap_or(false) {
            return None;
        }
        Some(h)
    } else {
        None
    };
    Some(ReqCase {
        scheme: a[0] % 6,
        host: a[1] % 14,
        ghost,
        port,
        path: a[5] % 11,
        query: if a[6] & 1 != 0 { Some(a[6] >> 1) } else { None },
        form: [0, 0, 0, 0, 0, 1, 2, 3][a[7] as usize % 8],
        method: a[8] % 11,
        version: a[9] % 5,
        caller_host: if a[10] & 1 != 0 { Some(a[10] >> 1) } else { None },
        preset: a[11],
        conn_h2: a[7] & 0x80 != 0,
        body: a[10] >> 4,
    })
}
