//! E2 `netsim`: real client stack + pool + hyper + real `Server` over the in-process duplex transport,
//! all on one paused `current_thread` runtime (C01 C07 C09, end-to-end legs of C17/C19).
//!
//! A case is a list of scripted actors with virtual-time offsets: client requests (method, version,
//! origin, streamed body, cancellation time), handler behaviour per request id, per-connection faults,
//! an optional graceful-shutdown signal, transport latency and buffer sizes, pool configuration.
#![allow(dead_code)]

use std::collections::{BTreeMap, VecDeque};
use std::future::Future;
use std::pin::Pin;
use std::sync::atomic::{AtomicUsize, Ordering};
use std::sync::{Arc, Mutex};
use std::task::{Context, Poll};
use std::time::Duration;

use bytes::Bytes;
use http_body_util::BodyExt;
use hyperdriver::client::pool::PoolableStream;
use hyperdriver::info::{ConnectionInfo, HasConnectionInfo};
use hyperdriver::stream::duplex::{DuplexClient, DuplexStream};
use serde::{Deserialize, Serialize};
use tokio::io::{AsyncRead, AsyncWrite, ReadBuf};
use tokio::time::Instant;
use tower::ServiceExt;

type BoxError = Box<dyn std::error::Error + Send + Sync>;

// ------------------------------------------------------------------------------------------------
// case

#[derive(Clone, Debug, Serialize, Deserialize, PartialEq)]
pub struct ReqSpec {
    pub server: u8,
    /// request HTTP/2 when the server speaks both
    pub h2: bool,
    pub method: u8,
    pub start: u16,
    pub body_len: u16,
    pub body_chunks: u8,
    pub body_gap: u8,
    pub exact_hint: bool,
    pub handler_delay: u8,
    pub resp_len: u16,
    pub resp_chunks: u8,
    pub resp_gap: u8,
    pub cancel_at: Option<u16>,
    pub handler_error: bool,
    /// 0: /r/<id>?k=<id>; 1: /?k=<id> (root path, id only in query and header); 2: /r/<id> without query;
    /// 3: deep path with encoded characters and a longer query
    #[serde(default)]
    pub target: u8,
    /// HTTP/1.1 only: the request asks for a protocol upgrade; the handler answers 101 and both
    /// sides then exchange `body_len` / `resp_len` raw bytes over the taken-over connection
    #[serde(default)]
    pub upgrade: bool,
    /// seed of a generated set of further headers on the request and on the response (0: none):
    /// repeated names, long, empty and opaque (non-ASCII) values - see `extra_headers`
    #[serde(default)]
    pub hdrs: u8,
    /// the first server answers 303 See Other with a Location on server `to` (same path and query plus
    /// `hop=1`); the client follows it (standard redirect policy) with a GET without body. Not combined
    /// with upgrades.
    #[serde(default)]
    pub redirect: Option<u8>,
    /// the caller labels the request HTTP/1.0 (only where it would have been labelled HTTP/1.1): it
    /// travels over the same HTTP/1.1 connections and carries the same body
    #[serde(default)]
    pub ver10: bool,
    /// the method is CONNECT (only where the request travels over HTTP/1.1, asks for no upgrade and is
    /// not redirected): the request target on the wire is the authority of the URI, nothing else; no
    /// request body; the handler refuses the tunnel with 403 and an ordinary response body
    #[serde(default)]
    pub connect: bool,
}

/// Deterministic extra headers for request (`dir` 0) or response (`dir` 1) number `id`.
pub fn extra_headers(id: usize, hdrs: u8, dir: u8) -> Vec<(&'static str, Vec<u8>)> {
    const NAMES: [&str; 7] = ["x-a", "x-dup", "x-b", "x-dup", "x-long", "x-empty", "x-bin"];
    // well-known end-to-end headers (requests) / representation headers (responses)
    const REQ_STD: [(&str, &str); 8] = [
        ("te", "trailers"),
        ("accept", "text/html, application/xhtml+xml;q=0.9, */*;q=0.8"),
        ("cookie", "a=1; b=2"),
        ("authorization", "Bearer abc.def-ghi"),
        ("content-type", "application/json; charset=utf-8"),
        ("user-agent", "hdv/1.0 (x; y)"),
        ("accept-encoding", "gzip, br"),
        ("cache-control", "no-cache"),
    ];
    const RESP_STD: [(&str, &str); 8] = [
        ("content-type", "text/plain; charset=utf-8"),
        ("etag", "\"abc-1\""),
        ("set-cookie", "a=1; Path=/"),
        ("set-cookie", "b=2; HttpOnly"),
        ("cache-control", "max-age=0, must-revalidate"),
        ("vary", "accept-encoding"),
        ("www-authenticate", "Basic realm=\"x\""),
        ("content-language", "en"),
    ];
    let n = (hdrs % 8) as usize;
    let bits = if hdrs == 0 { 0 } else { hdrs.wrapping_mul(37) ^ (id as u8) };
    let std = (0..8usize).filter(move |k| bits >> k & 1 == 1).map(move |k| {
        let (name, value) = if dir == 0 { REQ_STD[k] } else { RESP_STD[k] };
        (name, value.as_bytes().to_vec())
    });
    (0..n)
        .map(|k| {
            let name = NAMES[(k + hdrs as usize / 8) % NAMES.len()];
            let seed = id * 131 + hdrs as usize * 7 + k;
            let value: Vec<u8> = match name {
                "x-long" => vec![b'v'; 200 + (seed * 37) % 3000],
                "x-empty" => vec![],
                "x-bin" => (0..1 + seed % 8).map(|j| 0x80 + ((seed + j * 13) % 0x7f) as u8).collect(),
                _ => format!("{dir}-{id}-{hdrs}-{k}").into_bytes(),
            };
            (name, value)
        })
        .chain(std)
        .collect()
}

/// Compares the generated extra headers with what arrived, per name and in order.
pub fn extra_headers_problem(headers: &http::HeaderMap, id: usize, hdrs: u8, dir: u8) -> Option<String> {
    let want = extra_headers(id, hdrs, dir);
    let mut names: Vec<&str> = vec!["x-a", "x-dup", "x-b", "x-long", "x-empty", "x-bin"];
    // well-known headers are compared only when the script sent them (the stack may add its own
    // user-agent, content-length and the like)
    for (n, _) in &want {
        if !names.contains(n) {
            names.push(n);
        }
    }
    for name in names {
        let w: Vec<&[u8]> = want.iter().filter(|(n, _)| *n == name).map(|(_, v)| v.as_slice()).collect();
        let g: Vec<&[u8]> = headers.get_all(name).iter().map(|v| v.as_bytes()).collect();
        if w != g {
            let show = |v: &Vec<&[u8]>| v.iter().map(|b| format!("{} bytes {:?}", b.len(), String::from_utf8_lossy(&b[..b.len().min(24)]))).collect::<Vec<_>>().join(", ");
            return Some(format!("header {name}: sent [{}], arrived [{}]", show(&w), show(&g)));
        }
    }
    None
}

pub const UPGRADE_PROTO: &str = "hdv-echo";

/// An upgrade is only asked for where it can happen: on an HTTP/1.1 request to an origin that no
/// request of the case addresses over HTTP/2 (the pool may serve any request of an origin on its
/// multiplexed HTTP/2 connection, where the hop-by-hop Upgrade/Connection headers are stripped by
/// design and no upgrade exists).
/// The server a redirected request ends up at (None: not redirected).
pub fn redirect_target(case: &NetCase, spec: &ReqSpec) -> Option<usize> {
    if spec.upgrade {
        return None;
    }
    // the followed request keeps its HTTP version: the target must speak it
    let v = request_version(case, spec);
    spec.redirect.map(|t| t as usize % case.servers.len().clamp(1, 3)).filter(|t| match case.servers[*t] % 3 {
        0 => v == http::Version::HTTP_11,
        1 => v == http::Version::HTTP_2,
        _ => true,
    })
}

pub fn is_upgrade(case: &NetCase, spec: &ReqSpec) -> bool {
    let n = case.servers.len();
    spec.upgrade
        && request_version(case, spec) == http::Version::HTTP_11
        && !case.reqs.iter().any(|r| (r.server as usize % n == spec.server as usize % n || redirect_target(case, r) == Some(spec.server as usize % n)) && request_version(case, r) == http::Version::HTTP_2)
}

pub fn is_connect(case: &NetCase, spec: &ReqSpec) -> bool {
    spec.connect && request_version(case, spec) == http::Version::HTTP_11 && !spec.upgrade && redirect_target(case, spec).is_none() && {
        // (not towards an origin that also receives HTTP/2 requests: the request could ride its HTTP/2 connection)
        let n = case.servers.len();
        !case.reqs.iter().any(|r| (r.server as usize % n == spec.server as usize % n || redirect_target(case, r) == Some(spec.server as usize % n)) && request_version(case, r) == http::Version::HTTP_2)
    }
}

pub fn target_of(id: usize, target: u8) -> (String, Option<String>) {
    match target % 4 {
        0 => (format!("/r/{id}"), Some(format!("k={id}"))),
        1 => ("/".to_string(), Some(format!("k={id}"))),
        2 => (format!("/r/{id}"), None),
        _ => (format!("/r/{id}/a%20b/;p=1/x.y"), Some(format!("k={id}&empty=&q=%2F%3F&k2={id}"))),
    }
}

#[derive(Clone, Debug, Serialize, Deserialize, PartialEq)]
pub struct FaultSpec {
    pub server: u8,
    pub at: u16,
    /// 0 cancelled connect, 1 immediate disconnect, 2 garbage, 3 truncated head, 4 truncated body,
    /// 5 disconnect mid response, 6 half-sent h2 preface, 7 idle holder, 8 degenerate pipe size (0 / 1 bytes)
    pub kind: u8,
    pub arg: u16,
}

#[derive(Clone, Debug, Serialize, Deserialize, PartialEq)]
pub struct NetPool {
    pub max_idle: u8,
    pub cont: bool,
}

#[derive(Clone, Debug, Serialize, Deserialize, PartialEq)]
pub struct NetCase {
    /// protocol per server: 0 h1, 1 h2, 2 auto
    pub servers: Vec<u8>,
    pub reqs: Vec<ReqSpec>,
    pub faults: Vec<FaultSpec>,
    /// (server, virtual ms) of the graceful shutdown signal
    pub shutdown: Option<(u8, u16)>,
    /// with `shutdown = Some((server, _))`: the signal resolves synchronously while that server's
    /// k-th connection (0-based) is being accepted (inside its make-service call) instead of at a
    /// virtual instant - i.e. in the middle of one poll of the serving future
    #[serde(default)]
    pub shutdown_on_accept: Option<u8>,
    /// order of the client builder calls: 0 = transport and protocol first, settings (timeout, pool)
    /// afterwards; 1 = settings first, then every call that rebuilds the builder (body types,
    /// transport, protocol, redirect policy, an identity layer) - no setting may get lost on the way
    #[serde(default)]
    pub builder_order: u8,
    /// the caller keeps the serving future alive after it completed (polled through `&mut`, as in a
    /// `select!` loop) instead of dropping it: telling the connections to shut down must not depend
    /// on the future being dropped
    #[serde(default)]
    pub hold_server_future: bool,
    /// the servers are addressed as one host on different ports - `http://o.test` (default port),
    /// `http://o.test:443`, `http://o.test:8080` - instead of three host names: origins that differ
    /// in nothing but the port, one of them the other scheme's default
    #[serde(default)]
    pub same_host: bool,
    /// every server of the case is a TLS listener (`Server::with_tls`, fixture certificate) and the
    /// client carries a TLS configuration; the servers are addressed as `https://` origins whose names
    /// the certificate covers. No ALPN: the protocol is chosen as without TLS.
    #[serde(default)]
    pub tls: bool,
    /// servers without a scheduled signal are still built `with_graceful_shutdown`, with a signal that
    /// never resolves (the usual production set-up): the graceful accept loop instead of the plain one
    #[serde(default)]
    pub graceful_never: bool,
    /// collaborators that are not ready at once: the client's transport answers Pending from
    /// `poll_ready` (with a wake-up) `n % 3` times for every connection it is asked to make; every clone
    /// of a server connection's service does so `n / 3 % 3` times
    #[serde(default)]
    pub transport_not_ready: u8,
    pub pool: Option<NetPool>,
    pub connect_delay: u8,
    pub latency: u8,
    pub buf: u32,
    pub timeout_ms: Option<u16>,
}

/// Authority under which server `srv` is addressed.
pub fn authority_of(tls: bool, same_host: bool, srv: usize) -> String {
    match (tls, same_host) {
        (false, true) => ["o.test", "o.test:443", "o.test:8080"][srv % 3].to_string(),
        (false, false) => format!("s{srv}.test"),
        // names covered by the fixture certificate
        (true, true) => ["sub.wild.test", "sub.wild.test:80", "sub.wild.test:8080"][srv % 3].to_string(),
        (true, false) => TLS_NAMES[srv % 3].to_string(),
    }
}

pub const TLS_NAMES: [&str; 3] = ["example.com", "a.test", "localhost"];

pub fn scheme_of(tls: bool) -> &'static str {
    if tls {
        "https"
    } else {
        "http"
    }
}

thread_local! {
    static TLS_CONFIGS: (Arc<rustls::ServerConfig>, rustls::ClientConfig) = {
        crate::engines::tlswire::install_provider();
        (Arc::new(crate::engines::tlswire::server_config(0, 0, Default::default())), crate::engines::tlswire::client_config(0))
    };
}

pub const METHODS: &[&str] = &["GET", "POST", "PUT", "DELETE", "PATCH", "QUERY"];

pub fn req_byte(id: usize, i: usize) -> u8 {
    ((id * 31 + i * 7 + 11) % 253) as u8
}
pub fn resp_byte(id: usize, i: usize) -> u8 {
    ((id * 17 + i * 5 + 3) % 249) as u8
}

// ------------------------------------------------------------------------------------------------
// bodies

pub struct ChunkBody {
    chunks: VecDeque<Bytes>,
    gap: Duration,
    sleep: Option<Pin<Box<tokio::time::Sleep>>>,
    exact: Option<u64>,
    first: bool,
}

impl Default for ChunkBody {
    fn default() -> Self {
        ChunkBody { chunks: VecDeque::new(), gap: Duration::ZERO, sleep: None, exact: Some(0), first: true }
    }
}

impl ChunkBody {
    pub fn new(data: Vec<u8>, nchunks: usize, gap_ms: u64, exact: bool) -> Self {
        let total = data.len();
        let n = nchunks.max(1).min(total.max(1));
        let mut chunks = VecDeque::new();
        if total > 0 {
            let size = total.div_ceil(n);
            for c in data.chunks(size.max(1)) {
                chunks.push_back(Bytes::copy_from_slice(c));
            }
        }
        ChunkBody { chunks, gap: Duration::from_millis(gap_ms), sleep: None, exact: exact.then_some(total as u64), first: true }
    }
}

impl http_body::Body for ChunkBody {
    type Data = Bytes;
    type Error = std::convert::Infallible;
    fn poll_frame(mut self: Pin<&mut Self>, cx: &mut Context<'_>) -> Poll<Option<Result<http_body::Frame<Bytes>, Self::Error>>> {
        if self.chunks.is_empty() {
            return Poll::Ready(None);
        }
        if !self.first && !self.gap.is_zero() {
            if self.sleep.is_none() {
                let gap = self.gap;
                self.sleep = Some(Box::pin(tokio::time::sleep(gap)));
            }
            match self.sleep.as_mut().unwrap().as_mut().poll(cx) {
                Poll::Pending => return Poll::Pending,
                Poll::Ready(()) => self.sleep = None,
            }
        }
        self.first = false;
        let c = self.chunks.pop_front().unwrap();
        Poll::Ready(Some(Ok(http_body::Frame::data(c))))
    }
    fn is_end_stream(&self) -> bool {
        self.chunks.is_empty()
    }
    fn size_hint(&self) -> http_body::SizeHint {
        match self.exact {
            Some(n) => {
                let left: u64 = self.chunks.iter().map(|c| c.len() as u64).sum();
                let _ = n;
                http_body::SizeHint::with_exact(left)
            }
            None => http_body::SizeHint::default(),
        }
    }
}

// ------------------------------------------------------------------------------------------------
// real-time budget guard: a simulation that spins at one virtual instant is cut off (inconclusive)

thread_local! {
    static SIM_DEADLINE: std::cell::Cell<Option<std::time::Instant>> = const { std::cell::Cell::new(None) };
    static SIM_POLLS: std::cell::Cell<u64> = const { std::cell::Cell::new(0) };
    /// set when the guard fired: the panic may be swallowed by the runtime (inside a spawned task),
    /// so the verdict of the whole case is taken from this flag
    static SIM_BUDGET_HIT: std::cell::Cell<bool> = const { std::cell::Cell::new(false) };
    /// debugging aid (VERIF_NET_DEBUG): [read pending, read ready, read sleeping, write pending, write ready, bytes written]
    static SIM_IO_STATS: std::cell::Cell<[u64; 6]> = const { std::cell::Cell::new([0; 6]) };
}
fn stat(i: usize, by: u64) {
    SIM_IO_STATS.with(|c| {
        let mut v = c.get();
        v[i] += by;
        c.set(v);
    });
}

pub const SIM_BUDGET_MSG: &str = "netsim real-time budget exceeded";

fn budget_tick() {
    let n = SIM_POLLS.with(|c| {
        c.set(c.get() + 1);
        c.get()
    });
    if n % 4096 == 0 {
        if let Some(d) = SIM_DEADLINE.with(|c| c.get()) {
            if std::time::Instant::now() > d {
                SIM_BUDGET_HIT.with(|c| c.set(true));
                if std::env::var_os("VERIF_NET_DEBUG").is_some() {
                    eprintln!("budget exceeded after {n} transport polls; io stats {:?}; stack of the polling task:\n{}", SIM_IO_STATS.with(|c| c.get()), std::backtrace::Backtrace::force_capture());
                }
                panic!("{}", SIM_BUDGET_MSG);
            }
        }
    }
}

// ------------------------------------------------------------------------------------------------
// transport with latency

pub struct SlowIo {
    inner: DuplexStream,
    latency: Duration,
    stash: Option<Bytes>,
    sleep: Option<Pin<Box<tokio::time::Sleep>>>,
    eof: bool,
}

impl SlowIo {
    fn new(inner: DuplexStream, latency: Duration) -> Self {
        SlowIo { inner, latency, stash: None, sleep: None, eof: false }
    }
}

impl std::fmt::Debug for SlowIo {
    fn fmt(&self, f: &mut std::fmt::Formatter<'_>) -> std::fmt::Result {
        write!(f, "SlowIo")
    }
}

impl HasConnectionInfo for SlowIo {
    type Addr = hyperdriver::info::DuplexAddr;
    fn info(&self) -> ConnectionInfo<Self::Addr> {
        self.inner.info()
    }
}
impl PoolableStream for SlowIo {
    fn can_share(&self) -> bool {
        false
    }
}
impl AsyncRead for SlowIo {
    fn poll_read(mut self: Pin<&mut Self>, cx: &mut Context<'_>, buf: &mut ReadBuf<'_>) -> Poll<std::io::Result<()>> {
        budget_tick();
        if self.latency.is_zero() {
            return Pin::new(&mut self.inner).poll_read(cx, buf);
        }
        loop {
            if let Some(s) = self.sleep.as_mut() {
                match s.as_mut().poll(cx) {
                    Poll::Pending => {
                        stat(2, 1);
                        return Poll::Pending;
                    }
                    Poll::Ready(()) => self.sleep = None,
                }
            }
            if let Some(mut data) = self.stash.take() {
                let n = data.len().min(buf.remaining());
                buf.put_slice(&data[..n]);
                let rest = data.split_off(n);
                if !rest.is_empty() {
                    self.stash = Some(rest);
                }
                return Poll::Ready(Ok(()));
            }
            if self.eof {
                return Poll::Ready(Ok(()));
            }
            let mut tmp = vec![0u8; buf.remaining().max(1).min(16 * 1024)];
            let mut rb = ReadBuf::new(&mut tmp);
            match Pin::new(&mut self.inner).poll_read(cx, &mut rb) {
                Poll::Pending => {
                    stat(0, 1);
                    return Poll::Pending;
                }
                Poll::Ready(Err(e)) => return Poll::Ready(Err(e)),
                Poll::Ready(Ok(())) => {
                    stat(1, 1);
                    let n = rb.filled().len();
                    if n == 0 {
                        self.eof = true;
                    } else {
                        self.stash = Some(Bytes::copy_from_slice(&tmp[..n]));
                    }
                    let lat = self.latency;
                    self.sleep = Some(Box::pin(tokio::time::sleep(lat)));
                }
            }
        }
    }
}
impl AsyncWrite for SlowIo {
    fn poll_write(mut self: Pin<&mut Self>, cx: &mut Context<'_>, buf: &[u8]) -> Poll<std::io::Result<usize>> {
        budget_tick();
        let r = if std::env::var_os("VERIF_NET_DEBUG").is_some() && SIM_POLLS.with(|c| c.get()) > 1_000_000 {
            // debugging aid: who wakes a writer that is blocked on a full pipe?
            struct Spy(std::task::Waker);
            impl std::task::Wake for Spy {
                fn wake(self: Arc<Self>) {
                    static N: AtomicUsize = AtomicUsize::new(0);
                    if N.fetch_add(1, Ordering::Relaxed) < 3 {
                        eprintln!("blocked writer woken by:\n{}", std::backtrace::Backtrace::force_capture());
                    }
                    self.0.wake_by_ref();
                }
            }
            let w = std::task::Waker::from(Arc::new(Spy(cx.waker().clone())));
            let mut cx2 = Context::from_waker(&w);
            Pin::new(&mut self.inner).poll_write(&mut cx2, buf)
        } else {
            Pin::new(&mut self.inner).poll_write(cx, buf)
        };
        match &r {
            Poll::Pending => stat(3, 1),
            Poll::Ready(Ok(n)) => {
                stat(4, 1);
                stat(5, *n as u64);
            }
            _ => {}
        }
        r
    }
    fn poll_flush(mut self: Pin<&mut Self>, cx: &mut Context<'_>) -> Poll<std::io::Result<()>> {
        Pin::new(&mut self.inner).poll_flush(cx)
    }
    fn poll_shutdown(mut self: Pin<&mut Self>, cx: &mut Context<'_>) -> Poll<std::io::Result<()>> {
        Pin::new(&mut self.inner).poll_shutdown(cx)
    }
}

#[derive(Clone)]
pub struct RouteTransport {
    routes: Arc<Vec<DuplexClient>>,
    buf: usize,
    connect_delay: Duration,
    latency: Duration,
    dials: Arc<AtomicUsize>,
    /// Pending answers left before this value (clones start afresh from the template's count) is ready
    not_ready: u8,
}

impl tower::Service<http::request::Parts> for RouteTransport {
    type Response = SlowIo;
    type Error = std::io::Error;
    type Future = Pin<Box<dyn Future<Output = Result<SlowIo, std::io::Error>> + Send>>;
    fn poll_ready(&mut self, cx: &mut Context<'_>) -> Poll<Result<(), Self::Error>> {
        if self.not_ready > 0 {
            self.not_ready -= 1;
            cx.waker().wake_by_ref();
            return Poll::Pending;
        }
        Poll::Ready(Ok(()))
    }
    fn call(&mut self, req: http::request::Parts) -> Self::Future {
        let host = req.uri.host().unwrap_or("").to_string();
        let idx = if host == "o.test" {
            // one host, routed by effective port
            match req.uri.port_u16().unwrap_or(80) {
                80 => Some(0),
                443 => Some(1),
                8080 => Some(2),
                _ => None,
            }
        } else if host == "sub.wild.test" {
            match req.uri.port_u16().unwrap_or(443) {
                443 => Some(0),
                80 => Some(1),
                8080 => Some(2),
                _ => None,
            }
        } else if let Some(i) = TLS_NAMES.iter().position(|n| *n == host) {
            Some(i)
        } else {
            host.strip_prefix('s').and_then(|r| r.strip_suffix(".test")).and_then(|n| n.parse::<usize>().ok())
        };
        let routes = self.routes.clone();
        let buf = self.buf;
        let delay = self.connect_delay;
        let latency = self.latency;
        let dials = self.dials.clone();
        Box::pin(async move {
            dials.fetch_add(1, Ordering::SeqCst);
            let Some(client) = idx.and_then(|i| routes.get(i)) else {
                return Err(std::io::Error::new(std::io::ErrorKind::NotFound, format!("no route for {host}")));
            };
            if !delay.is_zero() {
                tokio::time::sleep(delay).await;
            }
            let s = client.connect(buf).await?;
            Ok(SlowIo::new(s, latency))
        })
    }
}

// ------------------------------------------------------------------------------------------------
// observation log

#[derive(Clone, Debug, PartialEq)]
pub enum ClientOutcome {
    /// status, x-id header, x-origin header, x-conn header, body matched expectation, body length
    Ok { status: u16, id_hdr: Option<usize>, origin_hdr: Option<usize>, conn: Option<usize>, body_ok: bool, body_len: usize, hdr_problem: Option<String> },
    /// response head arrived but the body failed
    BodyErr(String),
    Err(String),
    Cancelled,
    Pending,
}

#[derive(Default, Debug)]
pub struct Obs {
    pub t0: Option<Instant>,
    /// (request id, server, connection id, virtual ms)
    pub handler_start: Vec<(usize, usize, usize, u64)>,
    pub handler_end: Vec<(usize, u64)>,
    pub mismatches: Vec<String>,
    /// per server: (connection id, accept ms)
    pub accepted: Vec<Vec<(usize, u64)>>,
    pub client: BTreeMap<usize, (ClientOutcome, u64)>,
    /// virtual ms at which the request future resolved (response head or error), per request
    pub resolved_at: BTreeMap<usize, u64>,
    /// pipelined raw requests whose handler started: (server, connection, sequence number, ms)
    pub pipe_started: Vec<(usize, usize, usize, u64)>,
    /// what each pipelining raw client received until the connection ended: (server, bytes, ms of the end)
    pub pipe_received: Vec<(usize, Vec<u8>, u64)>,
    pub server_done: Vec<Option<(Result<(), String>, u64)>>,
    pub conn_spawned: Vec<usize>,
    pub conn_finished: Vec<usize>,
    /// (spawned, finished) per server at the horizon, while the clients still hold their connections
    pub conn_at_horizon: Vec<(usize, usize)>,
    pub probes: Vec<(usize, ClientOutcome)>,
    pub fault_log: Vec<String>,
    pub dials: usize,
    /// (request id, server, connection id, virtual ms of the 101, problem found by the server's half of the raw exchange)
    pub upgrades: Vec<(usize, usize, usize, u64, Option<String>)>,
    /// virtual ms at which an accept-triggered shutdown signal fired
    pub signal_at: Option<u64>,
}

impl Obs {
    fn now(&self) -> u64 {
        self.t0.map(|t| t.elapsed().as_millis() as u64).unwrap_or(0)
    }
}

type O = Arc<Mutex<Obs>>;

#[derive(Clone)]
pub struct CountingExec {
    obs: O,
    server: usize,
}

impl<F> hyper::rt::Executor<F> for CountingExec
where
    F: Future + Send + 'static,
    F::Output: Send + 'static,
{
    fn execute(&self, future: F) {
        let obs = self.obs.clone();
        let server = self.server;
        obs.lock().unwrap().conn_spawned[server] += 1;
        tokio::spawn(async move {
            future.await;
            obs.lock().unwrap().conn_finished[server] += 1;
        });
    }
}

// ------------------------------------------------------------------------------------------------
// server side

struct SrvCtx {
    obs: O,
    server: usize,
    reqs: Vec<ReqSpec>,
    /// per request: an upgrade is expected (see `is_upgrade`)
    upgrades: Vec<bool>,
    /// per request: where it is redirected to (see `redirect_target`)
    redirects: Vec<Option<usize>>,
    /// per request: sent with the CONNECT method (see `is_connect`)
    connects: Vec<bool>,
    same_host: bool,
    tls: bool,
    /// every clone of a connection's service answers Pending from `poll_ready` this many times
    handler_not_ready: u8,
}

/// A connection's service that is not ready at once (each clone starts afresh): whoever drives it
/// has to wait for `poll_ready` before `call`, as the `tower::Service` contract demands.
struct LazyReady<S> {
    inner: S,
    template: u8,
    left: u8,
    obs: O,
}
impl<S: Clone> Clone for LazyReady<S> {
    fn clone(&self) -> Self {
        LazyReady { inner: self.inner.clone(), template: self.template, left: self.template, obs: self.obs.clone() }
    }
}
impl<S, R> tower::Service<R> for LazyReady<S>
where
    S: tower::Service<R>,
{
    type Response = S::Response;
    type Error = S::Error;
    type Future = S::Future;
    fn poll_ready(&mut self, cx: &mut Context<'_>) -> Poll<Result<(), Self::Error>> {
        if self.left > 0 {
            self.left -= 1;
            cx.waker().wake_by_ref();
            return Poll::Pending;
        }
        self.inner.poll_ready(cx)
    }
    fn call(&mut self, req: R) -> Self::Future {
        if self.left > 0 {
            self.obs.lock().unwrap().mismatches.push(format!("a connection's service was called although its poll_ready had not reported ready yet ({} Pending answers still to come)", self.left));
        }
        self.inner.call(req)
    }
}

async fn handle(ctx: Arc<SrvCtx>, conn: usize, req: http::Request<hyperdriver::Body>) -> Result<http::Response<ChunkBody>, BoxError> {
    let (mut parts, body) = req.into_parts();
    let path = parts.uri.path().to_string();
    // the id travels in the path, the query and a header; the header identifies the script entry
    let id: Option<usize> = parts.headers.get("x-id").and_then(|v| v.to_str().ok()).and_then(|v| v.parse().ok());
    let t = ctx.obs.lock().unwrap().now();
    let Some(id) = id.filter(|i| *i < ctx.reqs.len()) else {
        // raw actors (faults, probes) use other paths
        let _ = body.collect().await;
        if let Some(rest) = path.strip_prefix("/fault/pipe/") {
            // pipelined raw requests: /fault/pipe/<delay ms>/<sequence number>
            let mut it = rest.split('/');
            let delay: u64 = it.next().and_then(|d| d.parse().ok()).unwrap_or(0);
            let seq: usize = it.next().and_then(|d| d.parse().ok()).unwrap_or(0);
            ctx.obs.lock().unwrap().pipe_started.push((ctx.server, conn, seq, t));
            if delay > 0 {
                tokio::time::sleep(Duration::from_millis(delay)).await;
            }
            let body = format!("pipelined-{seq}").into_bytes();
            return Ok(http::Response::builder().status(200).header("x-conn", conn).body(ChunkBody::new(body, 1, 0, true)).unwrap());
        }
        return Ok(http::Response::builder().status(404).header("x-conn", conn).body(ChunkBody::default()).unwrap());
    };
    let spec = ctx.reqs[id].clone();
    ctx.obs.lock().unwrap().handler_start.push((id, ctx.server, conn, t));
    let mut problems = vec![];
    if spec.server as usize % 3 != ctx.server && ctx.reqs.len() > 0 {
        // requests are routed by host; the server index is checked against the script below
    }
    let redirect_to: Option<usize> = ctx.redirects[id];
    // second hop of a followed 303: GET without body, `hop=1` appended to the query
    let second_hop = redirect_to.is_some() && parts.uri.query().map(|q| q.ends_with("hop=1")).unwrap_or(false);
    let connect = ctx.connects[id];
    let want_method = if second_hop { "GET" } else if connect { "CONNECT" } else { METHODS[spec.method as usize % METHODS.len()] };
    if parts.method.as_str() != want_method {
        problems.push(format!("method {} != {want_method}", parts.method));
    }
    let (want_path, want_query) = target_of(id, spec.target);
    let want_query = if second_hop {
        Some(match want_query {
            Some(q) => format!("{q}&hop=1"),
            None => "hop=1".to_string(),
        })
    } else {
        want_query
    };
    if connect {
        // the target of a CONNECT request is the authority the caller named - no scheme, path or query
        let want = authority_of(ctx.tls, ctx.same_host, ctx.server);
        if parts.uri.authority().map(|a| a.as_str()) != Some(want.as_str()) || !matches!(path.as_str(), "" | "/") && parts.uri.authority().is_none() || parts.uri.query().is_some() {
            problems.push(format!("CONNECT target {:?} != {want}", parts.uri.to_string()));
        }
    } else {
        if path != want_path {
            problems.push(format!("path {path} != {want_path}"));
        }
        if parts.uri.query() != want_query.as_deref() {
            problems.push(format!("query {:?} != {want_query:?}", parts.uri.query()));
        }
    }
    // the request names the origin it was sent to: Host header on HTTP/1, :authority on HTTP/2
    let want_host = authority_of(ctx.tls, ctx.same_host, ctx.server);
    if parts.version == http::Version::HTTP_2 {
        if parts.uri.authority().map(|a| a.as_str()) != Some(want_host.as_str()) {
            problems.push(format!("HTTP/2 authority {:?} != {want_host}", parts.uri.authority()));
        }
    } else {
        let hosts: Vec<&[u8]> = parts.headers.get_all(http::header::HOST).iter().map(|v| v.as_bytes()).collect();
        if hosts != vec![want_host.as_bytes()] {
            problems.push(format!("Host header {:?} != {want_host}", hosts.iter().map(|h| String::from_utf8_lossy(h).to_string()).collect::<Vec<_>>()));
        }
    }
    let expect_hdrs = if redirect_to.is_some() { 0 } else { spec.hdrs };
    let expect_body_len = if second_hop || connect { 0 } else { spec.body_len as usize };
    match parts.headers.get("x-id").and_then(|v| v.to_str().ok()).and_then(|v| v.parse::<usize>().ok()) {
        Some(h) if h == id => {}
        other => problems.push(format!("x-id header {other:?} != {id}")),
    }
    if parts.headers.get("x-keep").map(|v| v.as_bytes()) != Some(format!("v{id}").as_bytes()) {
        problems.push("x-keep header lost or altered".to_string());
    }
    if let Some(p) = extra_headers_problem(&parts.headers, id, expect_hdrs, 0) {
        problems.push(p);
    }
    let upgrading = ctx.upgrades[id] && parts.headers.get(http::header::UPGRADE).map(|v| v.as_bytes()) == Some(UPGRADE_PROTO.as_bytes());
    if ctx.upgrades[id] && !upgrading {
        problems.push("upgrade header lost or altered".to_string());
    }
    match body.collect().await {
        Ok(c) if upgrading => {
            if !c.to_bytes().is_empty() {
                problems.push("upgrade request arrived with a body".to_string());
            }
        }
        Ok(c) => {
            let b = c.to_bytes();
            if b.len() != expect_body_len {
                problems.push(format!("body length {} != {expect_body_len}", b.len()));
            } else if let Some(i) = b.iter().enumerate().position(|(i, x)| *x != req_byte(id, i)) {
                problems.push(format!("body differs at byte {i}"));
            }
        }
        Err(e) => {
            // the client went away mid-body (cancellation): not a mismatch
            let _ = e;
            return Err("request body aborted".into());
        }
    }
    if !problems.is_empty() {
        let now = ctx.obs.lock().unwrap().now();
        ctx.obs.lock().unwrap().mismatches.push(format!("server {} handling request {id} at {now} ms: {}", ctx.server, problems.join("; ")));
    }
    if spec.handler_delay > 0 {
        tokio::time::sleep(Duration::from_millis(spec.handler_delay as u64)).await;
    }
    let t_end = ctx.obs.lock().unwrap().now();
    ctx.obs.lock().unwrap().handler_end.push((id, t_end));
    if spec.handler_error {
        return Err("scripted handler error".into());
    }
    if let (Some(to), false) = (redirect_to, second_hop) {
        let (p, q) = target_of(id, spec.target);
        let location = match q {
            Some(q) => format!("{}://{}{p}?{q}&hop=1", scheme_of(ctx.tls), authority_of(ctx.tls, ctx.same_host, to)),
            None => format!("{}://{}{p}?hop=1", scheme_of(ctx.tls), authority_of(ctx.tls, ctx.same_host, to)),
        };
        return Ok(http::Response::builder().status(303).header(http::header::LOCATION, location).header("x-conn", conn).body(ChunkBody::default()).unwrap());
    }
    if upgrading {
        let on = parts.extensions.remove::<hyper::upgrade::OnUpgrade>();
        let obs = ctx.obs.clone();
        let server = ctx.server;
        let spec2 = spec.clone();
        tokio::spawn(async move {
            let problem = match on {
                None => Some("the request carried no upgrade handle".to_string()),
                Some(on) => match on.await {
                    Err(e) => Some(format!("server-side upgrade failed: {e}")),
                    Ok(up) => upgraded_server_half(hyperdriver::bridge::io::TokioIo::new(up), id, &spec2).await.err(),
                },
            };
            let now = obs.lock().unwrap().now();
            obs.lock().unwrap().upgrades.push((id, server, conn, now, problem));
        });
        let mut b = http::Response::builder()
            .status(101)
            .header(http::header::CONNECTION, "upgrade")
            .header(http::header::UPGRADE, UPGRADE_PROTO)
            .header("x-id", id)
            .header("x-origin", ctx.server)
            .header("x-conn", conn);
        for (n, v) in extra_headers(id, spec.hdrs, 1) {
            b = b.header(n, http::HeaderValue::from_bytes(&v).unwrap());
        }
        return Ok(b.body(ChunkBody::default()).unwrap());
    }
    let data: Vec<u8> = (0..spec.resp_len as usize).map(|i| resp_byte(id, i)).collect();
    let mut b = http::Response::builder().status(if connect { 403 } else { 200 + (id % 3) as u16 }).header("x-id", id).header("x-origin", ctx.server).header("x-conn", conn);
    for (n, v) in extra_headers(id, spec.hdrs, 1) {
        b = b.header(n, http::HeaderValue::from_bytes(&v).unwrap());
    }
    Ok(b.body(ChunkBody::new(data, spec.resp_chunks as usize, spec.resp_gap as u64, spec.resp_chunks % 2 == 0)).unwrap())
}

/// Server half of the raw exchange on a taken-over connection: read exactly the client's bytes,
/// answer with the scripted bytes, close, and require end-of-stream (nothing invented).
async fn upgraded_server_half<IO: AsyncRead + AsyncWrite + Unpin>(mut io: IO, id: usize, spec: &ReqSpec) -> Result<(), String> {
    use tokio::io::{AsyncReadExt, AsyncWriteExt};
    let mut got = vec![0u8; spec.body_len as usize];
    io.read_exact(&mut got).await.map_err(|e| format!("reading the client's {} raw bytes: {e}", spec.body_len))?;
    if let Some(i) = got.iter().enumerate().position(|(i, x)| *x != req_byte(id, i)) {
        return Err(format!("raw bytes from the client differ at offset {i} (got {:?})", String::from_utf8_lossy(&got[i..got.len().min(i + 24)])));
    }
    let data: Vec<u8> = (0..spec.resp_len as usize).map(|i| resp_byte(id, i)).collect();
    let n = (spec.resp_chunks as usize).max(1);
    let step = data.len().div_ceil(n).max(1);
    for c in data.chunks(step) {
        io.write_all(c).await.map_err(|e| format!("writing raw bytes: {e}"))?;
        io.flush().await.map_err(|e| format!("flushing raw bytes: {e}"))?;
        if spec.resp_gap > 0 {
            tokio::time::sleep(Duration::from_millis(spec.resp_gap as u64)).await;
        }
    }
    io.shutdown().await.map_err(|e| format!("closing the taken-over stream: {e}"))?;
    let mut extra = vec![];
    match io.read_to_end(&mut extra).await {
        Ok(_) if extra.is_empty() => Ok(()),
        Ok(_) => Err(format!("{} unexpected bytes on the taken-over connection: {:?}", extra.len(), String::from_utf8_lossy(&extra[..extra.len().min(40)]))),
        Err(_) => Ok(()),
    }
}

async fn upgraded_client_half<IO: AsyncRead + AsyncWrite + Unpin>(mut io: IO, id: usize, spec: &ReqSpec) -> Result<(bool, usize), String> {
    use tokio::io::{AsyncReadExt, AsyncWriteExt};
    let data: Vec<u8> = (0..spec.body_len as usize).map(|i| req_byte(id, i)).collect();
    let n = (spec.body_chunks as usize).max(1);
    let step = data.len().div_ceil(n).max(1);
    for c in data.chunks(step) {
        io.write_all(c).await.map_err(|e| format!("writing raw bytes: {e}"))?;
        io.flush().await.map_err(|e| format!("flushing raw bytes: {e}"))?;
        if spec.body_gap > 0 {
            tokio::time::sleep(Duration::from_millis(spec.body_gap as u64)).await;
        }
    }
    let mut got = vec![];
    io.read_to_end(&mut got).await.map_err(|e| format!("reading raw bytes: {e}"))?;
    let _ = io.shutdown().await;
    let ok = got.len() == spec.resp_len as usize && got.iter().enumerate().all(|(i, x)| *x == resp_byte(id, i));
    Ok((ok, got.len()))
}

macro_rules! start_server {
    ($builder:expr, $ctx:expr, $obs:expr, $server:expr, $shutdown:expr, $on_accept:expr, $hold:expr, $never:expr) => {{
        let ctx: Arc<SrvCtx> = $ctx;
        let obs: O = $obs;
        let server: usize = $server;
        let conn_counter = Arc::new(AtomicUsize::new(0));
        let obs2 = obs.clone();
        let on_accept: Option<usize> = $on_accept;
        let (sig_tx, sig_rx) = tokio::sync::oneshot::channel::<()>();
        let sig_tx = Mutex::new(Some(sig_tx));
        let make = hyperdriver::service::make_service_fn(move |_conn: &hyperdriver::server::conn::Stream| {
            let conn = conn_counter.fetch_add(1, Ordering::SeqCst);
            let now = obs2.lock().unwrap().now();
            obs2.lock().unwrap().accepted[server].push((conn, now));
            if on_accept == Some(conn) {
                if let Some(tx) = sig_tx.lock().unwrap().take() {
                    obs2.lock().unwrap().signal_at = Some(now);
                    let _ = tx.send(());
                }
            }
            let ctx = ctx.clone();
            let (template, obs4) = (ctx.handler_not_ready, ctx.obs.clone());
            async move { Ok::<_, std::convert::Infallible>(LazyReady { inner: tower::service_fn(move |req: http::Request<hyperdriver::Body>| handle(ctx.clone(), conn, req)), template, left: template, obs: obs4 }) }
        });
        let srv = $builder.with_make_service(make).with_executor(CountingExec { obs: obs.clone(), server });
        let shutdown: Option<u64> = $shutdown;
        let obs3 = obs.clone();
        tokio::spawn(async move {
            let hold: bool = $hold;
            macro_rules! finish {
                ($fut:expr) => {{
                    let mut fut = Box::pin(std::future::IntoFuture::into_future($fut));
                    let r = (&mut fut).await;
                    let now = obs3.lock().unwrap().now();
                    obs3.lock().unwrap().server_done[server] = Some((r.map_err(|e| e.to_string()), now));
                    if hold {
                        // the completed future stays alive until the simulation aborts this task
                        std::future::pending::<()>().await;
                    }
                    drop(fut);
                }};
            }
            match (shutdown, on_accept) {
                (Some(_), Some(_)) => finish!(srv.with_graceful_shutdown(async move {
                    if sig_rx.await.is_err() {
                        std::future::pending::<()>().await;
                    }
                })),
                (Some(ms), None) => finish!(srv.with_graceful_shutdown(async move { tokio::time::sleep(Duration::from_millis(ms)).await })),
                (None, _) if $never => finish!(srv.with_graceful_shutdown(std::future::pending::<()>())),
                (None, _) => finish!(srv),
            }
        })
    }};
}

// ------------------------------------------------------------------------------------------------
// client side

type ClientSvc = hyperdriver::service::SharedService<http::Request<ChunkBody>, http::Response<hyperdriver::Body>, hyperdriver::client::Error>;

fn build_client(case: &NetCase, routes: Arc<Vec<DuplexClient>>, dials: Arc<AtomicUsize>) -> ClientSvc {
    let transport = RouteTransport {
        routes,
        buf: effective_buf(case),
        connect_delay: Duration::from_millis(case.connect_delay as u64),
        // per-read latency is only combined with buffers of at least 64 bytes: with smaller ones
        // hyper/h2 and the latency wrapper can keep exchanging single bytes at one virtual instant
        latency: Duration::from_millis(if effective_buf(case) >= 64 { case.latency as u64 } else { 0 }),
        dials,
        not_ready: case.transport_not_ready % 3,
    };
    let pool_cfg = case.pool.as_ref().map(|p| {
        let mut cfg = hyperdriver::client::PoolConfig::default();
        cfg.max_idle_per_host = p.max_idle as usize;
        cfg.continue_after_preemption = p.cont;
        cfg.idle_timeout = None;
        cfg
    });
    let timeout = case.timeout_ms.map(|t| Duration::from_millis(t as u64));
    let tls_cfg = case.tls.then(|| TLS_CONFIGS.with(|c| c.1.clone()));
    // the TLS setting is one more setting that must survive the calls that rebuild the builder
    macro_rules! secured {
        ($b:expr) => {{
            let b = $b;
            match tls_cfg.clone() {
                Some(cfg) => b.with_tls(cfg),
                None => b,
            }
        }};
    }
    if case.reqs.iter().any(|r| redirect_target(case, r).is_some()) && case.builder_order % 2 == 1 {
        // settings first, the redirect policy (and everything else that rebuilds the builder) afterwards
        let b = secured!(hyperdriver::Client::builder()).with_optional_timeout(timeout);
        let b = match pool_cfg {
            Some(cfg) => b.with_pool(cfg),
            None => b.without_pool(),
        };
        return b.with_body::<ChunkBody, hyperdriver::Body>().with_transport(transport).with_auto_http().without_redirects().with_standard_redirect_policy().build_service();
    }
    if case.reqs.iter().any(|r| redirect_target(case, r).is_some()) {
        // the default client follows redirects (tower-http's standard policy)
        let b = secured!(hyperdriver::Client::builder()
            .with_body::<ChunkBody, hyperdriver::Body>()
            .with_transport(transport)
            .with_auto_http()
            .with_standard_redirect_policy()
            .with_optional_timeout(timeout));
        let b = match pool_cfg {
            Some(cfg) => b.with_pool(cfg),
            None => b.without_pool(),
        };
        return b.build_service();
    }
    if case.builder_order % 2 == 1 {
        let b = secured!(hyperdriver::Client::builder()).with_optional_timeout(timeout);
        let b = match pool_cfg {
            Some(cfg) => b.with_pool(cfg),
            None => b.without_pool(),
        };
        return b
            .with_body::<ChunkBody, hyperdriver::Body>()
            .with_transport(transport)
            .with_auto_http()
            .without_redirects()
            .layer(tower::layer::util::Identity::new())
            .build_service();
    }
    let b = secured!(hyperdriver::Client::builder()
        .with_body::<ChunkBody, hyperdriver::Body>()
        .with_transport(transport)
        .with_auto_http()
        .without_redirects()
        .with_optional_timeout(timeout));
    let b = match pool_cfg {
        Some(cfg) => b.with_pool(cfg),
        None => b.without_pool(),
    };
    b.build_service()
}

/// The h2 crate's handshake flushes its first flight (client: preface + SETTINGS, server: SETTINGS)
/// before it reads; over an in-process pipe smaller than that flight both sides block forever. This
/// is a property of h2 over tiny pipes, not of hyperdriver, so HTTP/2 is only combined with buffers
/// of at least 128 bytes; HTTP/1-only cases keep buffers down to one byte.
///
/// The same crate writes a pending control frame (SETTINGS ACK, GOAWAY, PING) before it reads the
/// next frame. When both directions of the pipe are full at that moment (request bodies one way,
/// response bodies the other) and each end owes a control frame - a graceful shutdown makes the
/// server owe GOAWAY while the client still owes the SETTINGS ACK - neither end reads again: a
/// mutual write stall inside h2, reproduced at h2=trace level (DESIGN.md 10.4). It needs both
/// directions saturated, so with HTTP/2 the pipe always holds the smaller of the two directions'
/// total traffic: one direction keeps its back-pressure, the stall cannot form.
pub fn effective_buf(case: &NetCase) -> usize {
    let any_h2 = case.reqs.iter().any(|r| request_version(case, r) == http::Version::HTTP_2) || case.servers.iter().any(|s| s % 3 == 1);
    let b = case.buf.max(1) as usize;
    if any_h2 {
        let hdr = |id: usize, spec: &ReqSpec, dir: u8| 160 + extra_headers(id, spec.hdrs, dir).iter().map(|(n, v)| n.len() + v.len() + 8).sum::<usize>();
        // TLS: handshake flights (certificate chain downwards) and 22 bytes of framing per record
        let (mut up, mut down) = if case.tls { (256usize + 1024, 256usize + 4096) } else { (256usize, 256usize) };
        for (id, r) in case.reqs.iter().enumerate().filter(|(_, r)| request_version(case, r) == http::Version::HTTP_2) {
            let hops = if redirect_target(case, r).is_some() { 2 } else { 1 };
            let rec = if case.tls { 32 } else { 0 };
            up += hops * (hdr(id, r, 0) + 64 + 2 * rec) + r.body_len as usize + (9 + rec) * (r.body_chunks as usize + 2);
            down += hops * (hdr(id, r, 1) + 64 + 2 * rec) + r.resp_len as usize + (9 + rec) * (r.resp_chunks as usize + 2);
        }
        b.max(128).max(up.min(down))
    } else if case.tls {
        // below a TLS record header the TLS stack itself stalls (iomodel's TLS pair leg)
        b.max(64)
    } else {
        b
    }
}

pub fn request_version(case: &NetCase, spec: &ReqSpec) -> http::Version {
    let srv = spec.server as usize % case.servers.len();
    match case.servers[srv] % 3 {
        0 => http::Version::HTTP_11,
        1 => http::Version::HTTP_2,
        _ => {
            if spec.h2 {
                http::Version::HTTP_2
            } else {
                http::Version::HTTP_11
            }
        }
    }
}

fn build_request(case: &NetCase, id: usize, spec: &ReqSpec) -> http::Request<ChunkBody> {
    let srv = spec.server as usize % case.servers.len();
    let data: Vec<u8> = (0..spec.body_len as usize).map(|i| req_byte(id, i)).collect();
    if is_upgrade(case, spec) {
        let (p, q) = target_of(id, spec.target);
        return http::Request::builder()
            .method(METHODS[spec.method as usize % METHODS.len()])
            .version(http::Version::HTTP_11)
            .uri(match q {
                Some(q) => format!("{}://{}{p}?{q}", scheme_of(case.tls), authority_of(case.tls, case.same_host, srv)),
                None => format!("{}://{}{p}", scheme_of(case.tls), authority_of(case.tls, case.same_host, srv)),
            })
            .header("x-id", id)
            .header("x-keep", format!("v{id}"))
            .header(http::header::CONNECTION, "upgrade")
            .header(http::header::UPGRADE, UPGRADE_PROTO)
            .body(ChunkBody::default())
            .map(|mut r| {
                for (n, v) in extra_headers(id, spec.hdrs, 0) {
                    r.headers_mut().append(n, http::HeaderValue::from_bytes(&v).unwrap());
                }
                r
            })
            .unwrap();
    }
    let connect = is_connect(case, spec);
    let data = if connect { vec![] } else { data };
    http::Request::builder()
        .method(if connect { "CONNECT" } else { METHODS[spec.method as usize % METHODS.len()] })
        .version(match request_version(case, spec) {
            http::Version::HTTP_11 if spec.ver10 => http::Version::HTTP_10,
            v => v,
        })
        .uri({
            let (p, q) = target_of(id, spec.target);
            match q {
                Some(q) => format!("{}://{}{p}?{q}", scheme_of(case.tls), authority_of(case.tls, case.same_host, srv)),
                None => format!("{}://{}{p}", scheme_of(case.tls), authority_of(case.tls, case.same_host, srv)),
            }
        })
        .header("x-id", id)
        .header("x-keep", format!("v{id}"))
        // hyper's HTTP/1 client does not send a body of unknown length with GET (chunked encoding is
        // not used for GET/HEAD/CONNECT), so GET bodies always carry an exact size hint
        .body(ChunkBody::new(data, spec.body_chunks as usize, spec.body_gap as u64, spec.exact_hint || connect || spec.method as usize % METHODS.len() == 0))
        .map(|mut r| {
            // a followed redirect filters credentials and rebuilds the request: no generated headers there
            for (n, v) in extra_headers(id, if redirect_target(case, spec).is_some() { 0 } else { spec.hdrs }, 0) {
                r.headers_mut().append(n, http::HeaderValue::from_bytes(&v).unwrap());
            }
            r
        })
        .unwrap()
}

async fn run_request(svc: ClientSvc, req: http::Request<ChunkBody>, id: usize, resp_len: usize, hdrs: u8, upgrade: Option<ReqSpec>, obs: O) -> ClientOutcome {
    let first = svc.oneshot(req).await;
    {
        let now = obs.lock().unwrap().now();
        obs.lock().unwrap().resolved_at.insert(id, now);
    }
    match first {
        Err(e) => ClientOutcome::Err(format!("{e}")),
        Ok(resp) if upgrade.is_some() && resp.status() == http::StatusCode::SWITCHING_PROTOCOLS => {
            let spec = upgrade.unwrap();
            let hdr = |n: &str| resp.headers().get(n).and_then(|v| v.to_str().ok()).and_then(|v| v.parse::<usize>().ok());
            let (id_hdr, origin_hdr, conn) = (hdr("x-id"), hdr("x-origin"), hdr("x-conn"));
            let hdr_problem = extra_headers_problem(resp.headers(), id, hdrs, 1);
            match hyper::upgrade::on(resp).await {
                Err(e) => ClientOutcome::BodyErr(format!("client-side upgrade failed: {e}")),
                Ok(up) => match upgraded_client_half(hyperdriver::bridge::io::TokioIo::new(up), id, &spec).await {
                    Ok((body_ok, body_len)) => ClientOutcome::Ok { status: 101, id_hdr, origin_hdr, conn, body_ok, body_len, hdr_problem },
                    Err(e) => ClientOutcome::BodyErr(e),
                },
            }
        }
        Ok(resp) => {
            let (parts, body) = resp.into_parts();
            let hdr = |n: &str| parts.headers.get(n).and_then(|v| v.to_str().ok()).and_then(|v| v.parse::<usize>().ok());
            match body.collect().await {
                Err(e) => ClientOutcome::BodyErr(format!("{e}")),
                Ok(c) => {
                    let b = c.to_bytes();
                    let body_ok = b.len() == resp_len && b.iter().enumerate().all(|(i, x)| *x == resp_byte(id, i));
                    ClientOutcome::Ok { status: parts.status.as_u16(), id_hdr: hdr("x-id"), origin_hdr: hdr("x-origin"), conn: hdr("x-conn"), body_ok, body_len: b.len(), hdr_problem: extra_headers_problem(&parts.headers, id, hdrs, 1) }
                }
            }
        }
    }
}

async fn run_fault(client: DuplexClient, f: FaultSpec, obs: O, tls: bool) {
    use tokio::io::{AsyncReadExt, AsyncWriteExt};
    let log = |s: String| obs.lock().unwrap().fault_log.push(s);
    // over TLS, half of the byte-level faults happen *inside* a TLS session: the client completes the
    // handshake, sends its bytes and says goodbye (close_notify) in one go, keeping the transport open
    if tls && matches!(f.kind % 11, 2 | 3 | 4 | 6) && f.arg & 0x4000 != 0 {
        if let Ok(s) = client.connect(4096).await {
            let connector = tokio_rustls::TlsConnector::from(Arc::new(TLS_CONFIGS.with(|c| c.1.clone())));
            let name = rustls::pki_types::ServerName::try_from("example.com").unwrap();
            if let Ok(Ok(mut t)) = tokio::time::timeout(Duration::from_secs(2), connector.connect(name, s)).await {
                let bytes: Vec<u8> = match f.kind % 11 {
                    2 => (0..(f.arg % 200 + 1)).map(|i| (i as u8).wrapping_mul(37).wrapping_add(0x80)).collect(),
                    3 => b"GET /fault/truncated HTTP/1.1\r\nhos".to_vec(),
                    4 => b"POST /fault/body HTTP/1.1\r\nhost: x\r\ncontent-length: 100\r\n\r\n0123456789".to_vec(),
                    _ => b"PRI * HTTP/2.0\r\n\r\nSM\r\n\r\n"[..(f.arg as usize % 23 + 1)].to_vec(),
                };
                let _ = t.write_all(&bytes).await;
                let _ = t.shutdown().await;
                log(format!("inside a TLS session: {} bytes of fault kind {}, then close_notify", bytes.len(), f.kind % 11));
                tokio::time::sleep(Duration::from_millis(40)).await;
            }
        }
        return;
    }
    match f.kind % 11 {
        0 => {
            // cancelled connect: the request is queued, the connecting future dropped before the ack
            let fut = client.connect(1024);
            tokio::pin!(fut);
            let polled = futures_util::poll!(fut.as_mut());
            log(format!("cancelled connect (first poll pending={})", polled.is_pending()));
        }
        1 => {
            if let Ok(s) = client.connect(1024).await {
                drop(s);
                log("immediate disconnect".into());
            }
        }
        2 => {
            if let Ok(mut s) = client.connect(1024).await {
                let garbage: Vec<u8> = (0..(f.arg % 200 + 1)).map(|i| (i as u8).wrapping_mul(37).wrapping_add(0x80)).collect();
                let _ = s.write_all(&garbage).await;
                tokio::time::sleep(Duration::from_millis(3)).await;
                log(format!("garbage {} bytes", garbage.len()));
            }
        }
        3 => {
            if let Ok(mut s) = client.connect(1024).await {
                let _ = s.write_all(b"GET /fault/truncated HTTP/1.1\r\nhos").await;
                tokio::time::sleep(Duration::from_millis(2)).await;
                log("truncated head".into());
            }
        }
        4 => {
            if let Ok(mut s) = client.connect(1024).await {
                let _ = s.write_all(b"POST /fault/body HTTP/1.1\r\nhost: x\r\ncontent-length: 100\r\n\r\n0123456789").await;
                tokio::time::sleep(Duration::from_millis(2)).await;
                log("truncated body".into());
            }
        }
        5 => {
            if let Ok(mut s) = client.connect(64).await {
                let _ = s.write_all(b"GET /fault/large HTTP/1.1\r\nhost: x\r\n\r\n").await;
                let mut b = [0u8; 8];
                let _ = tokio::time::timeout(Duration::from_millis(5), s.read(&mut b)).await;
                log("disconnect mid response".into());
            }
        }
        6 => {
            if let Ok(mut s) = client.connect(1024).await {
                let _ = s.write_all(&b"PRI * HTTP/2.0\r\n\r\nSM\r\n\r\n"[..(f.arg as usize % 23 + 1)]).await;
                tokio::time::sleep(Duration::from_millis(2)).await;
                log("partial preface".into());
            }
        }
        8 => {
            // a client that asks for a degenerate pipe (0 or 1 bytes) and then tries to talk
            let size = (f.arg % 2) as usize;
            if let Ok(mut s) = client.connect(size).await {
                let _ = tokio::time::timeout(Duration::from_millis(3), s.write_all(b"GET /fault/tiny HTTP/1.1\r\nhost: x\r\n\r\n")).await;
                log(format!("client asked for a {size}-byte pipe"));
            } else {
                log(format!("connect with a {size}-byte pipe was refused"));
            }
        }
        10 if tls => log("pipelining client skipped (TLS listener)".into()),
        10 => {
            // HTTP/1 pipelining: two requests in one write, the first one slow; reads until the server closes
            if let Ok(mut s) = client.connect(4096).await {
                let d = f.arg % 40;
                let req = format!("GET /fault/pipe/{d}/1 HTTP/1.1\r\nhost: x\r\n\r\nGET /fault/pipe/0/2 HTTP/1.1\r\nhost: x\r\n\r\n");
                let _ = s.write_all(req.as_bytes()).await;
                let mut got = vec![];
                let mut b = [0u8; 512];
                loop {
                    match tokio::time::timeout(Duration::from_millis(3000), s.read(&mut b)).await {
                        Ok(Ok(n)) if n > 0 => got.extend_from_slice(&b[..n]),
                        _ => break,
                    }
                }
                let now = obs.lock().unwrap().now();
                log(format!("pipelining client (first request slow by {d} ms) received {} bytes until {now} ms", got.len()));
                obs.lock().unwrap().pipe_received.push((f.server as usize, got, now));
            }
        }
        9 => {
            // a crowd: many clients connect in the same instant and hang up at once
            let n = f.arg as usize % 64 + 2;
            let mut set = tokio::task::JoinSet::new();
            for _ in 0..n {
                let client = client.clone();
                set.spawn(async move { client.connect(1024).await.is_ok() });
            }
            let mut ok = 0;
            while let Some(r) = set.join_next().await {
                if matches!(r, Ok(true)) {
                    ok += 1;
                }
            }
            log(format!("crowd of {n} clients connected ({ok} accepted) and hung up"));
        }
        _ => {
            // well-behaved but idle: connects, sends a strict prefix of the h2 preface (possibly
            // nothing) and keeps the connection open until the server closes it
            if tls && f.arg & 0x8000 != 0 {
                // over TLS: completes the handshake, then idles the same way inside the session
                if let Ok(s) = client.connect(4096).await {
                    let n = (f.arg & 0x7fff) as usize % 24;
                    let connector = tokio_rustls::TlsConnector::from(Arc::new(TLS_CONFIGS.with(|c| c.1.clone())));
                    let name = rustls::pki_types::ServerName::try_from("example.com").unwrap();
                    match connector.connect(name, s).await {
                        Err(e) => log(format!("TLS holder: handshake failed: {e}")),
                        Ok(mut t) => {
                            let _ = t.write_all(&b"PRI * HTTP/2.0\r\n\r\nSM\r\n\r\n"[..n]).await;
                            let _ = t.flush().await;
                            log(format!("TLS holder completed the handshake, sent {n} preface bytes"));
                            let mut b = [0u8; 64];
                            loop {
                                match t.read(&mut b).await {
                                    Ok(0) | Err(_) => break,
                                    Ok(_) => {}
                                }
                            }
                            let now = obs.lock().unwrap().now();
                            log(format!("TLS holder saw the connection closed at {now} ms"));
                        }
                    }
                }
                return;
            }
            if let Ok(mut s) = client.connect(1024).await {
                let n = (f.arg & 0x7fff) as usize % 24;
                let _ = s.write_all(&b"PRI * HTTP/2.0\r\n\r\nSM\r\n\r\n"[..n]).await;
                log(format!("holder connected, sent {n} preface bytes"));
                let mut b = [0u8; 64];
                loop {
                    match s.read(&mut b).await {
                        Ok(0) | Err(_) => break,
                        Ok(_) => {}
                    }
                }
                let now = obs.lock().unwrap().now();
                log(format!("holder saw the connection closed at {now} ms"));
            }
        }
    }
}

// ------------------------------------------------------------------------------------------------
// simulation

pub const HORIZON_MS: u64 = 4000;

pub fn run_net_case(case: &NetCase) -> Result<Obs, String> {
    let rt = tokio::runtime::Builder::new_current_thread().enable_time().start_paused(true).build().map_err(|e| e.to_string())?;
    let nsrv = case.servers.len().clamp(1, 3);
    let obs: O = Arc::new(Mutex::new(Obs {
        accepted: vec![vec![]; nsrv],
        server_done: vec![None; nsrv],
        conn_spawned: vec![0; nsrv],
        conn_finished: vec![0; nsrv],
        ..Default::default()
    }));
    let case = case.clone();
    let obs_out = obs.clone();
    SIM_DEADLINE.with(|c| c.set(Some(std::time::Instant::now() + std::time::Duration::from_secs(5))));
    SIM_POLLS.with(|c| c.set(0));
    SIM_BUDGET_HIT.with(|c| c.set(false));
    let res = std::panic::catch_unwind(std::panic::AssertUnwindSafe(|| {
        rt.block_on(async move {
            obs.lock().unwrap().t0 = Some(Instant::now());
            let mut routes = vec![];
            let mut servers = vec![];
            for s in 0..nsrv {
                let (client, incoming) = hyperdriver::stream::duplex::pair();
                routes.push(client);
                let ctx = Arc::new(SrvCtx { obs: obs.clone(), server: s, reqs: case.reqs.clone(), upgrades: case.reqs.iter().map(|r| is_upgrade(&case, r)).collect(), redirects: case.reqs.iter().map(|r| redirect_target(&case, r)).collect(), connects: case.reqs.iter().map(|r| is_connect(&case, r)).collect(), same_host: case.same_host, tls: case.tls, handler_not_ready: (case.transport_not_ready / 3) % 3 });
                let shutdown = case.shutdown.filter(|(srv, _)| *srv as usize % nsrv == s).map(|(_, ms)| ms as u64);
                let on_acc = shutdown.and(case.shutdown_on_accept).map(|k| k as usize);
                let base = hyperdriver::Server::builder::<hyperdriver::Body>().with_incoming(incoming);
                let base = if case.tls { base.with_tls(TLS_CONFIGS.with(|c| c.0.clone())) } else { base };
                let h = match case.servers[s] % 3 {
                    0 => start_server!(base.with_http1(), ctx, obs.clone(), s, shutdown, on_acc, case.hold_server_future, case.graceful_never),
                    1 => start_server!(base.with_http2(), ctx, obs.clone(), s, shutdown, on_acc, case.hold_server_future, case.graceful_never),
                    _ => start_server!(base.with_auto_http(), ctx, obs.clone(), s, shutdown, on_acc, case.hold_server_future, case.graceful_never),
                };
                servers.push(h);
            }
            let routes = Arc::new(routes);
            let dials = Arc::new(AtomicUsize::new(0));
            let svc = build_client(&case, routes.clone(), dials.clone());

            let mut tasks = vec![];
            for (id, spec) in case.reqs.iter().enumerate() {
                let svc = svc.clone();
                let spec = spec.clone();
                let case2 = case.clone();
                let obs = obs.clone();
                tasks.push(tokio::spawn(async move {
                    tokio::time::sleep(Duration::from_millis(spec.start as u64)).await;
                    let req = build_request(&case2, id, &spec);
                    let up = if is_upgrade(&case2, &spec) { Some(spec.clone()) } else { None };
                    let fut = run_request(svc, req, id, spec.resp_len as usize, spec.hdrs, up, obs.clone());
                    let outcome = match spec.cancel_at {
                        Some(c) => {
                            let d = (c as u64).saturating_sub(spec.start as u64);
                            match tokio::time::timeout(Duration::from_millis(d), fut).await {
                                Ok(o) => o,
                                Err(_) => ClientOutcome::Cancelled,
                            }
                        }
                        None => fut.await,
                    };
                    let now = obs.lock().unwrap().now();
                    obs.lock().unwrap().client.insert(id, (outcome, now));
                }));
            }
            for f in case.faults.iter() {
                let client = routes[f.server as usize % nsrv].clone();
                let f = f.clone();
                let obs = obs.clone();
                tokio::spawn(async move {
                    tokio::time::sleep(Duration::from_millis(f.at as u64)).await;
                    run_fault(client, f, obs, case.tls).await;
                });
            }
            tokio::time::sleep(Duration::from_millis(HORIZON_MS)).await;
            for (id, t) in tasks.iter().enumerate() {
                if !t.is_finished() {
                    let now = obs.lock().unwrap().now();
                    obs.lock().unwrap().client.insert(id, (ClientOutcome::Pending, now));
                    t.abort();
                }
            }
            {
                let mut o = obs.lock().unwrap();
                o.conn_at_horizon = (0..nsrv).map(|s| (o.conn_spawned[s], o.conn_finished[s])).collect();
            }
            // probes: a fresh client, one well-behaved request per server
            let probe_case = NetCase { pool: None, connect_delay: 0, latency: 0, buf: 4096, timeout_ms: None, builder_order: 0, ..case.clone() };
            let probe_svc = build_client(&probe_case, routes.clone(), Arc::new(AtomicUsize::new(0)));
            for s in 0..nsrv {
                let version = if case.servers[s] % 3 == 1 { http::Version::HTTP_2 } else { http::Version::HTTP_11 };
                let req = http::Request::builder()
                    .method("GET")
                    .version(version)
                    .uri(format!("{}://{}/probe", scheme_of(case.tls), authority_of(case.tls, case.same_host, s)))
                    .body(ChunkBody::default())
                    .unwrap();
                let fut = async {
                    match probe_svc.clone().oneshot(req).await {
                        Err(e) => ClientOutcome::Err(format!("{e}")),
                        Ok(resp) => {
                            let status = resp.status().as_u16();
                            match resp.into_body().collect().await {
                                Ok(_) => ClientOutcome::Ok { status, id_hdr: None, origin_hdr: None, conn: None, body_ok: true, body_len: 0, hdr_problem: None },
                                Err(e) => ClientOutcome::BodyErr(format!("{e}")),
                            }
                        }
                    }
                };
                let out = match tokio::time::timeout(Duration::from_millis(1000), fut).await {
                    Ok(o) => o,
                    Err(_) => ClientOutcome::Pending,
                };
                obs.lock().unwrap().probes.push((s, out));
            }
            obs.lock().unwrap().dials = dials.load(Ordering::SeqCst);
            // let connection tasks settle after the clients are gone
            drop(svc);
            drop(probe_svc);
            tokio::time::sleep(Duration::from_millis(200)).await;
            for h in servers {
                h.abort();
            }
            for _ in 0..5 {
                tokio::task::yield_now().await;
            }
        })
    }));
    drop(rt);
    if SIM_BUDGET_HIT.with(|c| c.get()) {
        // inconclusive, whatever the tasks that swallowed the guard's panic made of it
        return Err(SIM_BUDGET_MSG.to_string());
    }
    match res {
        Ok(()) => {
            let mut o = obs_out.lock().unwrap();
            Ok(std::mem::take(&mut *o))
        }
        Err(_) => Err(format!("panic during simulation at {}: {}", crate::panichook::last_location(), crate::panichook::last_message())),
    }
}

// ------------------------------------------------------------------------------------------------
// generators

pub fn req_strategy(nsrv: u8, allow_cancel: bool, allow_error: bool) -> impl proptest::strategy::Strategy<Value = ReqSpec> {
    use proptest::prelude::*;
    (
        (0..nsrv, any::<bool>(), 0u8..6, prop_oneof![2 => Just(0u8), 3 => any::<u8>()], prop_oneof![5 => Just(false), 1 => Just(true)], prop_oneof![9 => Just(false), 1 => Just(true)]),
        prop_oneof![2 => 0u16..6, 2 => 0u16..40, 1 => 40u16..120],
        (prop_oneof![2 => Just(0u16), 2 => 1u16..300, 1 => 300u16..20000], 1u8..6, prop_oneof![3 => Just(0u8), 1 => 1u8..4], any::<bool>()),
        prop_oneof![2 => Just(0u8), 2 => 1u8..12, 1 => 12u8..40],
        (prop_oneof![1 => Just(0u16), 2 => 1u16..300, 1 => 300u16..20000], 1u8..6, prop_oneof![3 => Just(0u8), 1 => 1u8..4]),
        if allow_cancel { prop_oneof![4 => Just(None), 1 => (0u16..80).prop_map(Some)].boxed() } else { Just(None).boxed() },
        if allow_error { prop_oneof![9 => Just(false), 1 => Just(true)].boxed() } else { Just(false).boxed() },
        prop_oneof![3 => Just(0u8), 2 => Just(1u8), 1 => Just(2u8), 2 => Just(3u8)],
    )
        .prop_map(|((server, h2, method, hdrs, ver10, connect), start, (body_len, body_chunks, body_gap, exact_hint), handler_delay, (resp_len, resp_chunks, resp_gap), cancel, handler_error, target)| ReqSpec {
            server,
            h2,
            method,
            start,
            body_len,
            body_chunks,
            body_gap,
            exact_hint,
            handler_delay,
            resp_len,
            resp_chunks,
            resp_gap,
            cancel_at: cancel.map(|c| start + c),
            handler_error,
            target,
            upgrade: false,
            hdrs,
            redirect: None,
            ver10,
            connect,
        })
}

pub fn env_strategy() -> impl proptest::strategy::Strategy<Value = (Option<NetPool>, u8, u8, u32)> {
    use proptest::prelude::*;
    (
        prop_oneof![1 => Just(None), 5 => (prop_oneof![Just(0u8), Just(1), Just(2), Just(32)], any::<bool>()).prop_map(|(max_idle, cont)| Some(NetPool { max_idle, cont }))],
        prop_oneof![2 => Just(0u8), 2 => 1u8..6],
        prop_oneof![3 => Just(0u8), 1 => 1u8..3],
        prop_oneof![1 => Just(1u32), 1 => 2u32..64, 2 => 64u32..2048, 2 => Just(65536u32)],
    )
}
