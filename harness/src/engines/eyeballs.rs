//! E4 `eyeballs` (C10, C11): the crate-private `EyeballSet` (via the verif-hooks re-export) driven by
//! scripted attempts in virtual time, compared with (1) necessary conditions written directly from the
//! property statements (tie tolerant) and (2) an independent discrete-event reference, which must be
//! matched exactly whenever no cross-kind tie occurs.
#![allow(dead_code)]

use std::future::Future;
use std::pin::Pin;
use std::sync::{Arc, Mutex};
use std::time::Duration;

use hyperdriver::verif_hooks::{EyeballSet, HappyEyeballsError};
use serde::{Deserialize, Serialize};
use tokio::time::Instant;

use crate::common::{CaseReport, Engine};

#[derive(Clone, Copy, Debug, PartialEq, Eq, Serialize, Deserialize)]
pub enum Out {
    Ok,
    Err,
    Never,
}

#[derive(Clone, Debug, Serialize, Deserialize, PartialEq)]
pub struct EyeCase {
    /// (outcome, latency ms)
    pub atts: Vec<(Out, u64)>,
    pub delay: Option<u64>,
    pub timeout: Option<u64>,
    pub conc: Option<usize>,
    /// the set is used a second time: it first finishes once while empty (no-progress), virtual time
    /// passes, then the attempts are pushed and it finishes again - a fresh use as far as the
    /// statements go (full deadline, same pacing)
    #[serde(default)]
    pub reuse: Option<u16>,
    /// how the candidates reach the set: 0 `push` one by one, 1 one `extend` call, 2 the first half
    /// pushed and the rest extended; +4: the set is awaited through its `IntoFuture` impl instead of
    /// `finish()` - every public way in and out obeys the same statements
    #[serde(default)]
    pub feed: u8,
}

#[derive(Debug, PartialEq, Clone)]
pub enum Res {
    Ok(usize),
    Err(usize),
    Timeout,
    NoProgress,
    Hang,
}

#[derive(Debug, Clone)]
pub struct Observed {
    pub res: Res,
    pub at: Option<u64>,
    /// per attempt: (first poll time ms, global start sequence number)
    pub starts: Vec<Option<(u64, usize)>>,
    pub started_twice: bool,
}

#[derive(Debug, Clone)]
pub struct Reference {
    pub res: Res,
    pub at: Option<u64>,
    pub starts: Vec<Option<u64>>,
    pub tie: bool,
}

/// Independent discrete-event simulation written from the statements of C10/C11:
/// initial batch; then one more start per stagger tick, per failure, or when nothing is running;
/// first success wins; failure only when all were tried and failed (first observed error);
/// the deadline wraps everything.
pub fn reference(c: &EyeCase) -> Reference {
    let n = c.atts.len();
    let mut starts: Vec<Option<u64>> = vec![None; n];
    let mut tie = false;
    let mut now = 0u64;
    let mut next = 0usize;
    let mut consumed = vec![false; n];
    let mut first_err: Option<usize> = None;
    let init = c.conc.unwrap_or(n).min(n);
    for _ in 0..init {
        starts[next] = Some(0);
        next += 1;
    }
    let deadline = c.timeout;
    let comp = |i: usize, starts: &Vec<Option<u64>>| -> Option<u64> {
        match (starts[i], c.atts[i].0) {
            (Some(s), Out::Ok) | (Some(s), Out::Err) => Some(s + c.atts[i].1),
            _ => None,
        }
    };
    let finish = |r: Res, t: u64, starts: Vec<Option<u64>>, tie: bool| -> Reference {
        match deadline {
            Some(d) if t > d => Reference {
                res: Res::Timeout,
                at: Some(d),
                starts: starts.iter().map(|s| s.filter(|s| *s <= d)).collect(),
                tie,
            },
            Some(d) if t == d && !matches!(r, Res::NoProgress) && t > 0 => Reference { res: r, at: Some(t), starts, tie: true },
            _ => Reference { res: r, at: Some(t), starts, tie },
        }
    };
    loop {
        let mut best: Option<(u64, usize)> = None;
        let mut running = 0;
        for i in 0..n {
            if starts[i].is_some() && !consumed[i] {
                running += 1;
                if let Some(t) = comp(i, &starts) {
                    let t = t.max(now);
                    match best {
                        None => best = Some((t, i)),
                        Some((bt, _)) if t < bt => best = Some((t, i)),
                        Some((bt, bi)) if t == bt && c.atts[bi].0 != c.atts[i].0 => tie = true,
                        _ => {}
                    }
                }
            }
        }
        if next < n {
            let tick = c.delay.map(|d| now + d);
            if running == 0 {
                starts[next] = Some(now);
                next += 1;
                continue;
            }
            match (best, tick) {
                (Some((t, i)), Some(tk)) if t <= tk => {
                    if t == tk {
                        tie = true;
                    }
                    now = t;
                    consumed[i] = true;
                    if c.atts[i].0 == Out::Ok {
                        return finish(Res::Ok(i), now, starts, tie);
                    }
                    if first_err.is_none() {
                        first_err = Some(i);
                    }
                    starts[next] = Some(now);
                    next += 1;
                }
                (_, Some(tk)) => {
                    now = tk;
                    starts[next] = Some(now);
                    next += 1;
                }
                (Some((t, i)), None) => {
                    now = t;
                    consumed[i] = true;
                    if c.atts[i].0 == Out::Ok {
                        return finish(Res::Ok(i), now, starts, tie);
                    }
                    if first_err.is_none() {
                        first_err = Some(i);
                    }
                    starts[next] = Some(now);
                    next += 1;
                }
                (None, None) => {
                    return match deadline {
                        Some(d) => Reference { res: Res::Timeout, at: Some(d), starts, tie },
                        None => Reference { res: Res::Hang, at: None, starts, tie },
                    };
                }
            }
            if let Some(d) = deadline {
                if now > d {
                    return Reference {
                        res: Res::Timeout,
                        at: Some(d),
                        starts: starts.iter().map(|s| s.filter(|s| *s <= d)).collect(),
                        tie,
                    };
                }
            }
        } else {
            match best {
                Some((t, i)) => {
                    now = t;
                    consumed[i] = true;
                    if c.atts[i].0 == Out::Ok {
                        return finish(Res::Ok(i), now, starts, tie);
                    }
                    if first_err.is_none() {
                        first_err = Some(i);
                    }
                }
                None => {
                    if running == 0 {
                        return match first_err {
                            Some(e) => finish(Res::Err(e), now, starts, tie),
                            None => finish(Res::NoProgress, now, starts, tie),
                        };
                    }
                    return match deadline {
                        Some(d) => Reference { res: Res::Timeout, at: Some(d), starts, tie },
                        None => Reference { res: Res::Hang, at: None, starts, tie },
                    };
                }
            }
        }
    }
}

#[derive(Default)]
struct Obs {
    starts: Vec<Option<(u64, usize)>>,
    seq: usize,
    twice: bool,
}

type AttFut = Pin<Box<dyn Future<Output = Result<usize, usize>> + Send>>;

pub async fn run_impl(c: &EyeCase) -> Observed {
    let obs = Arc::new(Mutex::new(Obs { starts: vec![None; c.atts.len()], seq: 0, twice: false }));
    let mut set: EyeballSet<AttFut, usize, usize> = EyeballSet::new(
        c.delay.map(Duration::from_millis),
        c.timeout.map(Duration::from_millis),
        c.conc,
    );
    if let Some(pause) = c.reuse {
        let _ = set.finish().await;
        tokio::time::sleep(Duration::from_millis(pause as u64)).await;
    }
    let t0 = Instant::now();
    let mut futs: Vec<AttFut> = vec![];
    for (i, (o, lat)) in c.atts.iter().cloned().enumerate() {
        let obs = obs.clone();
        futs.push(Box::pin(async move {
            {
                let mut ob = obs.lock().unwrap();
                let s = ob.seq;
                ob.seq += 1;
                if ob.starts[i].is_some() {
                    ob.twice = true;
                }
                ob.starts[i] = Some((t0.elapsed().as_millis() as u64, s));
            }
            match o {
                Out::Never => {
                    std::future::pending::<()>().await;
                    unreachable!()
                }
                _ => {
                    tokio::time::sleep(Duration::from_millis(lat)).await;
                    if o == Out::Ok {
                        Ok(i)
                    } else {
                        Err(i)
                    }
                }
            }
        }) as AttFut);
    }
    match c.feed % 4 {
        1 => set.extend(futs),
        2 => {
            let rest = futs.split_off(futs.len() / 2);
            for f in futs {
                set.push(f);
            }
            set.extend(rest);
        }
        _ => {
            for f in futs {
                set.push(f);
            }
        }
    }
    // a virtual guard far beyond every latency/deadline turns "never completes" into an observation
    let r = if c.feed & 4 != 0 {
        tokio::time::timeout(Duration::from_secs(3600), std::future::IntoFuture::into_future(set)).await
    } else {
        tokio::time::timeout(Duration::from_secs(3600), set.finish()).await
    };
    let t = t0.elapsed().as_millis() as u64;
    let ob = obs.lock().unwrap();
    let starts = ob.starts.clone();
    let twice = ob.twice;
    match r {
        Err(_) => Observed { res: Res::Hang, at: None, starts, started_twice: twice },
        Ok(Ok(i)) => Observed { res: Res::Ok(i), at: Some(t), starts, started_twice: twice },
        Ok(Err(HappyEyeballsError::Error(e))) => Observed { res: Res::Err(e), at: Some(t), starts, started_twice: twice },
        Ok(Err(HappyEyeballsError::Timeout(_))) => Observed { res: Res::Timeout, at: Some(t), starts, started_twice: twice },
        Ok(Err(HappyEyeballsError::NoProgress)) => Observed { res: Res::NoProgress, at: Some(t), starts, started_twice: twice },
        Ok(Err(_)) => Observed { res: Res::Hang, at: Some(t), starts, started_twice: twice },
    }
}

pub struct EyeEngine {
    /// "C10" or "C11"
    pub prop: &'static str,
}

impl Engine for EyeEngine {
    type Case = EyeCase;
    fn name(&self) -> &'static str {
        "eyeballs"
    }
    fn run_case(&self, c: &EyeCase) -> CaseReport {
        let mut rep = CaseReport::default();
        let rt = tokio::runtime::Builder::new_current_thread().enable_time().start_paused(true).build().unwrap();
        let ob = rt.block_on(run_impl(c));
        drop(rt);
        let rf = reference(c);
        let n = c.atts.len();
        let zero_lat = c.atts.iter().any(|(o, l)| *o != Out::Never && *l == 0);
        let tie = rf.tie || zero_lat;
        let start = |i: usize| ob.starts[i].map(|s| s.0);
        let comp = |i: usize| -> Option<u64> {
            match (start(i), c.atts[i].0) {
                (Some(s), Out::Ok) | (Some(s), Out::Err) => Some(s + c.atts[i].1),
                _ => None,
            }
        };
        let deadline = c.timeout;
        let describe = || format!("case {c:?}: observed {:?} at {:?} starts {:?}; reference {:?} at {:?} starts {:?} tie={}", ob.res, ob.at, ob.starts, rf.res, rf.at, rf.starts, tie);

        if self.prop == "C10" {
            match &ob.res {
                Res::Ok(v) => {
                    let v = *v;
                    if v >= n || c.atts[v].0 != Out::Ok || start(v).is_none() {
                        rep.violate("C10/ok-from-wrong-attempt", format!("returned value of an attempt that was not started or not scripted to succeed; {}", describe()));
                    } else {
                        if comp(v) != ob.at {
                            rep.violate("C10/ok-at-wrong-instant", format!("success reported at {:?} but attempt {v} completes at {:?}; {}", ob.at, comp(v), describe()));
                        }
                        for j in 0..n {
                            if j != v && c.atts[j].0 == Out::Ok {
                                if let (Some(cj), Some(cv)) = (comp(j), comp(v)) {
                                    if cj < cv {
                                        rep.violate("C10/not-first-success", format!("attempt {j} succeeded at {cj}, strictly before the returned attempt {v} ({cv}); {}", describe()));
                                    }
                                }
                            }
                        }
                    }
                }
                Res::Err(e) => {
                    let e = *e;
                    let all_started = (0..n).all(|i| start(i).is_some());
                    let all_err = c.atts.iter().all(|(o, _)| *o == Out::Err);
                    if !all_started || !all_err {
                        rep.violate("C10/failure-before-all-candidates-failed", format!("failure reported although not every candidate was tried and failed; {}", describe()));
                    } else {
                        let min = (0..n).filter_map(comp).min();
                        if e >= n || comp(e) != min {
                            rep.violate("C10/not-first-failure", format!("reported error of attempt {e} (fails at {:?}) but the first failure is at {min:?}; {}", comp(e), describe()));
                        }
                        let max = (0..n).filter_map(comp).max();
                        if ob.at < max {
                            rep.violate("C10/failure-before-all-candidates-failed", format!("failure reported at {:?} before the last candidate failed ({max:?}); {}", ob.at, describe()));
                        }
                    }
                }
                Res::Timeout => match deadline {
                    None => rep.violate("C10/timeout-without-deadline", describe()),
                    Some(d) => {
                        if ob.at.map(|t| t < d).unwrap_or(true) {
                            rep.violate("C10/timeout-before-deadline", describe());
                        }
                        for j in 0..n {
                            if c.atts[j].0 == Out::Ok {
                                if let Some(cj) = comp(j) {
                                    if cj < d {
                                        rep.violate("C10/timeout-despite-success-before-deadline", format!("attempt {j} succeeded at {cj} < deadline {d}; {}", describe()));
                                    }
                                }
                            }
                        }
                    }
                },
                Res::NoProgress => {
                    if n != 0 {
                        rep.violate("C10/no-progress-with-candidates", describe());
                    } else if ob.at != Some(0) {
                        rep.violate("C10/no-progress-not-immediate", describe());
                    }
                }
                Res::Hang => {
                    if deadline.is_some() {
                        rep.violate("C10/hang-despite-deadline", describe());
                    }
                }
            }
            if n == 0 && ob.res != Res::NoProgress && !(deadline == Some(0)) {
                rep.violate("C10/empty-set-not-no-progress", describe());
            }
            // completeness: a started candidate that accepts strictly before the deadline ⇒ success
            let ok_in_time = (0..n).any(|j| c.atts[j].0 == Out::Ok && comp(j).map(|cj| deadline.map(|d| cj < d).unwrap_or(true)).unwrap_or(false));
            if ok_in_time && !matches!(ob.res, Res::Ok(_)) {
                rep.violate("C10/success-missed", format!("a started candidate accepts before the deadline but the result is {:?}; {}", ob.res, describe()));
            }
            if !tie && (ob.res != rf.res || ob.at != rf.at) {
                rep.violate("C10/differs-from-reference", describe());
            }
            if ob.res == Res::Hang && n > 0 && (0..n).all(|i| start(i).is_some()) && c.atts.iter().all(|(o, _)| *o == Out::Err) {
                rep.violate("C10/no-result-after-all-candidates-failed", describe());
            }
        }

        if self.prop == "C11" {
            if ob.started_twice {
                rep.violate("C11/candidate-started-twice", describe());
            }
            // order: start sequence numbers increase with candidate index, no gaps in the prefix
            let mut last: Option<usize> = None;
            let mut seen_none = false;
            for i in 0..n {
                match ob.starts[i] {
                    Some((_, s)) => {
                        if seen_none {
                            rep.violate("C11/started-out-of-order", format!("candidate {i} was started although an earlier candidate was not; {}", describe()));
                        }
                        if let Some(l) = last {
                            if s < l {
                                rep.violate("C11/started-out-of-order", format!("candidate {i} started before an earlier candidate; {}", describe()));
                            }
                        }
                        last = Some(s);
                    }
                    None => seen_none = true,
                }
            }
            // initial concurrency
            if !zero_lat && c.delay != Some(0) {
                let at0 = (0..n).filter(|i| start(*i) == Some(0)).count();
                let bound = match c.conc {
                    None => n,
                    Some(k) => k.max(1).min(n),
                };
                if at0 > bound {
                    rep.violate("C11/initial-concurrency-exceeded", format!("{at0} attempts started at t=0, configured initial concurrency {:?}; {}", c.conc, describe()));
                }
            }
            // never earlier: each later start is justified by an elapsed stagger delay, a failure, or idleness
            let init = c.conc.unwrap_or(n).min(n);
            for i in init.max(1)..n {
                let (Some(si), Some(sp)) = (start(i), start(i - 1)) else { continue };
                if si < sp {
                    rep.violate("C11/started-out-of-order", describe());
                    continue;
                }
                let by_delay = c.delay.map(|d| si - sp >= d).unwrap_or(false);
                let by_failure = (0..i).any(|j| c.atts[j].0 == Out::Err && comp(j).map(|cj| cj >= sp && cj <= si).unwrap_or(false));
                let idle = (0..i).all(|j| comp(j).map(|cj| cj <= si).unwrap_or(false));
                if !(by_delay || by_failure || idle) {
                    rep.violate("C11/attempt-started-too-early", format!("candidate {i} started at {si} (previous start {sp}) without an elapsed stagger delay or a failed attempt; {}", describe()));
                }
                // as soon as: not later than the stagger tick while the operation is still running
                if let Some(d) = c.delay {
                    if si > sp + d {
                        rep.violate("C11/attempt-started-too-late", format!("candidate {i} started at {si}, later than the stagger tick {}; {}", sp + d, describe()));
                    }
                }
            }
            // deadline
            if let (Some(d), Some(t)) = (deadline, ob.at) {
                if t > d {
                    rep.violate("C11/deadline-exceeded", describe());
                }
            }
            if deadline.is_some() && ob.at.is_none() {
                rep.violate("C11/deadline-exceeded", describe());
            }
            if !tie {
                let got: Vec<Option<u64>> = (0..n).map(start).collect();
                if got != rf.starts {
                    rep.violate("C11/start-times-differ-from-reference", describe());
                }
            }
        }

        // classes
        let mut times: Vec<u64> = (0..n).filter_map(comp).filter(|t| *t > 0).collect();
        times.sort();
        times.dedup();
        if times.len() >= 2 && (c.delay.map(|d| d > 0).unwrap_or(false) || deadline.map(|d| d > 0).unwrap_or(false)) {
            rep.nontrivial = true;
        }
        if tie {
            rep.class("tie");
        } else {
            rep.class("tie-free");
        }
        match ob.res {
            Res::Ok(_) => rep.class("result-ok"),
            Res::Err(_) => rep.class("result-err"),
            Res::Timeout => rep.class("result-timeout"),
            Res::NoProgress => rep.class("result-noprogress"),
            Res::Hang => rep.class("result-hang"),
        }
        rep.total_ops = n as u64;
        rep
    }
}

pub const LATS: [u64; 7] = [0, 10, 20, 30, 40, 50, 60];
pub const DELAYS: [Option<u64>; 4] = [None, Some(0), Some(13), Some(25)];
pub const TIMEOUTS: [Option<u64>; 4] = [None, Some(0), Some(35), Some(85)];

/// Exhaustive enumeration over the grid for all n <= max_n (latency grid trimmed to `lats`).
pub fn exhaustive(max_n: usize, lats: &[u64]) -> Vec<EyeCase> {
    let mut per: Vec<(Out, u64)> = vec![];
    for o in [Out::Ok, Out::Err] {
        for l in lats {
            per.push((o, *l));
        }
    }
    per.push((Out::Never, 0));
    let mut out = vec![];
    for n in 0..=max_n {
        let mut idx = vec![0usize; n];
        loop {
            let atts: Vec<_> = idx.iter().map(|i| per[*i]).collect();
            for d in DELAYS {
                for t in TIMEOUTS {
                    for conc in std::iter::once(None).chain((0..=n).map(Some)) {
                        out.push(EyeCase { atts: atts.clone(), delay: d, timeout: t, conc, reuse: None, feed: ((out.len() / 3) % 8) as u8 });
                    }
                }
            }
            let mut k = 0;
            loop {
                if k == n {
                    break;
                }
                idx[k] += 1;
                if idx[k] < per.len() {
                    break;
                }
                idx[k] = 0;
                k += 1;
            }
            if k == n {
                break;
            }
        }
    }
    out
}

pub fn random_strategy(max_n: usize, offgrid: bool) -> impl proptest::strategy::Strategy<Value = EyeCase> {
    use proptest::prelude::*;
    let lat = if offgrid {
        prop_oneof![3 => (0usize..7).prop_map(|i| LATS[i]), 1 => 0u64..90].boxed()
    } else {
        (0usize..7).prop_map(|i| LATS[i]).boxed()
    };
    let att = (prop_oneof![4 => Just(Out::Ok), 5 => Just(Out::Err), 2 => Just(Out::Never)], lat)
        .prop_map(|(o, l)| if o == Out::Never { (o, 0) } else { (o, l) });
    let delay = if offgrid {
        prop_oneof![2 => (0usize..4).prop_map(|i| DELAYS[i]), 1 => (1u64..70).prop_map(Some)].boxed()
    } else {
        (0usize..4).prop_map(|i| DELAYS[i]).boxed()
    };
    let timeout = if offgrid {
        prop_oneof![2 => (0usize..4).prop_map(|i| TIMEOUTS[i]), 1 => (1u64..200).prop_map(Some)].boxed()
    } else {
        (0usize..4).prop_map(|i| TIMEOUTS[i]).boxed()
    };
    (proptest::collection::vec(att, 0..=max_n), delay, timeout, prop_oneof![1 => Just(None), 3 => (0usize..=max_n).prop_map(Some)])
        .prop_map(|(atts, delay, timeout, conc)| {
            let n = atts.len();
            EyeCase { atts, delay, timeout, conc: conc.map(|c| c.min(n)), reuse: None, feed: 0 }
        })
}
