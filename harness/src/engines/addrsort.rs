//! E7 `addrsort` (C16): address preference sorting vs an independent specification, plus an
//! end-to-end leg through `TcpTransport` with a scripted resolver and loopback listeners.
#![allow(dead_code)]

use std::net::{IpAddr, Ipv4Addr, Ipv6Addr, SocketAddr};

use hyperdriver::client::conn::dns::IpVersion;
use hyperdriver::verif_hooks;
use serde::{Deserialize, Serialize};

use crate::common::{CaseReport, Engine};

/// (is_v6, host byte, port)
pub type A = (bool, u8, u16);

#[derive(Clone, Debug, Serialize, Deserialize, PartialEq)]
pub struct SortCase {
    pub addrs: Vec<A>,
    /// local binding: (ipv4 bound, ipv6 bound)
    pub bound: (bool, bool),
    pub port: u16,
}

pub fn mk(a: &A) -> SocketAddr {
    if a.0 && a.1 >= 200 {
        // link-local with interface scope and flow label: part of the address like everything else
        SocketAddr::V6(std::net::SocketAddrV6::new(Ipv6Addr::new(0xfe80, 0, 0, 0, 0, 0, 0, a.1 as u16), a.2, (a.1 as u32 - 199) * 17, a.1 as u32 - 198))
    } else if a.0 {
        SocketAddr::new(IpAddr::V6(Ipv6Addr::new(0x2001, 0xdb8, 0, 0, 0, 0, 0, a.1 as u16)), a.2)
    } else {
        SocketAddr::new(IpAddr::V4(Ipv4Addr::new(192, 0, 2, a.1)), a.2)
    }
}

/// Independent specification, written from the property statement.
/// preferred family = IPv6 unless only an IPv4 local address is bound.
pub fn spec_sort(input: &[SocketAddr], bound: (bool, bool)) -> Vec<SocketAddr> {
    let prefer_v6 = !(bound.0 && !bound.1);
    let is_pref = |a: &SocketAddr| a.is_ipv6() == prefer_v6;
    let first_pref = input.iter().position(|a| is_pref(a));
    let first_other = input.iter().position(|a| !is_pref(a));
    let mut out = Vec::with_capacity(input.len());
    if let Some(i) = first_pref {
        out.push(input[i]);
    }
    if let Some(i) = first_other {
        out.push(input[i]);
    }
    for (i, a) in input.iter().enumerate() {
        if Some(i) != first_pref && Some(i) != first_other {
            out.push(*a);
        }
    }
    out
}

pub struct SortEngine;

impl Engine for SortEngine {
    type Case = SortCase;
    fn name(&self) -> &'static str {
        "addrsort"
    }
    fn run_case(&self, case: &SortCase) -> CaseReport {
        let mut rep = CaseReport::default();
        let input: Vec<SocketAddr> = case.addrs.iter().map(mk).collect();
        let v4 = case.bound.0.then_some(Ipv4Addr::LOCALHOST);
        let v6 = case.bound.1.then_some(Ipv6Addr::LOCALHOST);
        let prefer: Option<IpVersion> = verif_hooks::from_binding(v4, v6);

        // preference mapping itself
        let want_pref = match case.bound {
            (true, false) => Some(IpVersion::V4),
            (false, false) => None,
            _ => Some(IpVersion::V6),
        };
        if prefer != want_pref {
            rep.violate(
                "C16/preference-from-binding",
                format!("binding {:?} gives preference {prefer:?}, specification says {want_pref:?}", case.bound),
            );
        }

        let got = verif_hooks::sort_preferred(input.clone(), prefer);
        let want = spec_sort(&input, case.bound);

        // permutation (multiset equality)
        let mut a = input.clone();
        let mut b = got.clone();
        a.sort();
        b.sort();
        if a != b {
            rep.violate(
                "C16/not-a-permutation",
                format!("sorting {input:?} with {prefer:?} gave {got:?}: an address was lost, duplicated or invented"),
            );
        } else if got != want {
            let sig = if got.first() != want.first() {
                "C16/first-address-wrong"
            } else if got.get(1) != want.get(1) {
                "C16/second-address-wrong"
            } else {
                "C16/remainder-order-changed"
            };
            rep.violate(sig, format!("sorting {input:?} with {prefer:?} gave {got:?}, specification gives {want:?}"));
        }

        // set_port
        let ported = verif_hooks::set_port(got.clone(), case.port);
        if ported.len() != got.len()
            || ported.iter().zip(got.iter()).any(|(p, g)| {
                // the same address in everything but the port (scope and flow label of IPv6 included)
                let mut expect = *g;
                expect.set_port(case.port);
                *p != expect || p.ip() != g.ip() || p.port() != case.port
            })
        {
            rep.violate(
                "C16/set-port",
                format!("set_port({}) on {got:?} gave {ported:?}", case.port),
            );
        }

        let has4 = input.iter().any(|a| a.is_ipv4());
        let has6 = input.iter().any(|a| a.is_ipv6());
        if has4 && has6 {
            rep.class("mixed-families");
        }
        if input.len() >= 3 {
            rep.class("len>=3");
        }
        {
            let mut d = input.clone();
            d.sort();
            d.dedup();
            if d.len() < input.len() {
                rep.class("duplicates");
            }
        }
        if got != input {
            rep.class("order-changed");
        }
        rep.nontrivial = has4 && has6 && input.len() >= 3;
        rep.total_ops = input.len() as u64;
        rep
    }
}

/// All family patterns up to `max_len` with distinct addresses, for all four bindings.
pub fn exhaustive_cases(max_len: usize) -> Vec<SortCase> {
    let mut out = vec![];
    for len in 0..=max_len {
        for bits in 0u32..(1 << len) {
            let addrs: Vec<A> = (0..len).map(|i| ((bits >> i) & 1 == 1, i as u8 + 1, 1000 + i as u16)).collect();
            for bound in [(false, false), (true, false), (false, true), (true, true)] {
                out.push(SortCase { addrs: addrs.clone(), bound, port: 8080 });
            }
        }
    }
    out
}

pub fn random_strategy() -> impl proptest::strategy::Strategy<Value = SortCase> {
    use proptest::prelude::*;
    (
        proptest::collection::vec((any::<bool>(), prop_oneof![6 => 0u8..6, 1 => 200u8..203], prop_oneof![Just(0u16), Just(80), Just(443), any::<u16>()]), 0..24),
        (any::<bool>(), any::<bool>()),
        any::<u16>(),
    )
        .prop_map(|(addrs, bound, port)| SortCase { addrs, bound, port })
}

// ------------------------------------------------------------------------------------------------
// end-to-end: TcpTransport + scripted resolver + loopback listeners

#[derive(Clone, Debug, Serialize, Deserialize, PartialEq)]
pub struct E2eCase {
    /// resolver answer: index into the candidate address table
    pub addrs: Vec<u8>,
    /// which table entries have a listener
    pub live: Vec<bool>,
    pub bound: (bool, bool),
    /// bind the wildcard address (0.0.0.0 / ::) instead of the loopback address of that family: it
    /// is a bound local address like any other
    #[serde(default)]
    pub wildcard: (bool, bool),
    /// no per-attempt connect timeout configured (happy eyeballs stays enabled): sorting must not
    /// depend on it
    #[serde(default)]
    pub no_connect_timeout: bool,
    /// table entries (not live) whose listener never answers: backlog 0 with a full accept queue, the
    /// SYN is dropped and the attempt stays in progress. The next address is then tried after the
    /// stagger delay (happy-eyeballs timeout 1.2 s / number of addresses) - in the sorted order.
    #[serde(default)]
    pub hang: Vec<bool>,
    /// the bound local address of that family cannot be assigned on this machine (192.0.2.1 /
    /// 2001:db8::1): every attempt of the family fails while its socket is prepared - a failure of that
    /// one candidate, after which the next address is tried
    #[serde(default)]
    pub unassignable: (bool, bool),
}

/// candidate loopback addresses: three IPv4, one IPv6, two IPv4-mapped IPv6
/// A TCP socket bound to `addr` that never listens: connecting to it is refused, and nobody else can
/// bind the address while it lives.
pub fn bound_unlistened(addr: SocketAddr) -> std::io::Result<socket2::Socket> {
    let domain = if addr.is_ipv4() { socket2::Domain::IPV4 } else { socket2::Domain::IPV6 };
    let s = socket2::Socket::new(domain, socket2::Type::STREAM, None)?;
    s.bind(&addr.into())?;
    Ok(s)
}

pub fn table() -> Vec<IpAddr> {
    vec![
        IpAddr::V4(Ipv4Addr::new(127, 0, 0, 2)),
        IpAddr::V4(Ipv4Addr::new(127, 0, 0, 3)),
        IpAddr::V4(Ipv4Addr::new(127, 0, 0, 4)),
        IpAddr::V6(Ipv6Addr::LOCALHOST),
        IpAddr::V6(Ipv4Addr::new(127, 0, 0, 5).to_ipv6_mapped()),
        IpAddr::V6(Ipv4Addr::new(127, 0, 0, 6).to_ipv6_mapped()),
    ]
}

pub struct ListResolver {
    pub list: Vec<SocketAddr>,
    /// readiness lives in the value that was polled (as with `tower::limit::ConcurrencyLimit`): a clone
    /// starts unready, and - in the strict flavour - `call` without a preceding `poll_ready` on the
    /// same value panics, as such services do
    ready: bool,
    strict: bool,
}
impl Clone for ListResolver {
    fn clone(&self) -> Self {
        ListResolver { list: self.list.clone(), ready: false, strict: self.strict }
    }
}
#[allow(non_snake_case)]
pub fn ListResolver(list: Vec<SocketAddr>) -> ListResolver {
    ListResolver { list, ready: false, strict: false }
}
pub fn strict_resolver(list: Vec<SocketAddr>) -> ListResolver {
    ListResolver { list, ready: false, strict: true }
}
pub const OUT_OF_CONTRACT: &str = "called although poll_ready had not reported ready on this value (tower::Service contract)";

impl tower::Service<Box<str>> for ListResolver {
    type Response = hyperdriver::client::conn::dns::SocketAddrs;
    type Error = std::io::Error;
    type Future = std::future::Ready<Result<Self::Response, Self::Error>>;
    fn poll_ready(&mut self, _: &mut std::task::Context<'_>) -> std::task::Poll<Result<(), Self::Error>> {
        self.ready = true;
        std::task::Poll::Ready(Ok(()))
    }
    fn call(&mut self, _host: Box<str>) -> Self::Future {
        if self.strict && !self.ready {
            panic!("resolver {OUT_OF_CONTRACT}");
        }
        self.ready = false;
        std::future::ready(Ok(self.list.iter().copied().collect()))
    }
}

pub struct E2eEngine;

impl Engine for E2eEngine {
    type Case = E2eCase;
    fn name(&self) -> &'static str {
        "addrsort-e2e"
    }
    fn real_time(&self) -> bool {
        true
    }
    fn run_case(&self, case: &E2eCase) -> CaseReport {
        // A deviating outcome of a run that took long enough for machine load to explain it is not
        // judged on one run: the case is repeated, and only the same deviation three times in a row counts.
        let (rep, slow) = self.run_once(case);
        let Some((key, _)) = slow else { return rep };
        let (rep2, slow2) = self.run_once(case);
        if slow2.as_ref().map(|k| &k.0) != Some(&key) {
            return rep2;
        }
        let (mut rep3, slow3) = self.run_once(case);
        if let Some((k3, desc)) = slow3 {
            if k3 == key {
                rep3.violate("C16/e2e-deviates-repeatedly", format!("three runs in a row: {desc}"));
            }
        }
        rep3
    }
}

impl E2eEngine {
    fn run_once(&self, case: &E2eCase) -> (CaseReport, Option<(String, String)>) {
        let mut rep = CaseReport::default();
        let mut slow_key: Option<(String, String)> = None;
        let rt = tokio::runtime::Builder::new_current_thread().enable_all().build().unwrap();
        let res: Result<(), String> = rt.block_on(async {
            use hyperdriver::client::conn::transport::tcp::{TcpTransport, TcpTransportConfig};
            use hyperdriver::stream::tcp::TcpStream;
            use tower::ServiceExt;
            let tab = table();
            // listeners: all on one port number (the URI port).
            // Dead addresses: a socket that is bound but never listens refuses connections at once and
            // keeps every other test thread and process from opening a listener on that address and
            // port for as long as the case runs (a port that was merely bound and released can be
            // handed out again at any moment: a thorough run once connected to a neighbour's listener).
            let mut listeners: Vec<(usize, tokio::net::TcpListener)> = vec![];
            let mut holders: Vec<socket2::Socket> = vec![];
            let mut fillers: Vec<socket2::Socket> = vec![];
            let hanging = |i: usize| case.hang.get(i).copied().unwrap_or(false) && !case.live.get(i).copied().unwrap_or(false);
            let mut port = 0u16;
            let mut reserved = false;
            'outer: for _attempt in 0..50 {
                listeners.clear();
                holders.clear();
                fillers.clear();
                port = 0;
                if !case.live.iter().take(tab.len()).any(|l| *l) {
                    match bound_unlistened(SocketAddr::new(IpAddr::V4(Ipv4Addr::LOCALHOST), 0)) {
                        Ok(h) => {
                            port = h.local_addr().ok().and_then(|a| a.as_socket()).map(|a| a.port()).unwrap_or(0);
                            holders.push(h);
                        }
                        Err(_) => continue 'outer,
                    }
                }
                // live ones first (the first of them picks the port), then the dead ones
                for pass in 0..2 {
                    for (i, ip) in tab.iter().enumerate() {
                        let live = case.live.get(i).copied().unwrap_or(false);
                        if live != (pass == 0) {
                            continue;
                        }
                        // IPv4-mapped addresses are reached through a plain IPv4 listener
                        let bind_ip = match ip {
                            IpAddr::V6(v6) => match v6.to_ipv4_mapped() {
                                Some(v4) => IpAddr::V4(v4),
                                None => *ip,
                            },
                            _ => *ip,
                        };
                        if live {
                            match tokio::net::TcpListener::bind(SocketAddr::new(bind_ip, port)).await {
                                Ok(l) => {
                                    if port == 0 {
                                        port = l.local_addr().unwrap().port();
                                    }
                                    listeners.push((i, l));
                                }
                                Err(_) => continue 'outer,
                            }
                        } else {
                            match bound_unlistened(SocketAddr::new(bind_ip, port)) {
                                Ok(h) => {
                                    if hanging(i) {
                                        // backlog 0, never accepted: one connection fills the queue, further SYNs are dropped
                                        if h.listen(0).is_err() {
                                            continue 'outer;
                                        }
                                        for _ in 0..4 {
                                            let domain = if bind_ip.is_ipv4() { socket2::Domain::IPV4 } else { socket2::Domain::IPV6 };
                                            if let Ok(f) = socket2::Socket::new(domain, socket2::Type::STREAM, None) {
                                                let _ = f.set_nonblocking(true);
                                                let _ = f.connect(&SocketAddr::new(bind_ip, port).into());
                                                fillers.push(f);
                                            }
                                        }
                                    }
                                    holders.push(h)
                                }
                                Err(_) => continue 'outer,
                            }
                        }
                    }
                }
                reserved = true;
                break;
            }
            if !reserved || port == 0 {
                // the machine is out of matching ports: nothing can be concluded from this case
                rep.class("port-reservation-failed-inconclusive");
                return Ok(());
            }
            // make sure nobody listens on the dead addresses at that port (ours are the only ones)
            let answer: Vec<SocketAddr> = case
                .addrs
                .iter()
                .map(|i| SocketAddr::new(tab[*i as usize % tab.len()], 1))
                .collect();
            let mut cfg = TcpTransportConfig::default();
            let any_hang = (0..tab.len()).any(|i| hanging(i));
            if any_hang {
                // let the filling connections settle in the accept queues
                tokio::time::sleep(std::time::Duration::from_millis(20)).await;
            }
            let he_timeout = if any_hang { std::time::Duration::from_millis(1200) } else { std::time::Duration::from_secs(4) };
            cfg.happy_eyeballs_timeout = Some(he_timeout);
            cfg.happy_eyeballs_concurrency = Some(1);
            cfg.connect_timeout = if case.no_connect_timeout { None } else { Some(std::time::Duration::from_secs(2)) };
            cfg.local_address_ipv4 = case.bound.0.then_some(if case.unassignable.0 { Ipv4Addr::new(192, 0, 2, 1) } else if case.wildcard.0 { Ipv4Addr::UNSPECIFIED } else { Ipv4Addr::LOCALHOST });
            cfg.local_address_ipv6 = case.bound.1.then_some(if case.unassignable.1 { "2001:db8::1".parse().unwrap() } else if case.wildcard.1 { Ipv6Addr::UNSPECIFIED } else { Ipv6Addr::LOCALHOST });
            let transport: TcpTransport<ListResolver, TcpStream> =
                TcpTransport::builder().with_config(cfg).with_resolver(ListResolver(answer.clone())).build();
            let uri: http::Uri = format!("http://verif.test:{port}/").parse().unwrap();
            let parts = http::Request::get(uri).body(()).unwrap().into_parts().0;
            let t_connect = std::time::Instant::now();
            let result = transport.oneshot(parts).await;
            // real sockets, real clock: when the machine is so loaded that the connect took long enough
            // for a stagger tick or a timeout to interfere, a deviating outcome proves nothing
            let elapsed = t_connect.elapsed();

            // expected: first live address of the specified order
            let with_port: Vec<SocketAddr> = answer.iter().map(|a| SocketAddr::new(a.ip(), port)).collect();
            let order = spec_sort(&with_port, case.bound);
            let is_live = |a: &SocketAddr| {
                tab.iter().position(|t| *t == a.ip()).map(|i| case.live.get(i).copied().unwrap_or(false)).unwrap_or(false)
            };
            // a bound local IPv6 address (::1) cannot reach an IPv4-mapped destination and vice
            // versa; such destinations count as dead for the expectation
            let reachable = |a: &SocketAddr| -> bool {
                // an unassignable local address fails every attempt of its family
                if (a.is_ipv4() && case.bound.0 && case.unassignable.0) || (a.is_ipv6() && case.bound.1 && case.unassignable.1) {
                    return false;
                }
                match a.ip() {
                    // (a socket bound to the IPv6 wildcard is dual-stack and does reach them)
                    IpAddr::V6(v6) if v6.to_ipv4_mapped().is_some() => !case.bound.1 || case.wildcard.1,
                    _ => true,
                }
            };
            if (case.bound.0 && case.unassignable.0) || (case.bound.1 && case.unassignable.1) {
                rep.class("unassignable-local-address");
            }
            let is_hang = |a: &SocketAddr| tab.iter().position(|t| *t == a.ip()).map(|i| hanging(i)).unwrap_or(false) && reachable(a);
            let expected = order.iter().find(|a| is_live(a) && reachable(a)).copied();
            // every hanging address in front of the expected one costs one stagger delay
            let stagger = he_timeout / order.len().max(1) as u32;
            let hangs_before = order.iter().take_while(|a| !(is_live(a) && reachable(a))).filter(|a| is_hang(a)).count() as u32;
            let expected_at = stagger * hangs_before;
            let slow = elapsed >= expected_at + std::time::Duration::from_millis(150);
            if hangs_before > 0 && expected.is_some() {
                rep.class("hanging-address-before-the-expected-one");
            }
            match (result, expected) {
                (Ok(stream), Some(exp)) => {
                    let peer = stream.peer_addr().map_err(|e| e.to_string())?;
                    // hyperdriver reports IPv4-mapped peers in canonical (IPv4) form
                    if (peer.ip().to_canonical() != exp.ip().to_canonical() || peer.port() != port) && slow {
                        rep.class("slow-connect-inconclusive");
                        slow_key = Some((
                            format!("connected to {} where {} is expected", peer.ip().to_canonical(), exp.ip().to_canonical()),
                            format!("resolver answer {answer:?}, live {:?}, hanging {:?}, binding {:?}: connected to {peer} after {elapsed:?}, specification order {order:?} expects {exp} after about {expected_at:?}", case.live, case.hang, case.bound),
                        ));
                    } else if peer.ip().to_canonical() != exp.ip().to_canonical() || peer.port() != port {
                        rep.violate(
                            "C16/e2e-wrong-address-connected",
                            format!("resolver answer {answer:?}, live {:?}, binding {:?}: connected to {peer}, specification order {order:?} expects {exp}", case.live, case.bound),
                        );
                    }
                    rep.class("connected");
                }
                (Err(_), None) => {
                    rep.class("all-dead");
                }
                (Ok(stream), None) => {
                    let peer = stream.peer_addr().map_err(|e| e.to_string())?;
                    rep.violate(
                        "C16/e2e-connected-to-dead-address",
                        format!("connected to {peer} although no candidate in {answer:?} is live"),
                    );
                }
                (Err(e), Some(exp)) if slow => {
                    rep.class("slow-connect-inconclusive");
                    slow_key = Some((
                        format!("failed where a connection to {} is expected", exp.ip().to_canonical()),
                        format!("resolver answer {answer:?}, live {:?}, hanging {:?}, binding {:?}: connect failed ({e}) after {elapsed:?} although {exp} of {order:?} is live and due after about {expected_at:?}", case.live, case.hang, case.bound),
                    ));
                }
                (Err(e), Some(exp)) => {
                    rep.violate(
                        "C16/e2e-failed-with-live-candidate",
                        format!("connect failed ({e}) although {exp} of {order:?} is live (port {port})"),
                    );
                }
            }
            let live_n = order.iter().filter(|a| is_live(a)).count();
            rep.nontrivial = answer.len() >= 3 && live_n >= 1 && order.iter().position(|a| is_live(a)).unwrap_or(0) >= 1;
            drop(listeners);
            drop(holders);
            drop(fillers);
            Ok(())
        });
        if let Err(e) = res {
            rep.internal_error = Some(e);
        }
        (rep, slow_key)
    }
}

pub fn e2e_strategy() -> impl proptest::strategy::Strategy<Value = E2eCase> {
    use proptest::prelude::*;
    (
        proptest::collection::vec(0u8..6, 1..7),
        proptest::collection::vec(any::<bool>(), 6),
        (any::<bool>(), any::<bool>()),
        (any::<bool>(), any::<bool>()),
        any::<bool>(),
        prop_oneof![3 => Just(vec![]), 1 => proptest::collection::vec(any::<bool>(), 6)],
        prop_oneof![4 => Just((false, false)), 1 => Just((true, false)), 1 => Just((false, true))],
    )
        .prop_map(|(addrs, live, bound, wildcard, no_connect_timeout, hang, unassignable)| E2eCase { addrs, live, bound, wildcard, no_connect_timeout, hang, unassignable })
}

// ------------------------------------------------------------------------------------------------
// URI port leg: the port the socket is opened to is the port of the request URI - explicit, or the
// scheme's default (80 / 443) - whatever port the resolver's answer carries; through `TcpTransport`
// (happy eyeballs) and `SimpleTcpTransport` (first address). Every case uses a loopback address of
// its own (127.77.x.y), so that listeners on the fixed ports 80 and 443 never collide.

#[derive(Clone, Debug, Serialize, Deserialize, PartialEq)]
pub struct PortCase {
    /// 0 http, 1 https
    pub scheme: u8,
    /// explicit port in the URI (an ephemeral listener port is substituted) or the scheme's default
    pub explicit: bool,
    /// port carried by the resolver's answer (must be ignored)
    pub answer_port: u16,
    /// SimpleTcpTransport (first address of the answer) instead of TcpTransport
    pub simple: bool,
    /// decoy addresses (nobody listens) after the first one in the resolver's answer
    pub extra: u8,
    /// the resolver answers with a *scoped* IPv6 address (link-local with its interface, `fe80::x%n`,
    /// as getaddrinfo and mDNS-style resolvers do): the address that is tried is that address - scope
    /// included - with the port of the URI. Only where the machine has a link-local address; only
    /// `TcpTransport` (the resolver of `SimpleTcpTransport` answers with a bare `IpAddr`).
    #[serde(default)]
    pub scoped: bool,
    /// the host of the URI is an IP literal (1: `127.0.0.250`, 2: `[::1]`) instead of a name: the
    /// configured resolver is asked all the same, and its answer - not the literal - is what is tried
    #[serde(default)]
    pub literal_host: u8,
}

/// A link-local IPv6 address of this machine with its interface index (from /proc/net/if_inet6),
/// if a listener can be bound to it.
pub fn link_local() -> Option<(Ipv6Addr, u32)> {
    static LL: std::sync::OnceLock<Option<(Ipv6Addr, u32)>> = std::sync::OnceLock::new();
    *LL.get_or_init(|| {
        let text = std::fs::read_to_string("/proc/net/if_inet6").ok()?;
        for line in text.lines() {
            let f: Vec<&str> = line.split_whitespace().collect();
            if f.len() < 6 || f[3] != "20" || f[0].len() != 32 {
                continue;
            }
            let Ok(bits) = u128::from_str_radix(f[0], 16) else { continue };
            let Ok(index) = u32::from_str_radix(f[1], 16) else { continue };
            let ip = Ipv6Addr::from(bits);
            if std::net::TcpListener::bind(SocketAddr::V6(std::net::SocketAddrV6::new(ip, 0, 0, index))).is_ok() {
                return Some((ip, index));
            }
        }
        None
    })
}

pub struct PortEngine;

static PORT_CASE_SEQ: std::sync::atomic::AtomicU32 = std::sync::atomic::AtomicU32::new(0);

impl Engine for PortEngine {
    type Case = PortCase;
    fn name(&self) -> &'static str {
        "addrsort-port"
    }
    fn real_time(&self) -> bool {
        true
    }
    fn run_case(&self, c: &PortCase) -> CaseReport {
        use hyperdriver::client::conn::dns::FirstAddrExt;
        use hyperdriver::stream::tcp::TcpStream;
        use hyperdriver::client::conn::transport::tcp::{SimpleTcpTransport, TcpTransport, TcpTransportConfig};
        use tower::ServiceExt;
        let mut rep = CaseReport::default();
        let rt = tokio::runtime::Builder::new_current_thread().enable_all().build().unwrap();
        let res: Result<(), String> = rt.block_on(async {
            let default_port = if c.scheme % 2 == 0 { 80u16 } else { 443 };
            if c.scoped {
                let Some((ll, scope)) = link_local() else {
                    rep.class("no-link-local-address-on-this-machine");
                    return Ok(());
                };
                let target = |port: u16| SocketAddr::V6(std::net::SocketAddrV6::new(ll, port, 0, scope));
                let Ok(listener) = tokio::net::TcpListener::bind(target(0)).await else {
                    rep.class("port-reservation-failed-inconclusive");
                    return Ok(());
                };
                let port = listener.local_addr().map_err(|e| e.to_string())?.port();
                // decoys around it: loopback addresses of both families where the port is held closed
                let mut answer = vec![];
                let mut holders = vec![];
                for k in 0..(c.extra % 3) {
                    let d: IpAddr = if k == 0 { IpAddr::V4(Ipv4Addr::new(127, 0, 0, 2)) } else { IpAddr::V6(Ipv6Addr::LOCALHOST) };
                    if let Ok(h) = bound_unlistened(SocketAddr::new(d, port)) {
                        holders.push(h);
                        answer.push(SocketAddr::new(d, c.answer_port.wrapping_add(1)));
                    }
                }
                // the scoped address first or last in the answer
                if c.scheme / 2 % 2 == 0 {
                    answer.insert(0, target(c.answer_port));
                } else {
                    answer.push(target(c.answer_port));
                }
                let scheme = if c.scheme % 2 == 0 { "http" } else { "https" };
                let uri: http::Uri = format!("{scheme}://scoped.test:{port}/").parse().unwrap();
                let parts = http::Request::get(uri.clone()).body(()).unwrap().into_parts().0;
                let mut cfg = TcpTransportConfig::default();
                cfg.connect_timeout = Some(std::time::Duration::from_secs(2));
                let t: TcpTransport<ListResolver, TcpStream> = TcpTransport::builder().with_config(cfg).with_resolver(ListResolver(answer.clone())).build();
                let result = match t.oneshot(parts).await {
                    Ok(s) => s.peer_addr().map_err(|e| e.to_string()),
                    Err(e) => Err(e.to_string()),
                };
                let desc = format!("{uri} through TcpTransport with the resolver answering {answer:?}; a listener waits on {}", target(port));
                match result {
                    Ok(peer) if peer == target(port) => {}
                    Ok(peer) => rep.violate("C16/scoped-address-not-kept", format!("{desc}: connected to {peer}")),
                    Err(e) => rep.violate("C16/scoped-address-not-kept", format!("{desc}: connect failed: {e}")),
                }
                rep.class("scoped-link-local-answer");
                drop(listener);
                drop(holders);
                return Ok(());
            }
            // an address of this case's own
            let mut listener = None;
            let mut ip = Ipv4Addr::LOCALHOST;
            for _ in 0..40 {
                let n = PORT_CASE_SEQ.fetch_add(1, std::sync::atomic::Ordering::Relaxed);
                let pid = std::process::id();
                ip = Ipv4Addr::new(127, 77, ((n / 250 + pid) % 250) as u8 + 1, (n % 250) as u8 + 1);
                match tokio::net::TcpListener::bind(SocketAddr::new(IpAddr::V4(ip), if c.explicit { 0 } else { default_port })).await {
                    Ok(l) => {
                        listener = Some(l);
                        break;
                    }
                    Err(e) if e.kind() == std::io::ErrorKind::PermissionDenied => {
                        rep.class("privileged-port-unavailable-inconclusive");
                        return Ok(());
                    }
                    Err(_) => continue,
                }
            }
            let Some(listener) = listener else {
                rep.class("port-reservation-failed-inconclusive");
                return Ok(());
            };
            let port = listener.local_addr().map_err(|e| e.to_string())?.port();
            let mut answer = vec![SocketAddr::new(IpAddr::V4(ip), c.answer_port)];
            let mut holders = vec![];
            for k in 0..(c.extra % 3) {
                // decoys: other addresses of the case's own /24 where the port is held closed
                let d = Ipv4Addr::new(ip.octets()[0], ip.octets()[1], ip.octets()[2], ip.octets()[3].wrapping_add(100 + k).max(1));
                if let Ok(h) = bound_unlistened(SocketAddr::new(IpAddr::V4(d), port)) {
                    holders.push(h);
                    answer.push(SocketAddr::new(IpAddr::V4(d), c.answer_port.wrapping_add(1)));
                }
            }
            let scheme = if c.scheme % 2 == 0 { "http" } else { "https" };
            let host = ["port.test", "127.0.0.250", "[::1]"][c.literal_host as usize % 3];
            let uri: http::Uri = if c.explicit { format!("{scheme}://{host}:{port}/") } else { format!("{scheme}://{host}/") }.parse().unwrap();
            let parts = http::Request::get(uri.clone()).body(()).unwrap().into_parts().0;
            let mut cfg = TcpTransportConfig::default();
            cfg.connect_timeout = Some(std::time::Duration::from_secs(2));
            // every setting of the concurrency reaches the one listener: a refused decoy is followed by the next address
            cfg.happy_eyeballs_concurrency = [Some(2), Some(0), Some(1), None][(c.answer_port / 5 % 4) as usize];
            let result: Result<SocketAddr, String> = if c.simple {
                let t: SimpleTcpTransport<_, TcpStream> = SimpleTcpTransport::new(cfg, ListResolver(answer.clone()).first_addr());
                match t.oneshot(parts).await {
                    Ok(s) => s.peer_addr().map_err(|e| e.to_string()),
                    Err(e) => Err(e.to_string()),
                }
            } else {
                let t: TcpTransport<ListResolver, TcpStream> = TcpTransport::builder().with_config(cfg).with_resolver(ListResolver(answer.clone())).build();
                match t.oneshot(parts).await {
                    Ok(s) => s.peer_addr().map_err(|e| e.to_string()),
                    Err(e) => Err(e.to_string()),
                }
            };
            let desc = format!("{uri} through {} with the resolver answering {answer:?}; a listener waits on {ip}:{port}", if c.simple { "SimpleTcpTransport" } else { "TcpTransport" });
            match result {
                Ok(peer) if peer == SocketAddr::new(IpAddr::V4(ip), port) => {}
                Ok(peer) => rep.violate("C16/uri-port-not-applied", format!("{desc}: connected to {peer}")),
                Err(e) => rep.violate("C16/uri-port-not-applied", format!("{desc}: connect failed: {e}")),
            }
            drop(listener);
            drop(holders);
            Ok(())
        });
        if let Err(e) = res {
            rep.internal_error = Some(e);
        }
        rep.class(if c.explicit { "uri-port-explicit" } else { "uri-port-default" });
        if c.simple {
            rep.class("simple-tcp-transport");
        }
        if c.literal_host % 3 != 0 {
            rep.class("ip-literal-host-with-custom-resolver");
        }
        rep.nontrivial = !c.explicit || c.extra % 3 > 0 || c.scoped;
        rep.total_ops = 1;
        rep
    }
}

pub fn port_strategy() -> impl proptest::strategy::Strategy<Value = PortCase> {
    use proptest::prelude::*;
    (0u8..4, any::<bool>(), prop_oneof![Just(0u16), Just(1u16), Just(80u16), Just(443u16), any::<u16>()], any::<bool>(), 0u8..3, prop_oneof![3 => Just(false), 1 => Just(true)])
        .prop_map(|(scheme, explicit, answer_port, simple, extra, scoped)| PortCase { scheme, explicit, answer_port, simple: simple && !scoped, extra, scoped, literal_host: if scoped { 0 } else { (answer_port % 5).saturating_sub(2) as u8 } })
}

// ------------------------------------------------------------------------------------------------
// Attempt order with unlimited concurrency: with `happy_eyeballs_concurrency = None` every attempt
// starts in the first poll, so the winner says little - but one dual-stack listener on `[::]:port`
// receives the connections to all loopback addresses of the table, and the order in which they
// arrive in its accept queue is the order in which the attempts were started ("connection attempts
// are started in the resulting order"), whatever concurrency is configured.

#[derive(Clone, Debug, Serialize, Deserialize, PartialEq)]
pub struct OrderCase {
    pub addrs: Vec<u8>,
    pub bound: (bool, bool),
    /// None = all at once; Some(n) with n >= number of addresses behaves the same
    pub conc: Option<u8>,
    pub simple_timeout: bool,
    /// the addresses are handed to `TcpTransport::connect_to_addrs` (already carrying the port) instead of
    /// coming from the resolver through the `tower::Service` impl: the same preference order applies
    #[serde(default)]
    pub direct: bool,
}

pub struct OrderEngine;

impl Engine for OrderEngine {
    type Case = OrderCase;
    fn name(&self) -> &'static str {
        "addrsort-order"
    }
    fn real_time(&self) -> bool {
        true
    }
    fn run_case(&self, case: &OrderCase) -> CaseReport {
        use hyperdriver::client::conn::transport::tcp::{TcpTransport, TcpTransportConfig};
        use hyperdriver::stream::tcp::TcpStream;
        use tower::ServiceExt;
        let mut rep = CaseReport::default();
        let rt = tokio::runtime::Builder::new_current_thread().enable_all().build().unwrap();
        let res: Result<(), String> = rt.block_on(async {
            let tab = table();
            let listener = match tokio::net::TcpListener::bind("[::]:0").await {
                Ok(l) => l,
                Err(_) => {
                    rep.class("no-dual-stack-listener-inconclusive");
                    return Ok(());
                }
            };
            let port = listener.local_addr().map_err(|e| e.to_string())?.port();
            let answer: Vec<SocketAddr> = case.addrs.iter().map(|i| SocketAddr::new(tab[*i as usize % tab.len()], 7)).collect();
            let mut cfg = TcpTransportConfig::default();
            cfg.happy_eyeballs_timeout = Some(std::time::Duration::from_secs(if case.simple_timeout { 4 } else { 9 }));
            cfg.happy_eyeballs_concurrency = case.conc.map(|c| c as usize + answer.len());
            cfg.connect_timeout = Some(std::time::Duration::from_secs(2));
            cfg.local_address_ipv4 = case.bound.0.then_some(Ipv4Addr::LOCALHOST);
            cfg.local_address_ipv6 = case.bound.1.then_some(Ipv6Addr::LOCALHOST);
            let transport: TcpTransport<ListResolver, TcpStream> = TcpTransport::builder().with_config(cfg).with_resolver(ListResolver(answer.clone())).build();
            let uri: http::Uri = format!("http://order.test:{port}/").parse().unwrap();
            let parts = http::Request::get(uri).body(()).unwrap().into_parts().0;
            let stream = if case.direct {
                let with_port: Vec<SocketAddr> = answer.iter().map(|a| SocketAddr::new(a.ip(), port)).collect();
                transport.connect_to_addrs(with_port).await.map_err(|e| e.to_string())
            } else {
                transport.oneshot(parts).await.map_err(|e| e.to_string())
            };
            if case.direct {
                rep.class("connect-to-addrs-entry-point");
            }
            // everything that was started is in the accept queue by now (loopback connects complete inside the call)
            let mut arrived: Vec<IpAddr> = vec![];
            while let Ok(Ok((s, _))) = tokio::time::timeout(std::time::Duration::from_millis(30), listener.accept()).await {
                if let Ok(l) = s.local_addr() {
                    arrived.push(l.ip().to_canonical());
                }
            }
            drop(stream);
            let with_port: Vec<SocketAddr> = answer.iter().map(|a| SocketAddr::new(a.ip(), port)).collect();
            let order = spec_sort(&with_port, case.bound);
            // a socket bound to ::1 cannot reach an IPv4-mapped destination
            let reachable = |a: &SocketAddr| match a.ip() {
                IpAddr::V6(v6) if v6.to_ipv4_mapped().is_some() => !case.bound.1,
                _ => true,
            };
            let want: Vec<IpAddr> = order.iter().filter(|a| reachable(a)).map(|a| a.ip().to_canonical()).collect();
            // (a proper prefix is tolerated: the winner may end the operation before a later attempt is polled)
            let is_prefix = !arrived.is_empty() && arrived.len() <= want.len() && arrived[..] == want[..arrived.len()];
            if arrived.len() == want.len() {
                rep.class("every-attempt-observed");
            }
            if !is_prefix && !(want.is_empty() && arrived.is_empty()) {
                rep.violate(
                    "C16/attempts-started-out-of-order",
                    format!("resolver answer {answer:?}, binding {:?}, concurrency {:?}: the attempts reached the listener as {arrived:?}, the specified order is {want:?}", case.bound, case.conc),
                );
            }
            Ok(())
        });
        if let Err(e) = res {
            rep.internal_error = Some(e);
        }
        rep.class("attempt-order-unlimited-concurrency");
        rep.nontrivial = case.addrs.len() >= 3;
        rep.total_ops = case.addrs.len() as u64;
        rep
    }
}

pub fn order_strategy() -> impl proptest::strategy::Strategy<Value = OrderCase> {
    use proptest::prelude::*;
    (proptest::collection::vec(0u8..6, 1..7), (any::<bool>(), any::<bool>()), prop_oneof![2 => Just(None), 1 => (0u8..3).prop_map(Some)], any::<bool>(), any::<bool>()).prop_map(|(addrs, bound, conc, simple_timeout, direct)| OrderCase { addrs, bound, conc, simple_timeout, direct })
}
