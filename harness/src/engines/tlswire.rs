//! E5 `tlswire` (C12): the real `TlsTransport` over an in-memory stream whose wire is recorded.
//!
//! Leg A (transport level): scheme x host form x port x peer behaviour (TLS server with matching /
//! mismatching / untrusted certificate and ALPN offers, closes at once, speaks plaintext, truncated
//! handshake, never answers) x client with/without TLS. Every byte the client puts on the wire is
//! recorded; the TLS peer records the SNI it saw and the plaintext it decrypted.
//! Leg B (full stack): real `Server` with TLS on a duplex acceptor and the real client stack sending a
//! request whose path, header and body carry a secret token.
#![allow(dead_code)]

use std::future::Future;
use std::pin::Pin;
use std::sync::{Arc, Mutex};
use std::task::{Context, Poll};
use std::time::Duration;

use hyperdriver::client::conn::transport::TransportExt;
use hyperdriver::client::pool::PoolableStream;
use hyperdriver::info::{ConnectionInfo, HasConnectionInfo};
use rustls::pki_types::{CertificateDer, PrivateKeyDer};
use serde::{Deserialize, Serialize};
use tokio::io::{AsyncRead, AsyncReadExt, AsyncWrite, AsyncWriteExt, ReadBuf};

use crate::common::{CaseReport, Engine};

pub const SCHEMES: &[&str] = &["https", "wss", "http", "ws", "ftp", "foo+bar"];
/// (host as written in the URI, covered by the `good` certificate)
pub const HOSTS: &[(&str, bool)] = &[
    ("example.com", true),
    ("a.test", true),
    ("EXAMPLE.com", true),
    ("sub.wild.test", true),
    ("localhost", true),
    ("xn--bcher-kva.example", true),
    ("127.0.0.1", true),
    ("[::1]", true),
    ("[2001:db8::7]", true),
    ("notinsan.test", false),
    ("10.9.8.7", false),
    ("[fe80::1]", false),
    ("a..b", false),
    ("ex!ample.com", false),
    ("a_b.test", false),
    ("-x-.test", false),
];

#[derive(Clone, Debug, Serialize, Deserialize, PartialEq)]
pub struct TlsCase {
    pub scheme: u8,
    pub host: u8,
    /// a generated host (reqgrammar::generated_host_strategy) replacing the table entry; never
    /// covered by the fixture certificates
    #[serde(default)]
    pub ghost: Option<String>,
    pub port: Option<u16>,
    /// 0 TLS server good cert, 1 TLS server cert for another name, 2 TLS server untrusted CA,
    /// 3 closes immediately, 4 speaks plaintext HTTP, 5 TLS server truncated after `arg` bytes,
    /// 6 never answers
    pub peer: u8,
    pub arg: u16,
    /// bit0: client offers h2, bit1: client offers http/1.1, bit2: server offers h2, bit3: server offers http/1.1
    pub alpn: u8,
    pub client_tls: bool,
    /// the transport first gets a decoy TLS configuration (other trust roots, other ALPN) which is
    /// then replaced by the real one: the configuration in force is the last one set
    #[serde(default)]
    pub reconfig: bool,
    /// the request carries a Host header naming something else than the URI host: 1 a name the
    /// certificate covers (example.com), 2 a name it does not cover, 3 an IP address it covers. The
    /// server name offered and the name the certificate is checked against stay the URI host.
    #[serde(default)]
    pub host_hdr: u8,
    /// the same transport value is used for another https host (table index) first and that stream
    /// dropped: the judged connect is its second use. Nothing of the first call may stick.
    #[serde(default)]
    pub prior: Option<u8>,
}

// ------------------------------------------------------------------------------------------------
// fixtures

fn pem_certs(pem: &[u8]) -> Vec<CertificateDer<'static>> {
    let (_, der) = pem_rfc7468::decode_vec(pem).expect("certificate pem");
    vec![CertificateDer::from(der)]
}
fn pem_key(pem: &[u8]) -> PrivateKeyDer<'static> {
    let (label, der) = pem_rfc7468::decode_vec(pem).expect("key pem");
    match label {
        "PRIVATE KEY" => PrivateKeyDer::Pkcs8(der.into()),
        "EC PRIVATE KEY" => PrivateKeyDer::Sec1(der.into()),
        "RSA PRIVATE KEY" => PrivateKeyDer::Pkcs1(der.into()),
        other => panic!("unknown key label {other}"),
    }
}

pub fn install_provider() {
    let _ = rustls::crypto::ring::default_provider().install_default();
}

/// ALPN offers encoded in the case: bit0 client h2, bit1 client http/1.1, bit2 server h2, bit3 server
/// http/1.1, bit4 client also offers "h3" (first), bit5 server also offers "h3" (first, i.e. preferred).
/// Returns (client list, server list) in offer / preference order.
pub fn alpn_lists(alpn: u8) -> (Vec<&'static [u8]>, Vec<&'static [u8]>) {
    let mut c: Vec<&'static [u8]> = vec![];
    let mut s: Vec<&'static [u8]> = vec![];
    if alpn & 16 != 0 {
        c.push(b"h3");
    }
    if alpn & 1 != 0 {
        c.push(b"h2");
    }
    if alpn & 2 != 0 {
        c.push(b"http/1.1");
    }
    if alpn & 32 != 0 {
        s.push(b"h3");
    }
    if alpn & 4 != 0 {
        s.push(b"h2");
    }
    if alpn & 8 != 0 {
        s.push(b"http/1.1");
    }
    (c, s)
}

#[derive(Clone, Debug, PartialEq)]
pub enum AlpnOutcome {
    /// one side offered nothing: no protocol is negotiated
    None,
    /// both offered, nothing in common: the handshake is refused
    Conflict,
    /// the server's first preference among the client's offers
    Proto(&'static [u8]),
}

pub fn alpn_outcome(alpn: u8) -> AlpnOutcome {
    let (c, s) = alpn_lists(alpn);
    if c.is_empty() || s.is_empty() {
        return AlpnOutcome::None;
    }
    match s.iter().find(|p| c.contains(p)) {
        Some(p) => AlpnOutcome::Proto(p),
        None => AlpnOutcome::Conflict,
    }
}

/// A configuration that trusts only the *other* CA (the one that signed the `untrusted` fixture)
/// and offers a different ALPN list: used as the configuration that gets replaced.
pub fn decoy_client_config() -> rustls::ClientConfig {
    let mut roots = rustls::RootCertStore::empty();
    for c in pem_certs(include_bytes!("../../../fixtures/tls/ca2.pem")) {
        roots.add(c).unwrap();
    }
    let mut cfg = rustls::ClientConfig::builder().with_root_certificates(roots).with_no_client_auth();
    cfg.alpn_protocols = vec![b"decoy/1".to_vec()];
    cfg
}

pub fn client_config(alpn: u8) -> rustls::ClientConfig {
    let mut roots = rustls::RootCertStore::empty();
    for c in pem_certs(include_bytes!("../../../fixtures/tls/ca.pem")) {
        roots.add(c).unwrap();
    }
    let mut cfg = rustls::ClientConfig::builder().with_root_certificates(roots).with_no_client_auth();
    cfg.alpn_protocols = alpn_lists(alpn).0.into_iter().map(|p| p.to_vec()).collect();
    cfg
}

#[derive(Debug)]
struct RecordingResolver {
    key: Arc<rustls::sign::CertifiedKey>,
    seen: Arc<Mutex<Vec<Option<String>>>>,
}
impl rustls::server::ResolvesServerCert for RecordingResolver {
    fn resolve(&self, hello: rustls::server::ClientHello<'_>) -> Option<Arc<rustls::sign::CertifiedKey>> {
        self.seen.lock().unwrap().push(hello.server_name().map(|s| s.to_string()));
        Some(self.key.clone())
    }
}

pub fn server_config(which: u8, alpn: u8, seen: Arc<Mutex<Vec<Option<String>>>>) -> rustls::ServerConfig {
    let (cert, key): (&[u8], &[u8]) = match which {
        0 => (include_bytes!("../../../fixtures/tls/good.pem"), include_bytes!("../../../fixtures/tls/good.key")),
        1 => (include_bytes!("../../../fixtures/tls/other.pem"), include_bytes!("../../../fixtures/tls/other.key")),
        _ => (include_bytes!("../../../fixtures/tls/untrusted.pem"), include_bytes!("../../../fixtures/tls/untrusted.key")),
    };
    let provider = rustls::crypto::ring::default_provider();
    let signing = provider.key_provider.load_private_key(pem_key(key)).expect("signing key");
    let ck = Arc::new(rustls::sign::CertifiedKey::new(pem_certs(cert), signing));
    let mut cfg = rustls::ServerConfig::builder().with_no_client_auth().with_cert_resolver(Arc::new(RecordingResolver { key: ck, seen }));
    cfg.alpn_protocols = alpn_lists(alpn).1.into_iter().map(|p| p.to_vec()).collect();
    cfg
}

// ------------------------------------------------------------------------------------------------
// recorded stream

#[derive(Debug, Clone, PartialEq, Eq, Hash)]
pub struct WAddr;
impl std::fmt::Display for WAddr {
    fn fmt(&self, f: &mut std::fmt::Formatter<'_>) -> std::fmt::Result {
        write!(f, "wire")
    }
}

/// Client end of the in-memory wire; records everything the client writes.
pub struct RecIo {
    inner: tokio::io::DuplexStream,
    wire: Arc<Mutex<Vec<u8>>>,
}
impl std::fmt::Debug for RecIo {
    fn fmt(&self, f: &mut std::fmt::Formatter<'_>) -> std::fmt::Result {
        write!(f, "RecIo")
    }
}
impl HasConnectionInfo for RecIo {
    type Addr = WAddr;
    fn info(&self) -> ConnectionInfo<WAddr> {
        ConnectionInfo { local_addr: WAddr, remote_addr: WAddr }
    }
}
impl PoolableStream for RecIo {
    fn can_share(&self) -> bool {
        false
    }
}
impl AsyncRead for RecIo {
    fn poll_read(mut self: Pin<&mut Self>, cx: &mut Context<'_>, buf: &mut ReadBuf<'_>) -> Poll<std::io::Result<()>> {
        Pin::new(&mut self.inner).poll_read(cx, buf)
    }
}
impl AsyncWrite for RecIo {
    fn poll_write(mut self: Pin<&mut Self>, cx: &mut Context<'_>, buf: &[u8]) -> Poll<std::io::Result<usize>> {
        match Pin::new(&mut self.inner).poll_write(cx, buf) {
            Poll::Ready(Ok(n)) => {
                self.wire.lock().unwrap().extend_from_slice(&buf[..n]);
                Poll::Ready(Ok(n))
            }
            other => other,
        }
    }
    fn poll_flush(mut self: Pin<&mut Self>, cx: &mut Context<'_>) -> Poll<std::io::Result<()>> {
        Pin::new(&mut self.inner).poll_flush(cx)
    }
    fn poll_shutdown(mut self: Pin<&mut Self>, cx: &mut Context<'_>) -> Poll<std::io::Result<()>> {
        Pin::new(&mut self.inner).poll_shutdown(cx)
    }
}

/// Limits how many bytes the peer may send (truncated handshake).
struct LimitWrite {
    inner: tokio::io::DuplexStream,
    left: usize,
}
impl AsyncRead for LimitWrite {
    fn poll_read(mut self: Pin<&mut Self>, cx: &mut Context<'_>, buf: &mut ReadBuf<'_>) -> Poll<std::io::Result<()>> {
        Pin::new(&mut self.inner).poll_read(cx, buf)
    }
}
impl AsyncWrite for LimitWrite {
    fn poll_write(mut self: Pin<&mut Self>, cx: &mut Context<'_>, buf: &[u8]) -> Poll<std::io::Result<usize>> {
        if self.left == 0 {
            return Poll::Ready(Err(std::io::ErrorKind::BrokenPipe.into()));
        }
        let n = buf.len().min(self.left);
        match Pin::new(&mut self.inner).poll_write(cx, &buf[..n]) {
            Poll::Ready(Ok(k)) => {
                self.left -= k;
                Poll::Ready(Ok(k))
            }
            other => other,
        }
    }
    fn poll_flush(mut self: Pin<&mut Self>, cx: &mut Context<'_>) -> Poll<std::io::Result<()>> {
        Pin::new(&mut self.inner).poll_flush(cx)
    }
    fn poll_shutdown(mut self: Pin<&mut Self>, cx: &mut Context<'_>) -> Poll<std::io::Result<()>> {
        Pin::new(&mut self.inner).poll_shutdown(cx)
    }
}

#[derive(Default, Debug)]
pub struct PeerObs {
    pub sni: Arc<Mutex<Vec<Option<String>>>>,
    pub handshake_ok: bool,
    pub plaintext: Vec<u8>,
    pub raw_plain_bytes: Vec<u8>,
    pub alpn: Option<Vec<u8>>,
}

#[derive(Clone)]
pub struct PeerTransport {
    case: TlsCase,
    wire: Arc<Mutex<Vec<u8>>>,
    peer: Arc<Mutex<PeerObs>>,
}

impl tower::Service<http::request::Parts> for PeerTransport {
    type Response = RecIo;
    type Error = std::io::Error;
    type Future = Pin<Box<dyn Future<Output = Result<RecIo, std::io::Error>> + Send>>;
    fn poll_ready(&mut self, _cx: &mut Context<'_>) -> Poll<Result<(), Self::Error>> {
        Poll::Ready(Ok(()))
    }
    fn call(&mut self, _req: http::request::Parts) -> Self::Future {
        let case = self.case.clone();
        let wire = self.wire.clone();
        let peer = self.peer.clone();
        Box::pin(async move {
            let (client, server) = tokio::io::duplex(1 << 16);
            tokio::spawn(run_peer(case, server, peer));
            Ok(RecIo { inner: client, wire })
        })
    }
}

async fn run_peer(case: TlsCase, mut io: tokio::io::DuplexStream, obs: Arc<Mutex<PeerObs>>) {
    match case.peer % 7 {
        0 | 1 | 2 | 5 => {
            let sni = obs.lock().unwrap().sni.clone();
            let cfg = server_config(case.peer % 7 % 3 * if case.peer % 7 == 5 { 0 } else { 1 }, case.alpn, sni);
            let acceptor = tokio_rustls::TlsAcceptor::from(Arc::new(cfg));
            if case.peer % 7 == 5 {
                let limited = LimitWrite { inner: io, left: case.arg as usize % 1500 };
                let _ = acceptor.accept(limited).await;
                return;
            }
            match acceptor.accept(io).await {
                Ok(mut tls) => {
                    {
                        let mut o = obs.lock().unwrap();
                        o.handshake_ok = true;
                        o.alpn = tls.get_ref().1.alpn_protocol().map(|a| a.to_vec());
                    }
                    let mut buf = [0u8; 4096];
                    loop {
                        match tls.read(&mut buf).await {
                            Ok(0) | Err(_) => break,
                            Ok(n) => {
                                obs.lock().unwrap().plaintext.extend_from_slice(&buf[..n]);
                                let _ = tls.write_all(b"ok").await;
                                let _ = tls.flush().await;
                            }
                        }
                    }
                }
                Err(_) => {}
            }
        }
        3 => drop(io),
        4 => {
            let _ = io.write_all(b"HTTP/1.1 200 OK\r\ncontent-length: 2\r\n\r\nok").await;
            let mut buf = [0u8; 4096];
            loop {
                match io.read(&mut buf).await {
                    Ok(0) | Err(_) => break,
                    Ok(n) => obs.lock().unwrap().raw_plain_bytes.extend_from_slice(&buf[..n]),
                }
            }
        }
        _ => {
            // never answers
            let mut buf = [0u8; 4096];
            loop {
                match io.read(&mut buf).await {
                    Ok(0) | Err(_) => break,
                    Ok(_) => {}
                }
            }
        }
    }
}

/// Parses a byte string as a sequence of TLS records (the last one may be cut short).
pub fn is_tls_record_stream(b: &[u8]) -> Result<usize, String> {
    let mut i = 0;
    let mut n = 0;
    while i < b.len() {
        if b.len() - i < 5 {
            // a partial header: its bytes must still look like one
            let t = b[i];
            if !(0x14..=0x17).contains(&t) {
                return Err(format!("byte {i}: {t:#04x} is not a TLS record type"));
            }
            break;
        }
        let t = b[i];
        if !(0x14..=0x17).contains(&t) {
            return Err(format!("byte {i}: {t:#04x} is not a TLS record type"));
        }
        if b[i + 1] != 3 || b[i + 2] > 4 {
            return Err(format!("byte {}: bad record version {:#04x}{:02x}", i + 1, b[i + 1], b[i + 2]));
        }
        let len = ((b[i + 3] as usize) << 8) | b[i + 4] as usize;
        if len > 16384 + 2048 {
            return Err(format!("byte {}: record length {len}", i + 3));
        }
        i += 5 + len;
        n += 1;
    }
    Ok(n)
}

pub const SECRET: &[u8] = b"S3CR3T-t0ken-0f-th3-cl13nt";

pub struct TlsEngine;

impl Engine for TlsEngine {
    type Case = TlsCase;
    fn name(&self) -> &'static str {
        "tlswire"
    }
    fn run_case(&self, c: &TlsCase) -> CaseReport {
        install_provider();
        let mut rep = CaseReport::default();
        let _ = crate::panichook::take_all();
        let scheme = SCHEMES[c.scheme as usize % SCHEMES.len()];
        let (host, in_san): (&str, bool) = match &c.ghost {
            // generated names cannot spell a DNS name of the certificate; IP literals can equal its IP entries
            Some(h) => (h.as_str(), {
                let ip: Option<std::net::IpAddr> = h.trim_start_matches('[').trim_end_matches(']').parse().ok();
                let sans: [std::net::IpAddr; 3] = ["127.0.0.1".parse().unwrap(), "::1".parse().unwrap(), "2001:db8::7".parse().unwrap()];
                ip.map(|ip| sans.contains(&ip)).unwrap_or(false)
            }),
            None => HOSTS[c.host as usize % HOSTS.len()],
        };
        let authority = match c.port {
            Some(p) => format!("{host}:{p}"),
            None => host.to_string(),
        };
        let uri = format!("{scheme}://{authority}/x");
        let Ok(parsed) = uri.parse::<http::Uri>() else {
            rep.class("rejected-by-http-crate");
            return rep;
        };
        let secure = scheme == "https" || scheme == "wss";
        let wire = Arc::new(Mutex::new(Vec::new()));
        let peer = Arc::new(Mutex::new(PeerObs::default()));
        let transport = PeerTransport { case: c.clone(), wire: wire.clone(), peer: peer.clone() };
        let rt = tokio::runtime::Builder::new_current_thread().enable_time().start_paused(true).build().unwrap();
        let mut parts = http::Request::get(parsed).body(()).unwrap().into_parts().0;
        if let Some(h) = [None, Some("example.com"), Some("notinsan.test"), Some("127.0.0.1")][c.host_hdr as usize % 4] {
            parts.headers.insert(http::header::HOST, http::HeaderValue::from_static(h));
            rep.class("host-header-names-another-host");
        }
        let client_tls = c.client_tls;
        let alpn = c.alpn;
        let reconfig = c.reconfig;
        let prior_parts = c.prior.filter(|_| secure && c.client_tls).map(|p| {
            rep.class("second-use-of-the-transport-value");
            http::Request::get(format!("https://{}/prior", HOSTS[p as usize % HOSTS.len()].0).parse::<http::Uri>().unwrap()).body(()).unwrap().into_parts().0
        });
        let sni_skip = Arc::new(std::sync::atomic::AtomicUsize::new(0));
        let sni_skip2 = sni_skip.clone();
        let peer_for_skip = peer.clone();
        let res = std::panic::catch_unwind(std::panic::AssertUnwindSafe(|| {
            rt.block_on(async move {
                let t = if client_tls {
                    if reconfig {
                        transport.with_tls(Arc::new(decoy_client_config())).with_tls(Arc::new(client_config(alpn)))
                    } else {
                        transport.with_tls(Arc::new(client_config(alpn)))
                    }
                } else {
                    transport.without_tls()
                };
                let fut = async move {
                    let mut t = t;
                    if let Some(pp) = prior_parts {
                        use tower::Service;
                        if let Ok(svc) = std::future::poll_fn(|cx| t.poll_ready(cx)).await.map(|_| &mut t) {
                            let first = tokio::time::timeout(Duration::from_secs(5), svc.call(pp)).await;
                            drop(first);
                        }
                        let n = peer_for_skip.lock().unwrap().sni.lock().unwrap().len();
                        sni_skip2.store(n, std::sync::atomic::Ordering::SeqCst);
                    }
                    match t.oneshot(parts).await {
                        Err(e) => Err(format!("{e}")),
                        Ok(mut stream) => {
                            // application data through the stream
                            let w = stream.write_all(SECRET).await;
                            let f = stream.flush().await;
                            let mut b = [0u8; 8];
                            let r = tokio::time::timeout(Duration::from_millis(200), stream.read(&mut b)).await;
                            let alpn = hyperdriver::info::HasTlsConnectionInfo::tls_info(&stream).and_then(|t| t.alpn.clone());
                            Ok((w.is_ok() && f.is_ok(), r.ok().and_then(|r| r.ok()).unwrap_or(0), alpn))
                        }
                    }
                };
                match tokio::time::timeout(Duration::from_secs(30), fut).await {
                    Ok(r) => Some(r),
                    Err(_) => None,
                }
            })
        }));
        drop(rt);
        for (loc, msg) in crate::panichook::take_all() {
            if crate::panichook::in_library(&loc) {
                rep.violate("C12/panic-on-valid-host", format!("connecting to {uri} (client TLS configured: {}) panicked at {loc}: {msg}", c.client_tls));
            } else {
                rep.internal_error = Some(format!("harness panic at {loc}: {msg}"));
            }
        }
        let Ok(result) = res else { return rep };
        let wire = wire.lock().unwrap().clone();
        let peer = peer.lock().unwrap();
        let sni: Vec<Option<String>> = peer.sni.lock().unwrap().iter().skip(sni_skip.load(std::sync::atomic::Ordering::SeqCst)).cloned().collect();
        let desc = format!(
            "{uri} (client TLS {}, ALPN bits {:#x}) against peer kind {}: result {:?}; {} bytes on the wire starting {:02x?}; peer handshake ok={}, SNI seen {:?}",
            c.client_tls,
            c.alpn,
            c.peer % 7,
            result.as_ref().map(|r| r.as_ref().map(|(ok, n, a)| (*ok, *n, a.clone())).map_err(|e| e.clone())),
            wire.len(),
            &wire[..wire.len().min(6)],
            peer.handshake_ok,
            sni
        );
        let contains_secret = wire.windows(SECRET.len()).any(|w| w == SECRET);

        if secure && c.client_tls {
            // never in the clear
            if let Err(e) = is_tls_record_stream(&wire) {
                rep.violate("C12/non-tls-bytes-on-the-wire", format!("{desc}: {e}"));
            }
            if contains_secret {
                rep.violate("C12/secret-in-the-clear", desc.clone());
            }
            // rustls refuses the handshake when both sides offer ALPN protocols without overlap
            let alpn_conflict = alpn_outcome(c.alpn) == AlpnOutcome::Conflict;
            if alpn_conflict {
                rep.class("alpn-no-overlap");
            }
            let tls_peer_ok = c.peer % 7 == 0 && in_san && !alpn_conflict;
            match &result {
                Some(Ok(_)) => {
                    // a truncated handshake may still deliver the complete server flight: the client
                    // then holds a stream to a peer whose certificate it verified, which is allowed
                    let may_succeed = matches!(c.peer % 7, 0 | 5) && in_san;
                    if !may_succeed {
                        let sig = match c.peer % 7 {
                            0 => "C12/stream-despite-name-mismatch",
                            1 => "C12/stream-despite-wrong-certificate",
                            2 => "C12/stream-despite-untrusted-ca",
                            _ => "C12/stream-without-handshake",
                        };
                        rep.violate(sig, desc.clone());
                    } else if c.peer % 7 == 0 {
                        if !peer.handshake_ok {
                            rep.violate("C12/stream-before-handshake-completed", desc.clone());
                        }
                        // server name offered = URI host (DNS names); none for IP literals
                        let is_ip = host.starts_with('[') || host.parse::<std::net::Ipv4Addr>().is_ok();
                        let want: Option<String> = if is_ip { None } else { Some(host.to_ascii_lowercase()) };
                        let got = sni.first().cloned().flatten().map(|s| s.to_ascii_lowercase());
                        if got != want {
                            rep.violate("C12/wrong-server-name-offered", format!("{desc}: expected SNI {want:?}"));
                        }
                        if peer.plaintext.windows(SECRET.len()).all(|w| w != SECRET) {
                            rep.violate("C12/application-data-lost", desc.clone());
                        }
                    }
                    rep.class("tls-stream-established");
                }
                Some(Err(_)) => {
                    if tls_peer_ok {
                        rep.violate("C12/handshake-failed-with-valid-peer", desc.clone());
                    }
                    rep.class("tls-connect-refused");
                }
                None => {
                    if c.peer % 7 != 6 && c.peer % 7 != 5 {
                        rep.violate("C12/connect-never-resolves", desc.clone());
                    }
                    rep.class("tls-connect-stalled");
                }
            }
        } else if !secure {
            // other schemes are not wrapped: bytes arrive verbatim
            match &result {
                Some(Ok((wrote, _, _))) => {
                    if *wrote && wire != SECRET {
                        rep.violate("C12/plain-scheme-was-wrapped-or-altered", desc.clone());
                    }
                    rep.class("plain-stream");
                }
                Some(Err(_)) | None => {
                    rep.violate("C12/plain-scheme-connect-failed", desc.clone());
                }
            }
        } else {
            rep.class("secure-scheme-without-client-tls-unconstrained");
        }
        if host.starts_with('[') {
            rep.class("ipv6-literal");
        }
        if !in_san {
            rep.class("host-not-in-certificate");
        }
        rep.class(["peer-tls-good", "peer-tls-other-name", "peer-tls-untrusted", "peer-closes", "peer-plaintext", "peer-truncated-handshake", "peer-silent"][c.peer as usize % 7]);
        rep.nontrivial = secure && c.client_tls;
        rep.total_ops = 1;
        rep
    }
}

pub fn strategy() -> impl proptest::strategy::Strategy<Value = TlsCase> {
    use proptest::prelude::*;
    (
        prop_oneof![3 => Just(0u8), 2 => Just(1u8), 1 => 2u8..6],
        (0u8..16, prop_oneof![3 => Just(None), 1 => crate::engines::reqgrammar::generated_host_strategy().prop_map(Some)]),
        prop_oneof![2 => Just(None), 1 => Just(Some(443u16)), 1 => Just(Some(8443u16)), 1 => any::<u16>().prop_map(Some)],
        prop_oneof![4 => Just(0u8), 1 => Just(1u8), 1 => Just(2u8), 1 => Just(3u8), 1 => Just(4u8), 1 => Just(5u8), 1 => Just(6u8)],
        any::<u16>(),
        prop_oneof![3 => 0u8..16, 1 => 16u8..64],
        prop_oneof![5 => Just(true), 1 => Just(false)],
        prop_oneof![2 => Just(false), 1 => Just(true)],
        prop_oneof![3 => Just(0u8), 2 => Just(1u8), 1 => Just(2u8), 1 => Just(3u8)],
        prop_oneof![3 => Just(None), 1 => (0u8..16).prop_map(Some)],
    )
        .prop_map(|(scheme, (host, ghost), port, peer, arg, alpn, client_tls, reconfig, host_hdr, prior)| TlsCase { scheme, host, ghost, port, peer, arg, alpn, client_tls, reconfig, host_hdr, prior })
}
