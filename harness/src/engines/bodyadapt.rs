//! `hyperdriver::Body` - the body type of the default client and of every server handler - built
//! through each of its public constructors, checked against the `http_body::Body` contract and sent
//! end to end in both directions (C01: complete body unaltered).
//!
//! Part 1 (no I/O): frames concatenated = the data given to the constructor; `size_hint` bounds hold
//! before and after every frame; `is_end_stream() == true` is only reported when no data follows;
//! `try_clone` yields the same data and leaves the original intact; `as_boxed` preserves the data.
//! Part 2 (duplex, virtual time): a request whose body was built by constructor `ctor` is sent by the
//! client stack (`Client::builder()` with `Body` in both directions) to a `Server` whose handler
//! rebuilds the received bytes with constructor `resp_ctor`; both ends compare length and content.

use crate::common::{CaseReport, Engine};
use bytes::Bytes;
use http_body::Body as _;
use http_body_util::BodyExt;
use serde::{Deserialize, Serialize};
use std::time::Duration;
use tower::ServiceExt;

#[derive(Clone, Debug, Serialize, Deserialize, PartialEq)]
pub struct BodyCase {
    pub ctor: u8,
    pub resp_ctor: u8,
    pub len: u16,
    /// 0 poll directly, 1 through `as_boxed`, 2 poll a `try_clone` first and the original afterwards
    pub via: u8,
    pub h2: bool,
}

pub const CTORS: usize = 10;
const STATIC_TEXT: &str = "the quick brown fox jumps over the lazy dog 0123456789 THE QUICK BROWN FOX";

/// (body, the bytes it must deliver)
pub fn build(ctor: u8, len: usize, salt: u8) -> (hyperdriver::Body, Vec<u8>) {
    let text: String = (0..len).map(|i| (b'a' + ((i + salt as usize) % 26) as u8) as char).collect();
    let bin: Vec<u8> = (0..len).map(|i| ((i * 7 + salt as usize * 13 + 1) % 251) as u8).collect();
    match ctor as usize % CTORS {
        0 => (hyperdriver::Body::empty(), vec![]),
        1 => (hyperdriver::Body::default(), vec![]),
        2 => (hyperdriver::Body::from(text.clone()), text.into_bytes()),
        3 => (hyperdriver::Body::from(bin.clone()), bin),
        4 => (hyperdriver::Body::from(Bytes::from(bin.clone())), bin),
        5 => {
            let s = &STATIC_TEXT[..len.min(STATIC_TEXT.len())];
            (hyperdriver::Body::from(s), s.as_bytes().to_vec())
        }
        6 => (hyperdriver::Body::full(bin.clone()), bin),
        7 => (hyperdriver::Body::from(http_body_util::Full::new(Bytes::from(bin.clone()))), bin),
        8 => (hyperdriver::Body::from(http_body_util::Empty::<Bytes>::new()), vec![]),
        _ => (hyperdriver::Body::full(text.clone()), text.into_bytes()),
    }
}

/// Drives a body to its end with a no-op waker; checks the contract on the way.
fn drain<B>(mut body: B, want: &[u8], what: &str) -> Result<(), (String, String)>
where
    B: http_body::Body<Data = Bytes> + Unpin,
    B::Error: std::fmt::Debug,
{
    let waker = futures_util::task::noop_waker();
    let mut cx = std::task::Context::from_waker(&waker);
    let mut got: Vec<u8> = vec![];
    for _ in 0..(want.len() + 8) {
        let remaining = want.len().saturating_sub(got.len()) as u64;
        let hint = body.size_hint();
        if hint.lower() > remaining || hint.upper().map(|u| u < remaining).unwrap_or(false) {
            return Err(("size-hint-excludes-the-actual-length".into(), format!("{what}: size_hint [{}, {:?}] with {remaining} bytes still to come", hint.lower(), hint.upper())));
        }
        let ended = body.is_end_stream();
        if ended && remaining > 0 {
            return Err(("end-of-stream-reported-before-the-data".into(), format!("{what}: is_end_stream() with {remaining} bytes still to come")));
        }
        match std::pin::Pin::new(&mut body).poll_frame(&mut cx) {
            std::task::Poll::Pending => return Err(("in-memory-body-pending".into(), format!("{what}: poll_frame returned Pending"))),
            std::task::Poll::Ready(None) => {
                if got != want {
                    return Err(("data-differs".into(), format!("{what}: delivered {} bytes, given {} bytes", got.len(), want.len())));
                }
                return Ok(());
            }
            std::task::Poll::Ready(Some(Err(e))) => return Err(("in-memory-body-failed".into(), format!("{what}: {e:?}"))),
            std::task::Poll::Ready(Some(Ok(frame))) => {
                if let Ok(data) = frame.into_data() {
                    if ended && !data.is_empty() {
                        return Err(("end-of-stream-reported-before-the-data".into(), format!("{what}: data frame after is_end_stream()")));
                    }
                    got.extend_from_slice(&data);
                } else {
                    return Err(("trailers-invented".into(), format!("{what}: a non-data frame appeared")));
                }
            }
        }
    }
    Err(("body-never-ends".into(), format!("{what}: no end after {} frames", want.len() + 8)))
}

pub struct BodyEngine;

impl Engine for BodyEngine {
    type Case = BodyCase;
    fn name(&self) -> &'static str {
        "bodyadapt"
    }
    fn run_case(&self, c: &BodyCase) -> CaseReport {
        let mut rep = CaseReport::default();
        let _ = crate::panichook::take_all();
        let len = c.len as usize;
        let what = format!("constructor {} with {} bytes via {}", c.ctor as usize % CTORS, len, c.via % 3);
        let r = std::panic::catch_unwind(|| {
            let (body, want) = build(c.ctor, len, 1);
            match c.via % 3 {
                0 => drain(body, &want, &what),
                1 => drain(body.as_boxed(), &want, &what),
                _ => match body.try_clone() {
                    // every constructor covered here is an in-memory body: cloneable
                    None => Err(("try-clone-refused-in-memory-body".into(), what.clone())),
                    Some(cl) => drain(cl, &want, &format!("{what} (clone)")).and_then(|_| drain(body, &want, &format!("{what} (original after its clone was read)"))),
                },
            }
        });
        match r {
            Ok(Ok(())) => {}
            Ok(Err((sig, msg))) => rep.violate(format!("C01/body-adapter/{sig}"), msg),
            Err(_) => rep.violate("C01/body-adapter/panic", format!("{what}: panic at {}: {}", crate::panichook::last_location(), crate::panichook::last_message())),
        }

        // ---- end to end
        let rt = tokio::runtime::Builder::new_current_thread().enable_time().start_paused(true).build().unwrap();
        let c2 = c.clone();
        let e2e: Result<Result<(), (String, String)>, ()> = std::panic::catch_unwind(std::panic::AssertUnwindSafe(|| {
            rt.block_on(async move {
                let (client, incoming) = hyperdriver::stream::duplex::pair();
                let resp_ctor = c2.resp_ctor;
                let handler = tower::service_fn(move |req: http::Request<hyperdriver::Body>| async move {
                    let hint = req.body().size_hint();
                    if resp_ctor as usize == CTORS {
                        // proxy-style: the received body (a `Body` around hyper's incoming stream) is sent
                        // back as it is, frame by frame, never collected
                        return Ok::<_, std::io::Error>(http::Response::builder().header("x-passthrough", "1").header("x-hint", format!("{}-{:?}", hint.lower(), hint.upper())).body(req.into_body()).unwrap());
                    }
                    let got = req.into_body().collect().await.map(|b| b.to_bytes()).map_err(|e| std::io::Error::other(format!("{e}")))?;
                    // the response tells the client what arrived and carries a body of its own
                    let (body, _) = build(resp_ctor, got.len(), 2);
                    let sum: u64 = got.iter().map(|b| *b as u64).sum();
                    Ok::<_, std::io::Error>(
                        http::Response::builder()
                            .header("x-got-len", got.len())
                            .header("x-got-sum", sum)
                            .header("x-hint", format!("{}-{:?}", hint.lower(), hint.upper()))
                            .body(body)
                            .unwrap(),
                    )
                });
                let server = hyperdriver::Server::builder::<hyperdriver::Body>().with_incoming(incoming).with_auto_http().with_shared_service(handler).with_tokio();
                let server = tokio::spawn(async move { server.await.map_err(|e| e.to_string()) });
                let svc = hyperdriver::Client::builder()
                    .with_transport(hyperdriver::client::conn::transport::duplex::DuplexTransport::new(4096, client))
                    .with_auto_http()
                    .without_tls()
                    .with_default_pool()
                    .without_redirects()
                    .build_service();
                let (body, want) = build(c2.ctor, c2.len as usize, 1);
                let req = http::Request::builder()
                    .method("POST")
                    .version(if c2.h2 { http::Version::HTTP_2 } else { http::Version::HTTP_11 })
                    .uri("http://body.test/echo")
                    .body(body)
                    .unwrap();
                let resp = match tokio::time::timeout(Duration::from_secs(5), svc.oneshot(req)).await {
                    Err(_) => return Err(("e2e-request-never-completes".to_string(), "no response within 5 virtual seconds".to_string())),
                    Ok(Err(e)) => return Err(("e2e-request-failed".to_string(), format!("{e}"))),
                    Ok(Ok(r)) => r,
                };
                let hdr = |n: &str| resp.headers().get(n).and_then(|v| v.to_str().ok()).map(String::from).unwrap_or_default();
                let (got_len, got_sum, hint) = (hdr("x-got-len"), hdr("x-got-sum"), hdr("x-hint"));
                let want_sum: u64 = want.iter().map(|b| *b as u64).sum();
                let passthrough = c2.resp_ctor as usize == CTORS;
                if passthrough && hdr("x-passthrough") != "1" {
                    return Err(("e2e-response-head-altered".to_string(), "the pass-through marker header is missing".to_string()));
                }
                if !passthrough && (got_len != want.len().to_string() || got_sum != want_sum.to_string()) {
                    return Err(("e2e-request-body-altered".to_string(), format!("sent {} bytes (sum {want_sum}), the handler received {got_len} bytes (sum {got_sum}, size hint {hint})", want.len())));
                }
                let want_resp = if passthrough { want.clone() } else { build(c2.resp_ctor, want.len(), 2).1 };
                let body = match tokio::time::timeout(Duration::from_secs(5), resp.into_body().collect()).await {
                    Err(_) => return Err(("e2e-response-body-never-ends".to_string(), String::new())),
                    Ok(Err(e)) => return Err(("e2e-response-body-failed".to_string(), format!("{e}"))),
                    Ok(Ok(b)) => b.to_bytes(),
                };
                if body[..] != want_resp[..] {
                    return Err(("e2e-response-body-altered".to_string(), format!("the handler sent {} bytes, the caller received {} bytes", want_resp.len(), body.len())));
                }
                server.abort();
                Ok(())
            })
        }))
        .map_err(|_| ());
        drop(rt);
        let desc = format!("request body constructor {} ({} bytes), response body {}, HTTP/{}", c.ctor as usize % CTORS, len, if c.resp_ctor as usize == CTORS { "= the received request body passed through".to_string() } else { format!("constructor {}", c.resp_ctor as usize % CTORS) }, if c.h2 { 2 } else { 1 });
        for (loc, msg) in crate::panichook::take_all() {
            if crate::panichook::in_library(&loc) {
                rep.violate("C01/body-adapter/panic", format!("{desc}: panic at {loc}: {msg}"));
            }
        }
        match e2e {
            Ok(Ok(())) => {}
            Ok(Err((sig, msg))) => rep.violate(format!("C01/body-adapter/{sig}"), format!("{desc}: {msg}")),
            Err(()) => {
                if rep.violations.is_empty() {
                    rep.internal_error = Some(format!("harness panic at {}: {}", crate::panichook::last_location(), crate::panichook::last_message()));
                }
            }
        }
        rep.class("body-adapter");
        if c.resp_ctor as usize == CTORS {
            rep.class("body-passed-through-by-the-handler");
        }
        if len == 0 || matches!(c.ctor as usize % CTORS, 0 | 1 | 8) {
            rep.class("body-adapter-empty");
        }
        rep.nontrivial = len > 0;
        rep.total_ops = 1;
        rep
    }
}

pub fn strategy() -> impl proptest::strategy::Strategy<Value = BodyCase> {
    use proptest::prelude::*;
    (0u8..CTORS as u8, 0u8..=CTORS as u8, prop_oneof![2 => Just(0u16), 2 => 1u16..64, 2 => 64u16..5000, 1 => 5000u16..40000], 0u8..3, any::<bool>()).prop_map(|(ctor, resp_ctor, len, via, h2)| BodyCase { ctor, resp_ctor, len, via, h2 })
}
