//! E1 `poolsim`: the real `ConnectionPoolService` driven by scripted collaborators.
//!
//! Every asynchronous step (dial completes, handshake completes, connection ready, peer closes,
//! response finishes, background tasks run) is an explicit operation of a generated history.
//! Ground truth lives in `World`, maintained only by the harness collaborators and the
//! interpreter; the pool's internals are never read.
#![allow(dead_code)]

use std::collections::BTreeSet;
use std::future::Future;
use std::panic::AssertUnwindSafe;
use std::pin::Pin;
use std::sync::atomic::{AtomicUsize, Ordering};
use std::sync::{Arc, Mutex};
use std::task::{Context, Poll, Wake, Waker};
use std::time::Duration;

use bytes::Bytes;
use http_body_util::Empty;
use hyperdriver::client::conn::connection::ConnectionError;
use hyperdriver::client::conn::protocol::ProtocolRequest;
use hyperdriver::client::conn::Connection;
use hyperdriver::client::pool::{PoolableConnection, PoolableStream, Pooled};
use hyperdriver::client::{ConnectionPoolService, PoolConfig};
use hyperdriver::info::{ConnectionInfo, HasConnectionInfo};
use hyperdriver::service::ExecuteRequest;
use proptest::prelude::*;
use serde::{Deserialize, Serialize};

use crate::common::{idx, CaseReport, Engine};

pub type B = Empty<Bytes>;

pub const ORIGINS: &[&str] = &[
    "http://a.test/",
    "https://a.test/",
    "http://a.test:8080/",
    "http://b.test/",
    "HTTP://A.TEST/x",
    "http://B.test/",
    // near misses (indices 6..): the other scheme's default port, the same port under the other
    // scheme, hosts that extend one another, IP literals. No two entries from here on, and none of
    // them with an entry above, denote the same (scheme, host, effective port).
    "http://a.test:443/",
    "https://a.test:80/",
    "https://a.test:8080/",
    "http://a.test:8081/",
    "http://xa.test/",
    "http://a.test.example/",
    "http://127.0.0.1/",
    "http://127.0.0.1:8080/",
    "http://[::1]/",
    "https://[::1]/",
    "http://[::1]:8080/",
    "https://b.test:8443/",
    // other schemes with the same authority: ws is not http, wss is not https, a custom scheme is neither
    "ws://a.test/",
    "wss://a.test/",
    "ws://a.test:8080/",
    "custom://a.test/",
    // letter case together with an explicit port (same origins as http://a.test:8080/ and https://a.test:8080/)
    "http://A.Test:8080/",
    "HTTPS://A.TEST:8080/",
    "http://A.test:443/",
    // user information in the authority: it names no other server - host and port still do
    "http://svc@u1.test:8080/",
    "http://svc@u2.test:8080/",
    "http://svc@u1.test:9090/",
    "https://svc:pw@u2.test/",
    // a fully qualified name (trailing dot) is another authority than the relative name
    "http://dot.test/",
    "http://dot.test./",
    "https://dot.test./",
    // no scheme at all (authority-form, what "a.test:8080".parse::<Uri>() gives when the scheme is
    // forgotten): not the origin of any URI with a scheme - refused or kept apart, never merged (32..)
    "a.test:8080",
    "b.test:80",
    "a.test:443",
    // ports beyond 65535: `http::Uri` accepts them (its `port()` then answers None); whatever they mean,
    // they are not the port-less origin and not one another (35..)
    "http://big.test/",
    "http://big.test:65536/",
    "http://big.test:70000/",
];

pub const NEAR_MISS_FROM: usize = 6;

/// URI for an origin index: the fixed table first, then arbitrarily many synthetic origins that also
/// differ in port and scheme.
pub fn origin_uri(idx: usize) -> String {
    if idx < ORIGINS.len() {
        ORIGINS[idx].to_string()
    } else {
        format!("{}://h{}.test:{}/", if idx % 7 == 0 { "https" } else { "http" }, idx / 2, 8000 + idx % 2)
    }
}

/// Normalised pool-relevant origin: (scheme, authority) lower-cased.
pub fn origin_key(uri: &http::Uri) -> String {
    let scheme = uri.scheme_str().unwrap_or("").to_ascii_lowercase();
    let default_port = match scheme.as_str() {
        "http" | "ws" => 80,
        "https" | "wss" => 443,
        _ => 0,
    };
    // the port as written: a number that is no u16 stays what it is (it is not "no port")
    let written: Option<&str> = uri.authority().and_then(|a| {
        let a = a.as_str();
        let a = a.rsplit_once('@').map(|(_, h)| h).unwrap_or(a);
        if let Some(rest) = a.strip_prefix('[') {
            rest.split_once("]:").map(|(_, p)| p)
        } else {
            a.rsplit_once(':').map(|(_, p)| p)
        }
    });
    let port = match written {
        None | Some("") => default_port.to_string(),
        Some(p) => p.parse::<u16>().map(|n| n.to_string()).unwrap_or_else(|_| p.to_string()),
    };
    format!("{}://{}:{}", scheme, uri.host().unwrap_or("").to_ascii_lowercase(), port)
}

#[derive(Clone, Copy, Debug, PartialEq, Eq)]
pub enum Tri {
    Pending,
    Ok,
    Fail,
}

#[derive(Clone, Copy, Debug, PartialEq, Eq)]
pub enum Actor {
    Idle,
    Issue(usize),
    Poll(usize),
    Cancel(usize),
    Bg,
}

#[derive(Clone, Copy, Debug, PartialEq, Eq)]
pub enum DStage {
    Connecting,
    /// transport returned its stream, protocol not yet called
    Connected,
    Handshaking,
    Done,
    Failed,
    Dropped,
}

#[derive(Debug)]
pub struct DialT {
    pub okey: String,
    pub h2req: bool,
    pub starter: Actor,
    pub start_step: usize,
    pub connect: Tri,
    pub handshake: Tri,
    pub alpn_h2: bool,
    pub stage: DStage,
    pub end_step: Option<usize>,
    pub waker: Option<Waker>,
    pub conn: Option<usize>,
    /// request on whose behalf the dial was started, when known
    pub owner_req: Option<usize>,
    /// the owner stopped driving this dial (cancelled / pre-empted / finished otherwise)
    pub abandoned_step: Option<usize>,
}

impl DialT {
    pub fn in_flight(&self) -> bool {
        matches!(self.stage, DStage::Connecting | DStage::Connected | DStage::Handshaking)
    }
}

#[derive(Debug)]
pub struct ConnT {
    pub okey: String,
    pub dial: usize,
    /// the protocol version the connection reports (HTTP/2 when asked for or negotiated) - shareable
    /// or not is a separate matter (`PoolCfg.single_use`)
    pub h2: bool,
    /// when the last handle was dropped while the connection was open: how many other open, unheld,
    /// single-use connections of its origin were alive at that moment (an upper bound of the open
    /// entries in the origin's idle list)
    pub drop_peers: Option<usize>,
    pub shareable: bool,
    pub open: bool,
    pub ready: bool,
    pub taken_over: bool,
    pub handles: usize,
    pub holders: Vec<usize>,
    pub wakers: Vec<Waker>,
    pub created_step: usize,
    pub created_by: Actor,
    pub close_step: Option<usize>,
    /// step of the most recent observed (re-)entry into the pool (background readiness poll)
    pub entry_step: Option<usize>,
    pub handoffs: u32,
    pub last_handoff_step: Option<usize>,
    /// certainly sitting in the pool's idle list (non-shareable only)
    pub sure_idle: bool,
    /// real-time upper bound of the instant the pool stamped this connection as idle
    pub entry_instant_ub: Option<std::time::Instant>,
    /// multiplexed connections: the latest instant at which the pool's handle may have been
    /// refreshed (creation, any request issued for the origin, any hand-off)
    pub shared_touch_ub: std::time::Instant,
    pub ever_pooled: bool,
}

#[derive(Clone, Copy, Debug, PartialEq, Eq)]
pub enum RStatus {
    Unpolled,
    Polling,
    Holding(usize),
    Done,
    Cancelled,
}

pub struct Flag(pub AtomicUsize);
impl Wake for Flag {
    fn wake(self: Arc<Self>) {
        self.0.fetch_add(1, Ordering::SeqCst);
    }
    fn wake_by_ref(self: &Arc<Self>) {
        self.0.fetch_add(1, Ordering::SeqCst);
    }
}

#[derive(Debug)]
pub struct ReqT {
    pub okey: String,
    pub origin_idx: usize,
    pub h2: bool,
    pub status: RStatus,
    pub issue_step: usize,
    pub first_poll_step: Option<usize>,
    pub polls: u32,
    pub handoff: Option<(usize, usize)>,
    pub must_not_dial: Option<&'static str>,
    pub dials: Vec<usize>,
    pub release: bool,
    pub release_waker: Option<Waker>,
    pub result: Option<Result<(), String>>,
    pub probe: bool,
    pub end_step: Option<usize>,
    pub timed: bool,
    /// virtual deadline of the request when a timeout is configured
    pub deadline_ms: Option<u64>,
    pub issue_instant: std::time::Instant,
    /// for multiplexed connections of the request's origin: an upper bound of the instant since which
    /// the pool's handle had not been touched, taken just before this request was issued
    pub shared_idle_since: Vec<(usize, std::time::Instant)>,
    /// at issue the pool certainly had nothing for this origin and no attempt to wait for: the
    /// request certainly carries a connector of its own
    pub has_connector_for_sure: bool,
    /// at issue an idle connection was certainly available: the request took it and is not
    /// registered as a waiter while unpolled
    pub popped_for_sure: bool,
}

/// C14(a) obligation: connection `conn` entered the pool while the requests `waiting` were
/// without a connection; it must be handed to one of them by the time each has been polled.
#[derive(Debug)]
pub struct Obligation {
    pub conn: usize,
    pub entry_step: usize,
    /// requests waiting for their own in-flight dial: registered with the pool for sure
    pub certain: Vec<usize>,
    /// every request lacking a connection at the entry (certain ones included)
    pub waiting: Vec<usize>,
    pub polled: BTreeSet<usize>,
    pub single_polled_waiter: bool,
}

#[derive(Default)]
pub struct World {
    pub step: usize,
    pub actor_: Option<Actor>,
    pub dials: Vec<DialT>,
    pub conns: Vec<ConnT>,
    pub reqs: Vec<ReqT>,
    pub log: Vec<String>,
    pub violations: Vec<(String, String)>,
    pub obligations: Vec<Obligation>,
    /// the connection whose holder is letting go of its handle right now (`HoldFuture::unhold`)
    pub releasing: Option<usize>,
    /// real-time instant at which the case started
    pub started: Option<std::time::Instant>,
    pub classes: BTreeSet<&'static str>,
    pub cfg: PoolCfg,
    pub logging: bool,
    /// (cancel step, set of connections that must survive) checked at the next Bg
    pub cancel_watch: Vec<(usize, usize, Vec<usize>)>,
    pub internal: Option<String>,
    /// virtual clock (sum of Advance operations), ms
    pub now_ms: u64,
    /// step of the most recent completed background step
    pub last_bg_step: usize,
}

pub type W = Arc<Mutex<World>>;

impl World {
    pub fn actor(&self) -> Actor {
        self.actor_.unwrap_or(Actor::Idle)
    }
    fn log(&mut self, s: impl FnOnce() -> String) {
        if self.logging {
            let st = self.step;
            let s = s();
            self.log.push(format!("[{st:>3}] {s}"));
        }
    }
    fn violate(&mut self, sig: &str, msg: String) {
        if !self.violations.iter().any(|(s, _)| s == sig) {
            let st = self.step;
            self.log(|| format!("!! {sig}: {msg}"));
            self.violations.push((sig.to_string(), format!("step {st}: {msg}")));
        }
    }
    /// requests of `okey` that are issued, alive and without a connection; (definite, maybe)
    fn hungry(&self, okey: &str, except: Option<usize>) -> (Vec<usize>, Vec<usize>) {
        let mut def = vec![];
        let mut maybe = vec![];
        for (i, r) in self.reqs.iter().enumerate() {
            if r.okey != okey || Some(i) == except {
                continue;
            }
            match r.status {
                RStatus::Polling => def.push(i),
                RStatus::Unpolled if !r.popped_for_sure => maybe.push(i),
                _ => {}
            }
        }
        (def, maybe)
    }
    /// lower bound on the number of open non-shareable connections in the idle list of `okey`
    fn idle_lb(&self, okey: &str) -> i64 {
        let sure = self
            .conns
            .iter()
            .filter(|c| {
                c.okey == okey
                    && !c.shareable
                    && c.sure_idle
                    && c.open
                    && c.ready
                    && c.handles >= 1
                    && c.holders.is_empty()
                    && !c.taken_over
            })
            .count() as i64;
        let unpolled = self
            .reqs
            .iter()
            .filter(|r| r.okey == okey && r.status == RStatus::Unpolled)
            .count() as i64;
        sure - unpolled
    }
    fn shareable_available(&self, okey: &str) -> Option<usize> {
        self.conns.iter().position(|c| {
            c.okey == okey
                && c.shareable
                && c.open
                && c.handles >= 1
                && c.created_step < self.step
                && !c.taken_over
        })
    }
    fn cfg_plain(&self) -> bool {
        // no capacity / expiry interference for the reuse rules
        self.cfg.max_idle >= 16
            && match self.cfg.idle_timeout_ms {
                None | Some(0) | Some(3_600_000) | Some(u64::MAX) => true,
                // a short (sub-second or fractional) timeout is no interference either while the whole case
                // is younger than a third of it in real time: nothing can have been idle for that long
                Some(t) if t >= 900 => self.started.map(|s| s.elapsed() < Duration::from_millis(t / 3)).unwrap_or(false),
                _ => false,
            }
    }
}

// ------------------------------------------------------------------------------------------------
// transport

#[derive(Clone)]
pub struct HTransport(pub W);

pub struct HStream {
    pub w: W,
    pub dial: usize,
    pub consumed: bool,
}

impl Drop for HStream {
    fn drop(&mut self) {
        if !self.consumed {
            let mut w = self.w.lock().unwrap();
            let st = w.step;
            let d = &mut w.dials[self.dial];
            if d.stage == DStage::Connected {
                d.stage = DStage::Dropped;
                d.end_step = Some(st);
            }
        }
    }
}

impl std::fmt::Debug for HStream {
    fn fmt(&self, f: &mut std::fmt::Formatter<'_>) -> std::fmt::Result {
        write!(f, "HStream(dial#{})", self.dial)
    }
}

#[derive(Debug, Clone, PartialEq, Eq, Hash)]
pub struct HAddr;
impl std::fmt::Display for HAddr {
    fn fmt(&self, f: &mut std::fmt::Formatter<'_>) -> std::fmt::Result {
        write!(f, "haddr")
    }
}
impl HasConnectionInfo for HStream {
    type Addr = HAddr;
    fn info(&self) -> ConnectionInfo<HAddr> {
        ConnectionInfo { local_addr: HAddr, remote_addr: HAddr }
    }
}
impl PoolableStream for HStream {
    fn can_share(&self) -> bool {
        false
    }
}

#[derive(Debug)]
pub struct HErr(pub &'static str);
impl std::fmt::Display for HErr {
    fn fmt(&self, f: &mut std::fmt::Formatter<'_>) -> std::fmt::Result {
        write!(f, "{}", self.0)
    }
}
impl std::error::Error for HErr {}

pub struct DialFuture {
    w: W,
    id: usize,
    done: bool,
}
impl Future for DialFuture {
    type Output = Result<HStream, HErr>;
    fn poll(mut self: Pin<&mut Self>, cx: &mut Context<'_>) -> Poll<Self::Output> {
        let id = self.id;
        let mut w = self.w.lock().unwrap();
        if self.done {
            // a real transport future may panic here: whoever polls a finished future is at fault
            let actor = w.actor();
            w.violate("C17/connect-future-polled-after-completion", format!("the connect future of dial #{id} was polled again by {actor:?} after it had completed"));
            if w.cfg.fused_attempts {
                return Poll::Pending;
            }
            return Poll::Ready(Err(HErr("polled after completion")));
        }
        let st = w.step;
        let d = &mut w.dials[id];
        match d.connect {
            Tri::Pending => {
                d.waker = Some(cx.waker().clone());
                Poll::Pending
            }
            Tri::Ok => {
                d.stage = DStage::Connected;
                drop(w);
                self.done = true;
                Poll::Ready(Ok(HStream { w: self.w.clone(), dial: id, consumed: false }))
            }
            Tri::Fail => {
                d.stage = DStage::Failed;
                d.end_step = Some(st);
                drop(w);
                self.done = true;
                Poll::Ready(Err(HErr("dial failed")))
            }
        }
    }
}
impl Drop for DialFuture {
    fn drop(&mut self) {
        if !self.done {
            let mut w = self.w.lock().unwrap();
            let st = w.step;
            let id = self.id;
            let d = &mut w.dials[id];
            if d.stage == DStage::Connecting {
                d.stage = DStage::Dropped;
                d.end_step = Some(st);
            }
            w.log(|| format!("dial#{id} future dropped"));
        }
    }
}

impl tower::Service<http::request::Parts> for HTransport {
    type Response = HStream;
    type Error = HErr;
    type Future = DialFuture;
    fn poll_ready(&mut self, _: &mut Context<'_>) -> Poll<Result<(), HErr>> {
        Poll::Ready(Ok(()))
    }
    fn call(&mut self, req: http::request::Parts) -> DialFuture {
        let mut w = self.0.lock().unwrap();
        let id = w.dials.len();
        let okey = origin_key(&req.uri);
        let h2req = req.version == http::Version::HTTP_2;
        let actor = w.actor();
        let step = w.step;
        let owner_req = match actor {
            Actor::Poll(r) => Some(r),
            _ => None,
        };

        // ---- C04 rule A: a request that had a reusable connection available must not dial
        if let Some(r) = owner_req {
            if let Some(why) = w.reqs[r].must_not_dial {
                let msg = format!(
                    "request #{r} ({}) started dial #{id} although {why} at its issue (step {})",
                    w.reqs[r].okey, w.reqs[r].issue_step
                );
                if why.starts_with("h2-dial-in-flight") {
                    w.violate("C04/B-duplicate-h2-dial", msg);
                } else {
                    w.violate(&format!("C04/A-dial-despite-{why}"), msg);
                }
            }
        }
        if let Some(r) = owner_req {
            w.reqs[r].dials.push(id);
        }
        w.dials.push(DialT {
            okey,
            h2req,
            starter: actor,
            start_step: step,
            connect: Tri::Pending,
            handshake: Tri::Pending,
            alpn_h2: false,
            stage: DStage::Connecting,
            end_step: None,
            waker: None,
            conn: None,
            owner_req,
            abandoned_step: None,
        });
        let uri = req.uri.clone();
        w.log(|| format!("dial#{id} start {uri} h2req={h2req} by {actor:?}"));
        DialFuture { w: self.0.clone(), id, done: false }
    }
}

// ------------------------------------------------------------------------------------------------
// protocol

#[derive(Clone)]
pub struct HProtocol(pub W);

pub struct HandshakeFuture {
    w: W,
    id: usize,
    done: bool,
}
impl Future for HandshakeFuture {
    type Output = Result<HConn, ConnectionError>;
    fn poll(mut self: Pin<&mut Self>, cx: &mut Context<'_>) -> Poll<Self::Output> {
        let did = self.id;
        let mut w = self.w.lock().unwrap();
        if self.done {
            let actor = w.actor();
            w.violate("C17/handshake-future-polled-after-completion", format!("the handshake future of dial #{did} was polled again by {actor:?} after it had completed"));
            if w.cfg.fused_attempts {
                return Poll::Pending;
            }
            return Poll::Ready(Err(ConnectionError::Handshake(Box::new(HErr("polled after completion")))));
        }
        let st = w.step;
        let actor = w.actor();
        match w.dials[did].handshake {
            Tri::Pending => {
                w.dials[did].waker = Some(cx.waker().clone());
                Poll::Pending
            }
            Tri::Fail => {
                w.dials[did].stage = DStage::Failed;
                w.dials[did].end_step = Some(st);
                drop(w);
                self.done = true;
                Poll::Ready(Err(ConnectionError::Handshake(Box::new(HErr("handshake failed")))))
            }
            Tri::Ok => {
                let id = w.conns.len();
                let okey = w.dials[did].okey.clone();
                let is_h2 = w.dials[did].h2req || w.dials[did].alpn_h2;
                let shareable = !w.cfg.single_use && is_h2;
                w.dials[did].stage = DStage::Done;
                w.dials[did].end_step = Some(st);
                w.dials[did].conn = Some(id);
                w.conns.push(ConnT {
                    okey,
                    dial: did,
                    h2: is_h2,
                    drop_peers: None,
                    shareable,
                    open: true,
                    ready: true,
                    taken_over: false,
                    handles: 1,
                    holders: vec![],
                    wakers: vec![],
                    created_step: st,
                    created_by: actor,
                    close_step: None,
                    entry_step: None,
                    handoffs: 0,
                    last_handoff_step: None,
                    sure_idle: false,
                    entry_instant_ub: None,
                    shared_touch_ub: std::time::Instant::now() + Duration::from_millis(1),
                    ever_pooled: matches!(actor, Actor::Bg),
                });
                w.log(|| format!("conn#{id} from dial#{did} shareable={shareable} by {actor:?}"));
                if shareable {
                    w.classes.insert("h2-conn-created");
                }
                drop(w);
                self.done = true;
                Poll::Ready(Ok(HConn { w: self.w.clone(), id }))
            }
        }
    }
}
impl Drop for HandshakeFuture {
    fn drop(&mut self) {
        if !self.done {
            let mut w = self.w.lock().unwrap();
            let st = w.step;
            let id = self.id;
            let d = &mut w.dials[id];
            if d.stage == DStage::Handshaking {
                d.stage = DStage::Dropped;
                d.end_step = Some(st);
            }
            w.log(|| format!("dial#{id} handshake future dropped"));
        }
    }
}

impl tower::Service<ProtocolRequest<HStream, B>> for HProtocol {
    type Response = HConn;
    type Error = ConnectionError;
    type Future = HandshakeFuture;
    fn poll_ready(&mut self, _: &mut Context<'_>) -> Poll<Result<(), ConnectionError>> {
        Poll::Ready(Ok(()))
    }
    fn call(&mut self, req: ProtocolRequest<HStream, B>) -> HandshakeFuture {
        let mut stream = req.transport;
        let did = stream.dial;
        stream.consumed = true;
        let mut w = self.0.lock().unwrap();
        // the version the pool asks for decides multiplexing, as in HttpConnectionBuilder
        let want_h2 = req.version.multiplex();
        if want_h2 != w.dials[did].h2req {
            w.internal = Some(format!(
                "protocol version mismatch for dial {did}: parts say h2={}, protocol request h2={want_h2}",
                w.dials[did].h2req
            ));
        }
        w.dials[did].stage = DStage::Handshaking;
        drop(w);
        drop(stream);
        HandshakeFuture { w: self.0.clone(), id: did, done: false }
    }
}

// ------------------------------------------------------------------------------------------------
// connection

pub struct HConn {
    pub w: W,
    pub id: usize,
}
impl std::fmt::Debug for HConn {
    fn fmt(&self, f: &mut std::fmt::Formatter<'_>) -> std::fmt::Result {
        write!(f, "HConn#{}", self.id)
    }
}
impl Drop for HConn {
    fn drop(&mut self) {
        let mut w = self.w.lock().unwrap();
        let id = self.id;
        w.conns[id].handles -= 1;
        let h = w.conns[id].handles;
        if h == 0 {
            w.conns[id].sure_idle = false;
            if w.conns[id].open {
                let okey = w.conns[id].okey.clone();
                // (a shareable connection occupies an idle slot with the pool's own handle for as long as it lives)
                let peers = w.conns.iter().enumerate().filter(|(i, c)| *i != id && c.okey == okey && c.open && c.handles >= 1 && (c.shareable || c.holders.is_empty())).count();
                w.conns[id].drop_peers = Some(peers);
                // C04: the hand-back task has just seen this connection ready (it entered the pool in this very
                // step), nobody lacks a connection for its origin, and fewer open connections than the limit
                // are idle there (closed entries make room) - yet it was dropped: the next request dials
                // although this one could have been kept for it
                let plain_h1 = !w.conns[id].h2 && !w.dials[w.conns[id].dial].h2req && !w.cfg.single_use;
                if w.actor() == Actor::Bg && plain_h1 && !w.conns[id].shareable && w.conns[id].ready && w.conns[id].entry_step == Some(w.step) && peers < w.cfg.max_idle {
                    let (def, maybe) = w.hungry(&okey, None);
                    if def.is_empty() && maybe.is_empty() && !w.reqs.iter().any(|r| r.okey == okey && r.status == RStatus::Unpolled) {
                        let msg = format!("connection #{id} of {okey} was handed back ready with nobody waiting and {peers} open idle connection(s) under max_idle {}, and was dropped instead of kept", w.cfg.max_idle);
                        w.violate("C04/released-connection-dropped-although-the-idle-list-has-room", msg);
                    }
                }
                // C14: the holder's release itself (not the cancellation of a request that had merely been
                // assigned an idle connection) destroyed an open single-use connection (no hand-back
                // task ever looked at it) while a polled request of the same origin waits for its own
                // dial - whatever the idle limit is, that request was to be served by this connection
                let a = w.actor();
                if matches!(a, Actor::Poll(_) | Actor::Cancel(_)) && !w.conns[id].shareable && w.conns[id].handoffs >= 1 && w.releasing == Some(id) {
                    let (def_all, _) = w.hungry(&okey, None);
                    let def: Vec<usize> = def_all.into_iter().filter(|r| w.reqs[*r].dials.iter().any(|d| w.dials[*d].in_flight())).collect();
                    if !def.is_empty() {
                        let msg = format!(
                            "open connection #{id} of {okey} was destroyed at its release ({a:?}, max_idle {}) while requests {def:?} were waiting for their own dials: none of them can be served by it",
                            w.cfg.max_idle
                        );
                        w.violate("C14/a-released-connection-destroyed-while-request-waits", msg);
                    }
                }
            }
        }
        let a = w.actor();
        w.log(|| format!("conn#{id} handle dropped (left {h}) during {a:?}"));
    }
}
impl Connection<B> for HConn {
    type ResBody = B;
    type Error = HErr;
    type Future = Pin<Box<dyn Future<Output = Result<http::Response<B>, HErr>> + Send>>;
    fn send_request(&mut self, _request: http::Request<B>) -> Self::Future {
        Box::pin(async { Ok(http::Response::new(Empty::new())) })
    }
    fn poll_ready(&mut self, cx: &mut Context<'_>) -> Poll<Result<(), HErr>> {
        let mut w = self.w.lock().unwrap();
        let id = self.id;
        let actor = w.actor();
        let st = w.step;
        if !w.conns[id].open {
            if w.cfg.ready_hides_close {
                return Poll::Ready(Ok(()));
            }
            return Poll::Ready(Err(HErr("closed")));
        }
        if w.conns[id].ready || w.conns[id].shareable {
            if actor == Actor::Bg && !w.conns[id].shareable {
                // hand-back task observed readiness: the connection (re-)enters the pool now
                on_pool_entry(&mut w, id, st);
            }
            Poll::Ready(Ok(()))
        } else {
            w.conns[id].wakers.push(cx.waker().clone());
            Poll::Pending
        }
    }
    fn version(&self) -> http::Version {
        let w = self.w.lock().unwrap();
        if w.conns[self.id].h2 {
            http::Version::HTTP_2
        } else if w.cfg.conn_version_10 {
            http::Version::HTTP_10
        } else {
            http::Version::HTTP_11
        }
    }
}

fn on_pool_entry(w: &mut World, id: usize, st: usize) {
    let okey = w.conns[id].okey.clone();
    w.conns[id].entry_step = Some(st);
    w.conns[id].ever_pooled = true;
    let pooled_now = w
        .conns
        .iter()
        .filter(|c| c.okey == okey && !c.shareable && c.entry_step.is_some() && c.open && c.handles >= 1 && c.holders.is_empty())
        .count();
    if pooled_now > w.cfg.max_idle {
        w.classes.insert("idle-surplus-released");
    }
    let (def_all, maybe) = w.hungry(&okey, None);
    // a newer entry supersedes older obligations of the same connection
    w.obligations.retain(|o| o.conn != id);
    // C14 speaks about requests that are still waiting for their OWN connection attempt
    let def: Vec<usize> = def_all
        .iter()
        .copied()
        .filter(|r| w.reqs[*r].dials.iter().any(|d| w.dials[*d].in_flight()))
        .collect();
    if def_all.is_empty() && maybe.is_empty() {
        w.conns[id].sure_idle = true;
        w.log(|| format!("conn#{id} enters pool (idle, nobody waiting)"));
    } else {
        w.conns[id].sure_idle = false;
        let single = def.len() == 1 && def_all.len() == 1 && maybe.is_empty();
        let mut waiting = def_all.clone();
        waiting.extend(maybe.iter().copied());
        w.log(|| format!("conn#{id} enters pool while requests {def_all:?} (polled) {maybe:?} (unpolled) lack a connection"));
        if !def.is_empty() {
            w.classes.insert("release-while-polled-request-waits");
        }
        // Certain only when at least one request waits for its own dial in flight: such a
        // request is registered with the pool for sure, so the connection cannot go idle; it is
        // delivered to the first registered request among all that lack a connection.
        if !def.is_empty() {
        w.obligations.push(Obligation {
            conn: id,
            entry_step: st,
            certain: def.clone(),
            waiting,
            polled: BTreeSet::new(),
            single_polled_waiter: single,
        });
        }
    }
}

impl PoolableConnection<B> for HConn {
    fn is_open(&self) -> bool {
        let w = self.w.lock().unwrap();
        let c = &w.conns[self.id];
        c.open && (c.ready || c.shareable || !w.cfg.open_is_ready)
    }
    fn can_share(&self) -> bool {
        self.w.lock().unwrap().conns[self.id].shareable
    }
    fn reuse(&mut self) -> Option<Self> {
        let mut w = self.w.lock().unwrap();
        if w.conns[self.id].shareable {
            w.conns[self.id].handles += 1;
            Some(HConn { w: self.w.clone(), id: self.id })
        } else {
            None
        }
    }
}

// ------------------------------------------------------------------------------------------------
// inner service: the observation point

#[derive(Clone)]
pub struct HService(pub W);

pub struct HoldFuture {
    w: W,
    req: usize,
    conn: Option<Pooled<HConn, B>>,
}
impl HoldFuture {
    fn unhold(&mut self) {
        if let Some(c) = self.conn.take() {
            let cid = c.id;
            let req = self.req;
            {
                let mut w = self.w.lock().unwrap();
                w.conns[cid].holders.retain(|r| *r != req);
                w.log(|| format!("req#{req} lets go of conn#{cid}"));
                w.releasing = Some(cid);
            }
            drop(c);
            self.w.lock().unwrap().releasing = None;
        }
    }
}
impl Future for HoldFuture {
    type Output = Result<http::Response<B>, hyperdriver::client::Error>;
    fn poll(mut self: Pin<&mut Self>, cx: &mut Context<'_>) -> Poll<Self::Output> {
        let req = self.req;
        let released = {
            let mut w = self.w.lock().unwrap();
            if w.reqs[req].release {
                true
            } else {
                w.reqs[req].release_waker = Some(cx.waker().clone());
                false
            }
        };
        if released {
            self.unhold();
            Poll::Ready(Ok(http::Response::new(Empty::new())))
        } else {
            Poll::Pending
        }
    }
}
impl Drop for HoldFuture {
    fn drop(&mut self) {
        self.unhold();
    }
}

impl tower::Service<ExecuteRequest<Pooled<HConn, B>, B>> for HService {
    type Response = http::Response<B>;
    type Error = hyperdriver::client::Error;
    type Future = HoldFuture;
    fn poll_ready(&mut self, _: &mut Context<'_>) -> Poll<Result<(), Self::Error>> {
        Poll::Ready(Ok(()))
    }
    fn call(&mut self, req: ExecuteRequest<Pooled<HConn, B>, B>) -> HoldFuture {
        let (mut conn, request) = req.into_parts();
        if self.0.lock().unwrap().cfg.holder_polls_ready {
            // (the result does not matter here: a connection that is not ready is reported by the hand-off monitors)
            let w = futures_util::task::noop_waker();
            let mut cx = Context::from_waker(&w);
            let _ = <Pooled<HConn, B> as Connection<B>>::poll_ready(&mut conn, &mut cx);
        }
        let rid: usize = request
            .headers()
            .get("x-req")
            .and_then(|v| v.to_str().ok())
            .and_then(|v| v.parse().ok())
            .expect("x-req header");
        let cid = conn.id;
        let mut w = self.0.lock().unwrap();
        let st = w.step;
        handoff(&mut w, rid, cid, st, &origin_key(request.uri()));
        drop(w);
        HoldFuture { w: self.0.clone(), req: rid, conn: Some(conn) }
    }
}

/// All hand-off monitors (C02, C05, C06) and bookkeeping.
fn handoff(w: &mut World, rid: usize, cid: usize, st: usize, req_okey: &str) {
    let c = &w.conns[cid];
    let line = format!(
        "handoff req#{rid} <- conn#{cid} (shareable={} open={} ready={} holders={:?} conn_origin={} req_origin={})",
        c.shareable, c.open, c.ready, c.holders, c.okey, req_okey
    );
    w.log(|| line.clone());
    let c = &w.conns[cid];
    let pooled_before = c.ever_pooled || c.handoffs > 0;

    // ---- C06
    if c.okey != req_okey {
        let msg = format!("request #{rid} for {req_okey} was given connection #{cid} dialed for {}", c.okey);
        w.violate("C06/cross-origin-handoff", msg);
    }
    let c = &w.conns[cid];
    // ---- C02
    if !c.shareable {
        if !c.holders.is_empty() {
            let msg = format!("non-multiplexed connection #{cid} handed to request #{rid} while held by {:?}", c.holders);
            w.violate("C02/handoff-while-held", msg);
        }
        let c = &w.conns[cid];
        if c.taken_over {
            let msg = format!("connection #{cid} was taken over by an upgrade and is handed to request #{rid}");
            w.violate("C02/handoff-after-takeover", msg);
        } else if !c.ready && c.open {
            let msg = format!("non-multiplexed connection #{cid} handed to request #{rid} before it reported ready after its previous use");
            w.violate("C02/handoff-not-ready", msg);
        }
    }
    let c = &w.conns[cid];
    // ---- C05
    if pooled_before {
        if let Some(k) = c.close_step {
            let issue = w.reqs[rid].issue_step;
            let entry = c.entry_step.unwrap_or(0);
            if !c.taken_over && (k < issue || k < entry) {
                let msg = format!(
                    "request #{rid} (issued step {issue}) was given pooled connection #{cid} which was closed at step {k} (last pool entry step {entry})"
                );
                w.violate("C05/closed-connection-handed-out", msg);
            }
        }
    }
    // ---- C05 expiry (real time, one-sided): certainly older than the idle timeout at issue
    if let (Some(t), Some(ub), false) = (w.cfg.idle_timeout_ms.filter(|t| *t > 0), w.conns[cid].entry_instant_ub, w.conns[cid].shareable) {
        let issue = w.reqs[rid].issue_instant;
        let entered_after_issue = w.conns[cid].entry_step.map(|e| e > w.reqs[rid].issue_step).unwrap_or(true);
        if !entered_after_issue {
            if let Some(age) = issue.checked_duration_since(ub) {
                if age > Duration::from_millis(t.saturating_add(20)) {
                    let msg = format!("request #{rid} was given pooled connection #{cid} which had been idle for at least {} ms when the request was issued (idle_timeout {t} ms)", age.as_millis());
                    w.violate("C05/expired-connection-handed-out", msg);
                }
                if age > Duration::from_millis(t) {
                    w.classes.insert("handoff-near-or-after-expiry");
                }
            }
        }
    }
    // ---- C05 expiry of a multiplexed connection: its pooled handle had certainly not been touched
    // for longer than the idle timeout when this request was issued
    if let (Some(t), true) = (w.cfg.idle_timeout_ms.filter(|t| *t > 0), w.conns[cid].shareable) {
        if let Some((_, since)) = w.reqs[rid].shared_idle_since.iter().find(|(c, _)| *c == cid) {
            if let Some(age) = w.reqs[rid].issue_instant.checked_duration_since(*since) {
                if age > Duration::from_millis(t.saturating_add(20)) {
                    let msg = format!("request #{rid} was given the multiplexed connection #{cid} whose pooled handle had not been used for at least {} ms when the request was issued (idle_timeout {t} ms)", age.as_millis());
                    w.violate("C05/expired-connection-handed-out", msg);
                }
                if age > Duration::from_millis(t) {
                    w.classes.insert("shared-handoff-near-or-after-expiry");
                }
            }
        }
    }
    // ---- bookkeeping
    let reused = w.conns[cid].handoffs > 0 || w.conns[cid].ever_pooled;
    if reused && w.conns.iter().any(|o| o.okey != w.conns[cid].okey && o.handles >= 1 && o.open) {
        w.classes.insert("reuse-while-other-origin-connection-alive");
    }
    if reused {
        w.classes.insert("conn-reused");
        if !w.conns[cid].shareable {
            w.classes.insert("h1-conn-reused");
        }
    }
    if w.conns[cid].shareable && !w.conns[cid].holders.is_empty() {
        w.classes.insert("h2-multiplexed");
    }
    let c = &mut w.conns[cid];
    c.holders.push(rid);
    c.handoffs += 1;
    c.last_handoff_step = Some(st);
    c.sure_idle = false;
    if !c.shareable {
        c.ready = false;
    }
    w.obligations.retain(|o| o.conn != cid);
    // a waiting request that is served by another pooled connection (not its own dial) no longer
    // waits: its place in the queue was already taken by that connection
    let own_dial = w.dials[w.conns[cid].dial].owner_req == Some(rid);
    if !own_dial {
        for o in w.obligations.iter_mut() {
            o.waiting.retain(|r| *r != rid);
            o.certain.retain(|r| *r != rid);
        }
        w.obligations.retain(|o| !o.certain.is_empty());
    }
    if matches!(w.reqs[rid].status, RStatus::Done | RStatus::Cancelled) {
        let msg = format!("request #{rid} received connection #{cid} after it had already resolved or been dropped ({:?})", w.reqs[rid].status);
        w.violate("C19/handoff-after-request-ended", msg);
    }
    let r = &mut w.reqs[rid];
    if r.handoff.is_some() {
        w.internal = Some(format!("request {rid} handed a second connection"));
    }
    let r = &mut w.reqs[rid];
    r.handoff = Some((cid, st));
    r.status = RStatus::Holding(cid);
    // a dial this request was driving is now abandoned (pre-empted) unless it produced this conn
    let dials = r.dials.clone();
    for d in dials {
        if w.dials[d].conn != Some(cid) && w.dials[d].abandoned_step.is_none() && w.dials[d].in_flight() {
            w.dials[d].abandoned_step = Some(st);
            w.classes.insert("dial-preempted");
        }
    }
}

/// A pool key a user may write: equal iff scheme and authority are equal (letter case aside), as the
/// crate's own `UriKey` - but hashed by the host alone, so that the origins of one host collide in any
/// hash table. Legal (`Eq`-equal keys hash alike); a table must fall back on `Eq`.
#[derive(Debug, Clone, PartialEq, Eq)]
pub struct CoarseKey {
    scheme: String,
    authority: String,
    host: String,
}
impl std::hash::Hash for CoarseKey {
    fn hash<H: std::hash::Hasher>(&self, state: &mut H) {
        self.host.hash(state);
    }
}
impl<'a> TryFrom<&'a http::request::Parts> for CoarseKey {
    type Error = hyperdriver::client::pool::UriError;
    fn try_from(parts: &'a http::request::Parts) -> Result<Self, Self::Error> {
        // the same requests are refused as with the crate's own key
        let _ = hyperdriver::client::pool::UriKey::try_from(parts)?;
        Ok(CoarseKey {
            scheme: parts.uri.scheme_str().unwrap_or("").to_ascii_lowercase(),
            authority: parts.uri.authority().map(|a| a.as_str().to_ascii_lowercase()).unwrap_or_default(),
            host: parts.uri.host().unwrap_or("").to_ascii_lowercase(),
        })
    }
}

#[derive(Clone)]
pub enum Svc {
    Uri(ConnectionPoolService<HTransport, HProtocol, HService, B>),
    Coarse(ConnectionPoolService<HTransport, HProtocol, HService, B, CoarseKey>),
}
impl tower::Service<http::Request<B>> for Svc {
    type Response = http::Response<B>;
    type Error = hyperdriver::client::Error;
    type Future = Pin<Box<dyn Future<Output = Result<http::Response<B>, hyperdriver::client::Error>> + Send>>;
    fn poll_ready(&mut self, cx: &mut Context<'_>) -> Poll<Result<(), Self::Error>> {
        match self {
            Svc::Uri(s) => s.poll_ready(cx),
            Svc::Coarse(s) => s.poll_ready(cx),
        }
    }
    fn call(&mut self, req: http::Request<B>) -> Self::Future {
        match self {
            Svc::Uri(s) => Box::pin(s.call(req)),
            Svc::Coarse(s) => Box::pin(s.call(req)),
        }
    }
}

// ------------------------------------------------------------------------------------------------
// cases

#[derive(Clone, Debug, Default, Serialize, Deserialize, PartialEq)]
pub struct PoolCfg {
    /// None = no idle timeout
    pub idle_timeout_ms: Option<u64>,
    pub max_idle: usize,
    pub cont: bool,
    /// request timeout through hyperdriver's Timeout layer (virtual ms)
    pub req_timeout_ms: Option<u64>,
    /// what the model connection's `is_open()` means: true = "open and ready for a request" (as
    /// the crate's own HttpConnection), false = "not closed" (the trait only says "is open"; the
    /// pool must then rely on poll_ready before handing a released connection out again)
    #[serde(default = "yes")]
    pub open_is_ready: bool,
    /// caller-supplied Host header: 0 none; 1 every request carries `Host: shared.example`;
    /// 2 every second request does (virtual hosting / proxying: the header names a host that differs
    /// from the URI's; the pool must still key connections by the URI)
    #[serde(default)]
    pub caller_host: u8,
    /// every connection is single-use (`can_share() == false`) whatever version was asked for, as
    /// with a custom `Protocol` (the crate's own `MockTransport::single()` behaves like this): requests
    /// that waited on an "HTTP/2" attempt are then served one after the other
    #[serde(default)]
    pub single_use: bool,
    /// the holder of a connection waits for readiness *through the pooled handle* (`poll_ready`, as
    /// `ConnectionExt::when_ready` does) before it sends its request, instead of sending at once
    #[serde(default)]
    pub holder_polls_ready: bool,
    /// `poll_ready` does not notice that the peer closed the connection (as the crate's own mock
    /// connection: always `Ok`); `is_open` - the documented authority - does
    #[serde(default)]
    pub ready_hides_close: bool,
    /// how the pooling service is put together: 0 `ConnectionPoolService::new`, 1.. through
    /// `ConnectionPoolLayer` with one or two configuration calls - the last call decides
    #[serde(default)]
    pub build_path: u8,
    /// connect and handshake futures are fused: polled again after completion they answer Pending for
    /// ever (as `futures::future::Fuse` does) instead of failing at once - whoever polls a finished
    /// future is at fault either way, but the consequences differ
    #[serde(default)]
    pub fused_attempts: bool,
    /// the pool is keyed by a user-written key type whose hash is coarser than its equality (`CoarseKey`)
    #[serde(default)]
    pub coarse_key: bool,
    /// 0: the pool is built on the runtime that uses it; 1: on an earlier runtime that has been dropped;
    /// 2: outside any runtime
    #[serde(default)]
    pub built_on: u8,
    /// single-use connections report HTTP/1.0 as their version (a legal `Connection`): nothing about
    /// readiness or pooling depends on it
    #[serde(default)]
    pub conn_version_10: bool,
}
fn yes() -> bool {
    true
}

#[derive(Clone, Debug, Serialize, Deserialize, PartialEq)]
pub enum Op {
    Issue { origin: u8, h2: bool },
    Poll(u16),
    Cancel(u16),
    DialOk(u16),
    DialFail(u16),
    HsOk(u16, bool),
    HsFail(u16),
    Release(u16),
    ConnReady(u16),
    ConnClose(u16),
    TakeOver(u16),
    Bg,
    /// composite: issue a request and drive it to completion (dial, handshake, poll, release,
    /// poll, connection ready, background) so that it leaves a pooled connection behind
    Warm { origin: u8, h2: bool },
    /// composite: issue a request and drive it until it holds a connection (no release)
    Hold { origin: u8, h2: bool },
    /// composite: one complete HTTP/1 exchange with each of `n` further distinct origins (indices 6..6+n)
    Sweep { n: u16 },
    /// issue a request to an arbitrary origin index (many-origins leg)
    IssueAt { origin: u16, h2: bool },
    /// real-time sleep (idle expiry variant only)
    Sleep(u16),
    /// virtual time advance (timeouts)
    Advance(u16),
    /// spurious wake-up: everybody waiting for a busy connection to become ready is woken although
    /// nothing about the connection changed (more of the response arrived, say) - allowed by the waker
    /// contract; whoever is woken has to ask the connection again
    ConnNudge(u16),
}

#[derive(Clone, Debug, Serialize, Deserialize, PartialEq)]
pub struct PoolCase {
    pub cfg: PoolCfg,
    pub ops: Vec<Op>,
}

// ------------------------------------------------------------------------------------------------
// interpreter

type Fut = Pin<Box<dyn Future<Output = Result<http::Response<B>, hyperdriver::client::Error>> + Send>>;

struct Slot {
    fut: Option<Fut>,
    flag: Arc<Flag>,
    /// wake count at the start of the previous poll / of the latest poll
    prev_start: usize,
    last_start: usize,
    polled_wakes: usize,
}

pub struct Sim {
    pub w: W,
    svc: Svc,
    slots: Vec<Slot>,
    cfg: PoolCfg,
    pub noop: u64,
    pub total: u64,
}

fn timeout_error() -> hyperdriver::client::Error {
    hyperdriver::client::Error::RequestTimeout
}

impl Sim {
    pub fn new(cfg: PoolCfg, logging: bool) -> Self {
        let w: W = Arc::new(Mutex::new(World { cfg: cfg.clone(), logging, started: Some(std::time::Instant::now()), ..Default::default() }));
        let mut pc = PoolConfig::default();
        // u64::MAX stands for Duration::MAX ("never expire" spelled as a duration)
        pc.idle_timeout = cfg.idle_timeout_ms.map(|t| if t == u64::MAX { Duration::MAX } else { Duration::from_millis(t) });
        pc.max_idle_per_host = cfg.max_idle;
        pc.continue_after_preemption = cfg.cont;
        // some other configuration, overridden by the later call in every path that mentions it
        let mut other = PoolConfig::default();
        other.idle_timeout = if pc.idle_timeout.is_none() { Some(Duration::from_millis(1)) } else { None };
        other.max_idle_per_host = if cfg.max_idle >= 3 { 1 } else { 32 };
        other.continue_after_preemption = !cfg.cont;
        let layer = || hyperdriver::client::ConnectionPoolLayer::<_, _, B>::new(HTransport(w.clone()), HProtocol(w.clone()));
        let inner = HService(w.clone());
        use tower::Layer as _;
        let svc = if cfg.coarse_key {
            let layer = hyperdriver::client::ConnectionPoolLayer::<_, _, B, CoarseKey>::new(HTransport(w.clone()), HProtocol(w.clone()));
            Svc::Coarse(if cfg.build_path % 2 == 0 { ConnectionPoolService::new(HTransport(w.clone()), HProtocol(w.clone()), inner, pc) } else { layer.with_pool(pc).layer(inner) })
        } else {
            Svc::Uri(match cfg.build_path % 8 {
                0 => ConnectionPoolService::new(HTransport(w.clone()), HProtocol(w.clone()), inner, pc),
                1 => layer().with_pool(pc).layer(inner),
                2 => layer().with_optional_pool(Some(pc)).layer(inner),
                3 => layer().with_pool(other).with_optional_pool(Some(pc)).layer(inner),
                4 => layer().with_optional_pool(Some(other)).with_pool(pc).layer(inner),
                5 => layer().without_pool().with_pool(pc).layer(inner),
                6 => layer().with_pool(other).with_pool(pc).layer(inner),
                _ => layer().with_optional_pool(None).with_optional_pool(Some(pc)).layer(inner),
            })
        };
        Sim { w, svc, slots: vec![], cfg, noop: 0, total: 0 }
    }

    fn set_actor(&self, a: Actor) {
        self.w.lock().unwrap().actor_ = Some(a);
    }

    fn next_step(&self) -> usize {
        let mut w = self.w.lock().unwrap();
        w.step += 1;
        w.step
    }

    pub fn issue(&mut self, origin: usize, h2: bool, probe: bool) -> usize {
        use tower::Service;
        let uri: http::Uri = origin_uri(origin).parse().unwrap();
        let okey = origin_key(&uri);
        let id = self.slots.len();
        let st;
        {
            let mut w = self.w.lock().unwrap();
            st = w.step;
            // ---- C04 rule A preconditions, evaluated on ground truth before the call
            let mut must_not_dial = None;
            if w.cfg_plain() {
                if w.shareable_available(&okey).is_some() {
                    must_not_dial = Some("open-h2-connection-existed");
                    w.classes.insert("issue-with-h2-conn-available");
                } else if w.idle_lb(&okey) >= 1 {
                    must_not_dial = Some("idle-connection-available");
                    w.classes.insert("issue-with-idle-conn-available");
                }
            }
            if h2 && w.dials.iter().any(|d| d.okey == okey && d.h2req && d.in_flight()) {
                w.classes.insert("h2-issue-during-h2-dial");
                // ---- C04 rule B: while an HTTP/2 attempt for the origin is in flight, further
                // HTTP/2 requests wait for it. The decision is taken when the request is issued.
                // Exclusion: a shareable connection of the origin became available after the
                // in-flight attempt's request was issued (the pool then legitimately stops
                // making newcomers wait; for an attempt started in the background that instant
                // is not observable, so any shareable connection ever created excludes it).
                let certain = w.dials.iter().any(|d| {
                    if !(d.okey == okey && d.h2req && d.in_flight()) {
                        return false;
                    }
                    let since = match d.owner_req {
                        Some(r) => w.reqs[r].issue_step,
                        None => 0,
                    };
                    !w.conns.iter().any(|c| c.okey == okey && c.shareable && c.created_step >= since)
                });
                if certain && must_not_dial.is_none() {
                    must_not_dial = Some("h2-dial-in-flight");
                }
            }
            let (def, maybe) = w.hungry(&okey, None);
            if !def.is_empty() || !maybe.is_empty() {
                w.classes.insert("overlapping-requests-same-origin");
            }
            if let Some(t) = w.cfg.idle_timeout_ms.filter(|t| *t > 0) {
                let now = std::time::Instant::now();
                if w.conns.iter().any(|c| c.okey == okey && !c.shareable && c.sure_idle && c.entry_instant_ub.map(|ub| now.duration_since(ub) > Duration::from_millis(t.saturating_add(20))).unwrap_or(false)) {
                    w.classes.insert("issue-with-only-expired-idle-connection");
                }
            }
            if w.conns.iter().any(|c| c.okey == okey && c.close_step.is_some() && (c.ever_pooled || c.handoffs > 0) && c.handles >= 1 && c.holders.is_empty()) {
                w.classes.insert("issue-after-pooled-close");
            }
            // (a shared handle is only certainly in the idle list when the limit cannot have dropped it)
            let popped_for_sure = w.idle_lb(&okey) >= 1 || (w.cfg.max_idle >= 16 && w.shareable_available(&okey).is_some());
            let deadline_ms = self.cfg.req_timeout_ms.filter(|_| !probe).map(|d| w.now_ms + d);
            let has_connector_for_sure = {
                let possibly_idle = w.conns.iter().any(|c| {
                    c.okey == okey
                        && c.handles >= 1
                        && (c.shareable || (c.holders.is_empty() && c.entry_step.map(|e| c.last_handoff_step.map(|h| e > h).unwrap_or(true)).unwrap_or(false)))
                });
                // a connection handed back through a cancelled checkout or sitting in a waiter's
                // channel is not tracked: require that no other request of the origin is alive
                let others_alive = w.reqs.iter().any(|r| r.okey == okey && matches!(r.status, RStatus::Unpolled | RStatus::Polling));
                let dial_in_flight = w.dials.iter().any(|d| d.okey == okey && d.in_flight());
                let limbo = w.conns.iter().any(|c| c.okey == okey && c.handles >= 1 && !c.shareable && c.holders.is_empty());
                // a request that ended since the last background step may have left a checkout
                // whose continuation has not started dialing yet (it still owns the in-flight mark)
                let pending_continuation = w.reqs.iter().any(|r| {
                    r.okey == okey && (r.end_step.map(|e| e >= w.last_bg_step).unwrap_or(false) || r.handoff.map(|(_, h)| h >= w.last_bg_step).unwrap_or(false))
                });
                !possibly_idle && !others_alive && !dial_in_flight && !limbo && !pending_continuation
            };
            // every checkout may take (and re-insert, freshly stamped) the pool's handle of a multiplexed connection
            let touch = std::time::Instant::now() + Duration::from_millis(1);
            let mut shared_idle_since = vec![];
            for (cid, c) in w.conns.iter_mut().enumerate() {
                if c.shareable && c.okey == okey {
                    shared_idle_since.push((cid, c.shared_touch_ub));
                    c.shared_touch_ub = touch;
                }
            }
            w.reqs.push(ReqT {
                okey: okey.clone(),
                origin_idx: origin,
                h2,
                status: RStatus::Unpolled,
                issue_step: st,
                first_poll_step: None,
                polls: 0,
                handoff: None,
                must_not_dial,
                dials: vec![],
                release: false,
                release_waker: None,
                result: None,
                probe,
                end_step: None,
                timed: self.cfg.req_timeout_ms.is_some(),
                deadline_ms,
                issue_instant: std::time::Instant::now(),
                shared_idle_since,
                has_connector_for_sure,
                popped_for_sure,
            });
            w.log(|| format!("issue req#{id} {} h2={h2} must_not_dial={must_not_dial:?}", origin_uri(origin)));
        }
        let mut req = http::Request::builder()
            .uri(uri)
            .version(if h2 { http::Version::HTTP_2 } else { http::Version::HTTP_11 })
            .header("x-req", id.to_string())
            .body(Empty::<Bytes>::new())
            .unwrap();
        if self.cfg.caller_host == 1 || (self.cfg.caller_host == 2 && id % 2 == 1) {
            req.headers_mut().insert(http::header::HOST, http::HeaderValue::from_static("shared.example"));
        }
        self.set_actor(Actor::Issue(id));
        let fut: Fut = match self.cfg.req_timeout_ms.filter(|_| !probe) {
            Some(ms) => {
                let mut t = hyperdriver::service::Timeout::new(
                    self.svc.clone(),
                    Duration::from_millis(ms),
                    Box::new(timeout_error as fn() -> hyperdriver::client::Error),
                );
                Box::pin(t.call(req))
            }
            None => Box::pin(self.svc.call(req)),
        };
        self.set_actor(Actor::Idle);
        self.slots.push(Slot { fut: Some(fut), flag: Arc::new(Flag(AtomicUsize::new(0))), prev_start: 0, last_start: 0, polled_wakes: 0 });
        id
    }

    fn live(&self) -> Vec<usize> {
        self.slots.iter().enumerate().filter(|(_, s)| s.fut.is_some()).map(|(i, _)| i).collect()
    }

    /// Poll request `id`; returns true if it completed.
    pub fn poll(&mut self, id: usize) -> bool {
        let Some(mut fut) = self.slots[id].fut.take() else { return false };
        let flag = self.slots[id].flag.clone();
        let wakes_now = flag.0.load(Ordering::SeqCst);
        let prev_start = self.slots[id].last_start;
        self.slots[id].prev_start = prev_start;
        self.slots[id].last_start = wakes_now;
        self.slots[id].polled_wakes = wakes_now;
        let first;
        let before_status;
        {
            let mut w = self.w.lock().unwrap();
            let st = w.step;
            let r = &mut w.reqs[id];
            first = r.polls == 0;
            r.polls += 1;
            if first {
                r.first_poll_step = Some(st);
                if r.status == RStatus::Unpolled {
                    r.status = RStatus::Polling;
                }
            }
            before_status = w.reqs[id].status;
            w.actor_ = Some(Actor::Poll(id));
        }
        let waker = Waker::from(flag.clone());
        let mut cx = Context::from_waker(&waker);
        let res = fut.as_mut().poll(&mut cx);
        let mut w = self.w.lock().unwrap();
        w.actor_ = Some(Actor::Idle);
        let st = w.step;
        let after_status = w.reqs[id].status;
        let done = res.is_ready();
        // ---- C03 rule (c): progress without a wake-up since the start of the previous poll
        let progressed = done || (matches!(after_status, RStatus::Holding(_)) && !matches!(before_status, RStatus::Holding(_)));
        if !first && progressed && wakes_now == prev_start {
            let msg = format!(
                "request #{id} made progress ({}) on a re-poll although its waker was never invoked since the start of its previous poll",
                if done { "completed" } else { "obtained a connection" }
            );
            w.violate("C03/lost-wakeup", msg);
            // the progress was a connection somebody else had dialed or used before: a released (or
            // handed back) connection reached this request's channel and nothing told the request - in
            // a runtime it would go on waiting for its own dial (C14) while the connection sits parked,
            // unusable for the next request, which dials anew (C04)
            if let RStatus::Holding(cid) = after_status {
                let foreign = w.dials[w.conns[cid].dial].owner_req != Some(id) || w.conns[cid].handoffs > 1 || w.conns[cid].ever_pooled;
                if foreign {
                    let m = format!("request #{id} found conn#{cid}, released to it earlier, only because it happened to be polled: its waker was never invoked since the start of its previous poll");
                    w.violate("C14/a-released-connection-delivered-without-wake-up", m.clone());
                    w.violate("C04/released-connection-parked-without-wake-up", m);
                }
            }
        }
        // C14 obligations: this request has now been polled after the entry
        let mut violated = vec![];
        for o in w.obligations.iter_mut() {
            if o.waiting.contains(&id) && o.entry_step < st {
                o.polled.insert(id);
            }
        }
        let obls = std::mem::take(&mut w.obligations);
        let mut keep = vec![];
        for o in obls {
            let all_polled = o.waiting.iter().all(|r| {
                o.polled.contains(r) || matches!(w.reqs[*r].status, RStatus::Done | RStatus::Cancelled)
            });
            let c = &w.conns[o.conn];
            let discharged = !c.open || c.handles == 0 || c.handoffs > 0 && c.last_handoff_step.map(|s| s >= o.entry_step).unwrap_or(false);
            if discharged {
                continue;
            }
            if all_polled {
                violated.push(o);
            } else {
                keep.push(o);
            }
        }
        w.obligations = keep;
        for o in violated {
            let msg = format!(
                "connection #{} of {} re-entered the pool at step {} while requests {:?} were waiting for a connection; all of them have been polled since and none received it",
                o.conn, w.conns[o.conn].okey, o.entry_step, o.waiting
            );
            let sig = if o.single_polled_waiter { "C14/a-freed-connection-not-delivered-to-waiting-request" } else { "C14/a-freed-connection-not-delivered-to-any-waiter" };
            w.violate(sig, msg);
        }
        if let Some(dl) = w.reqs[id].deadline_ms {
            let now = w.now_ms;
            let stage = match before_status {
                RStatus::Holding(_) => "holding-a-connection",
                RStatus::Polling if w.reqs[id].dials.is_empty() => "waiting-on-another-request",
                RStatus::Polling => {
                    if w.reqs[id].dials.iter().any(|d| w.dials[*d].stage == DStage::Handshaking) { "handshaking" } else { "dialing" }
                }
                _ => "unpolled",
            };
            match &res {
                Poll::Pending if now >= dl => {
                    let msg = format!("request #{id} with deadline {dl} ms is still pending when polled at {now} ms ({stage})");
                    w.violate("C19/pending-after-deadline", msg);
                }
                Poll::Ready(Err(e)) if format!("{e:?}").contains("RequestTimeout") => {
                    if now < dl {
                        let msg = format!("request #{id} timed out at {now} ms, before its deadline {dl} ms");
                        w.violate("C19/timeout-before-deadline", msg);
                    }
                    w.classes.insert("request-timed-out");
                    match stage {
                        "holding-a-connection" => w.classes.insert("timeout-while-holding"),
                        "waiting-on-another-request" => w.classes.insert("timeout-while-waiting-on-other"),
                        "handshaking" => w.classes.insert("timeout-while-handshaking"),
                        "dialing" => w.classes.insert("timeout-while-dialing"),
                        _ => w.classes.insert("timeout-before-first-poll"),
                    };
                }
                _ => {}
            }
        }
        match res {
            Poll::Ready(r) => {
                let r = r.map(|_| ()).map_err(|e| format!("{e:?}"));
                w.log(|| format!("poll req#{id} -> Ready({r:?})"));
                w.reqs[id].result = Some(r);
                w.reqs[id].status = RStatus::Done;
                w.reqs[id].end_step = Some(st);
                let dials = w.reqs[id].dials.clone();
                for d in dials {
                    if w.dials[d].in_flight() && w.dials[d].abandoned_step.is_none() {
                        w.dials[d].abandoned_step = Some(st);
                    }
                }
                drop(w);
                self.set_actor(Actor::Cancel(id));
                drop(fut);
                self.set_actor(Actor::Idle);
                true
            }
            Poll::Pending => {
                w.log(|| format!("poll req#{id} -> Pending"));
                drop(w);
                self.slots[id].fut = Some(fut);
                false
            }
        }
    }

    pub fn cancel(&mut self, id: usize) {
        if self.slots[id].fut.is_none() {
            return;
        }
        {
            let mut w = self.w.lock().unwrap();
            let st = w.step;
            w.log(|| format!("cancel req#{id}"));
            let status = w.reqs[id].status;
            let okey = w.reqs[id].okey.clone();
            // C14 obligations involving this request are discharged conservatively
            w.obligations.retain(|o| !o.waiting.contains(&id));
            if w.reqs[id].handoff.is_none() {
                w.classes.insert("cancel-before-connection");
                // ---- C04 rule D: every healthy connection of the origin survives the cancel
                let survivors: Vec<usize> = w
                    .conns
                    .iter()
                    .enumerate()
                    .filter(|(_, c)| c.okey == okey && c.open && c.handles >= 1 && !c.taken_over && (c.ready || c.shareable))
                    .map(|(i, _)| i)
                    .collect();
                if !survivors.is_empty() {
                    w.classes.insert("cancel-with-healthy-connections");
                }
                w.cancel_watch.push((st, id, survivors));
                if status == RStatus::Unpolled {
                    // a connection it had taken out of the pool is stamped afresh when handed back
                    let now = std::time::Instant::now() + Duration::from_millis(1);
                    for c in w.conns.iter_mut().filter(|c| c.okey == okey && c.holders.is_empty()) {
                        if c.entry_instant_ub.is_some() {
                            c.entry_instant_ub = Some(now);
                        }
                    }
                    // it may have popped an idle connection; where that goes is unknown when
                    // other requests are waiting
                    let (def, maybe) = w.hungry(&okey, Some(id));
                    if !def.is_empty() || !maybe.is_empty() {
                        for c in w.conns.iter_mut().filter(|c| c.okey == okey) {
                            c.sure_idle = false;
                        }
                    }
                }
            }
            let dials = w.reqs[id].dials.clone();
            for d in dials {
                if w.dials[d].in_flight() && w.dials[d].abandoned_step.is_none() {
                    w.dials[d].abandoned_step = Some(st);
                    w.classes.insert("cancel-while-dialing");
                }
            }
            if status == RStatus::Polling && w.reqs[id].dials.is_empty() {
                w.classes.insert("cancel-pure-waiter");
            }
            w.reqs[id].status = RStatus::Cancelled;
            w.reqs[id].end_step = Some(st);
            w.actor_ = Some(Actor::Cancel(id));
        }
        let fut = self.slots[id].fut.take();
        drop(fut);
        self.set_actor(Actor::Idle);
    }

    fn wake_dial(&self, d: usize) {
        let wk = self.w.lock().unwrap().dials[d].waker.take();
        if let Some(wk) = wk {
            wk.wake();
        }
    }

    pub fn dial_result(&mut self, d: usize, ok: bool) {
        {
            let mut w = self.w.lock().unwrap();
            w.dials[d].connect = if ok { Tri::Ok } else { Tri::Fail };
            w.log(|| format!("dial#{d} connect -> {}", if ok { "ok" } else { "FAIL" }));
            if !ok {
                note_dependents(&mut w, d);
            }
        }
        self.wake_dial(d);
    }

    pub fn hs_result(&mut self, d: usize, ok: bool, alpn_h2: bool) {
        {
            let mut w = self.w.lock().unwrap();
            w.dials[d].handshake = if ok { Tri::Ok } else { Tri::Fail };
            w.dials[d].alpn_h2 = alpn_h2;
            w.log(|| format!("dial#{d} handshake -> {} alpn_h2={alpn_h2}", if ok { "ok" } else { "FAIL" }));
            if !ok {
                note_dependents(&mut w, d);
            }
        }
        self.wake_dial(d);
    }

    pub fn release(&mut self, r: usize) {
        let wk = {
            let mut w = self.w.lock().unwrap();
            w.reqs[r].release = true;
            w.log(|| format!("release req#{r}"));
            w.reqs[r].release_waker.take()
        };
        if let Some(wk) = wk {
            wk.wake();
        }
    }

    pub fn conn_ready(&mut self, c: usize) {
        let wk: Vec<Waker> = {
            let mut w = self.w.lock().unwrap();
            w.conns[c].ready = true;
            w.log(|| format!("conn#{c} ready"));
            w.conns[c].wakers.drain(..).collect()
        };
        for k in wk {
            k.wake();
        }
    }

    pub fn conn_close(&mut self, c: usize, takeover: bool) {
        let wk: Vec<Waker> = {
            let mut w = self.w.lock().unwrap();
            let st = w.step;
            let cc = &mut w.conns[c];
            cc.open = false;
            cc.sure_idle = false;
            if cc.close_step.is_none() {
                cc.close_step = Some(st);
            }
            if takeover {
                cc.taken_over = true;
            }
            let held = !cc.holders.is_empty();
            let pooled = cc.ever_pooled || cc.handoffs > 0;
            if pooled && !held {
                w.classes.insert("closed-while-pool-owned");
            }
            if held {
                w.classes.insert("closed-while-held");
            }
            w.log(|| format!("conn#{c} {}", if takeover { "taken over by upgrade" } else { "closed by peer" }));
            w.conns[c].wakers.drain(..).collect()
        };
        for k in wk {
            k.wake();
        }
    }

    pub async fn bg(&mut self) {
        self.set_actor(Actor::Bg);
        self.w.lock().unwrap().log(|| "bg".to_string());
        for _ in 0..6 {
            tokio::task::yield_now().await;
        }
        self.set_actor(Actor::Idle);
        // ---- C04 rule D: connections that were healthy at a cancel must have survived it
        let mut w = self.w.lock().unwrap();
        {
            let st = w.step;
            let now = std::time::Instant::now();
            for c in w.conns.iter_mut() {
                if c.entry_step == Some(st) {
                    c.entry_instant_ub = Some(now);
                }
            }
        }
        let watch = std::mem::take(&mut w.cancel_watch);
        for (cst, rid, conns) in watch {
            for c in conns {
                let cc = &w.conns[c];
                if cc.handles == 0 && cc.open && !cc.taken_over && w.cfg_plain() {
                    let msg = format!(
                        "cancelling request #{rid} (which never used a connection) at step {cst} destroyed healthy pooled connection #{c} of {}",
                        cc.okey
                    );
                    w.violate("C04/D-cancel-destroyed-pooled-connection", msg);
                }
            }
        }
        // ---- C15: idle bound, evaluated when the pool is quiescent w.r.t. background work
        check_idle_bound(&mut w);
        w.last_bg_step = w.step;
    }

    /// Apply one generated operation. Returns false when it was a no-op.
    pub async fn apply(&mut self, op: &Op) -> bool {
        self.next_step();
        self.total += 1;
        let ok = match op {
            Op::Issue { origin, h2 } => {
                if self.slots.len() >= 16 {
                    false
                } else {
                    self.issue(*origin as usize, *h2, false);
                    true
                }
            }
            Op::Poll(i) => {
                let live = self.live();
                match idx(*i, live.len()) {
                    Some(k) => {
                        self.poll(live[k]);
                        true
                    }
                    None => false,
                }
            }
            Op::Cancel(i) => {
                let live = self.live();
                match idx(*i, live.len()) {
                    Some(k) => {
                        self.cancel(live[k]);
                        true
                    }
                    None => false,
                }
            }
            Op::DialOk(i) | Op::DialFail(i) => {
                let pend: Vec<usize> = {
                    let w = self.w.lock().unwrap();
                    w.dials.iter().enumerate().filter(|(_, d)| d.connect == Tri::Pending && d.stage == DStage::Connecting).map(|(i, _)| i).collect()
                };
                match idx(*i, pend.len()) {
                    Some(k) => {
                        self.dial_result(pend[k], matches!(op, Op::DialOk(_)));
                        true
                    }
                    None => false,
                }
            }
            Op::HsOk(i, _) | Op::HsFail(i) => {
                let pend: Vec<usize> = {
                    let w = self.w.lock().unwrap();
                    w.dials
                        .iter()
                        .enumerate()
                        .filter(|(_, d)| d.handshake == Tri::Pending && d.connect == Tri::Ok && d.in_flight())
                        .map(|(i, _)| i)
                        .collect()
                };
                match idx(*i, pend.len()) {
                    Some(k) => {
                        match op {
                            Op::HsOk(_, alpn) => self.hs_result(pend[k], true, *alpn),
                            _ => self.hs_result(pend[k], false, false),
                        }
                        true
                    }
                    None => false,
                }
            }
            Op::Release(i) => {
                let holding: Vec<usize> = {
                    let w = self.w.lock().unwrap();
                    w.reqs.iter().enumerate().filter(|(_, r)| matches!(r.status, RStatus::Holding(_)) && !r.release).map(|(i, _)| i).collect()
                };
                match idx(*i, holding.len()) {
                    Some(k) => {
                        self.release(holding[k]);
                        true
                    }
                    None => false,
                }
            }
            Op::ConnReady(i) => {
                let cands: Vec<usize> = {
                    let w = self.w.lock().unwrap();
                    w.conns.iter().enumerate().filter(|(_, c)| c.open && !c.ready && !c.shareable).map(|(i, _)| i).collect()
                };
                match idx(*i, cands.len()) {
                    Some(k) => {
                        self.conn_ready(cands[k]);
                        true
                    }
                    None => false,
                }
            }
            Op::ConnNudge(i) => {
                let cands: Vec<usize> = {
                    let w = self.w.lock().unwrap();
                    w.conns.iter().enumerate().filter(|(_, c)| c.open && !c.ready && !c.shareable && !c.wakers.is_empty()).map(|(i, _)| i).collect()
                };
                match idx(*i, cands.len()) {
                    Some(k) => {
                        let wk: Vec<Waker> = {
                            let mut w = self.w.lock().unwrap();
                            let c = cands[k];
                            w.log(|| format!("conn#{c} wakes its waiters although it is still busy"));
                            w.classes.insert("spurious-wake-up-of-hand-back-task");
                            w.conns[c].wakers.drain(..).collect()
                        };
                        for k in wk {
                            k.wake();
                        }
                        true
                    }
                    None => false,
                }
            }
            Op::ConnClose(i) => {
                let cands: Vec<usize> = {
                    let w = self.w.lock().unwrap();
                    w.conns.iter().enumerate().filter(|(_, c)| c.open && c.handles > 0).map(|(i, _)| i).collect()
                };
                match idx(*i, cands.len()) {
                    Some(k) => {
                        self.conn_close(cands[k], false);
                        true
                    }
                    None => false,
                }
            }
            Op::TakeOver(i) => {
                let cands: Vec<usize> = {
                    let w = self.w.lock().unwrap();
                    w.conns.iter().enumerate().filter(|(_, c)| c.open && !c.shareable && !c.holders.is_empty()).map(|(i, _)| i).collect()
                };
                match idx(*i, cands.len()) {
                    Some(k) => {
                        self.conn_close(cands[k], true);
                        true
                    }
                    None => false,
                }
            }
            Op::Bg => {
                self.bg().await;
                true
            }
            Op::Warm { origin, h2 } => {
                if self.slots.len() >= 16 {
                    false
                } else {
                    self.warm(*origin as usize, *h2).await;
                    true
                }
            }
            Op::Hold { origin, h2 } => {
                if self.slots.len() >= 16 {
                    false
                } else {
                    self.hold(*origin as usize, *h2).await;
                    true
                }
            }
            Op::Sweep { n } => {
                for i in 0..*n as usize {
                    self.warm_unbounded(ORIGINS.len() + i, false).await;
                }
                true
            }
            Op::IssueAt { origin, h2 } => {
                if self.live().len() >= 16 {
                    false
                } else {
                    self.issue(*origin as usize, *h2, false);
                    true
                }
            }
            Op::Sleep(ms) => {
                std::thread::sleep(Duration::from_millis(*ms as u64));
                true
            }
            Op::Advance(ms) => {
                {
                    let mut w = self.w.lock().unwrap();
                    w.now_ms += *ms as u64;
                    let n = w.now_ms;
                    w.log(|| format!("advance to {n} ms"));
                }
                self.set_actor(Actor::Bg);
                tokio::time::advance(Duration::from_millis(*ms as u64)).await;
                self.set_actor(Actor::Idle);
                true
            }
        };
        if !ok {
            self.noop += 1;
        }
        // step-wise part of C15 that is certain at any time
        let mut w = self.w.lock().unwrap();
        check_idle_bound(&mut w);
        ok
    }

    /// Composite operation: a fresh request driven until it holds a connection.
    pub async fn hold(&mut self, origin: usize, h2: bool) -> usize {
        let id = self.issue(origin, h2, false);
        self.next_step();
        self.poll(id);
        let own: Vec<usize> = self.w.lock().unwrap().reqs[id].dials.clone();
        for d in own {
            let (c, h) = {
                let w = self.w.lock().unwrap();
                (w.dials[d].connect == Tri::Pending && w.dials[d].stage == DStage::Connecting, w.dials[d].handshake == Tri::Pending)
            };
            self.next_step();
            if c {
                self.dial_result(d, true);
            }
            if h {
                self.hs_result(d, true, false);
            }
        }
        self.next_step();
        self.poll(id);
        id
    }

    pub async fn warm_unbounded(&mut self, origin: usize, h2: bool) {
        self.warm(origin, h2).await
    }

    /// Composite operation: a complete request/response exchange for a fresh request.
    pub async fn warm(&mut self, origin: usize, h2: bool) {
        let id = self.issue(origin, h2, false);
        self.next_step();
        self.poll(id);
        let own: Vec<usize> = self.w.lock().unwrap().reqs[id].dials.clone();
        for d in own {
            let (c, h) = {
                let w = self.w.lock().unwrap();
                (w.dials[d].connect == Tri::Pending && w.dials[d].stage == DStage::Connecting, w.dials[d].handshake == Tri::Pending)
            };
            self.next_step();
            if c {
                self.dial_result(d, true);
            }
            if h {
                self.hs_result(d, true, false);
            }
        }
        self.next_step();
        self.poll(id);
        let holding = matches!(self.w.lock().unwrap().reqs[id].status, RStatus::Holding(_));
        if holding {
            self.next_step();
            self.release(id);
            self.next_step();
            self.poll(id);
            let conn = self.w.lock().unwrap().reqs[id].handoff.map(|(c, _)| c);
            if let Some(c) = conn {
                let needs = {
                    let w = self.w.lock().unwrap();
                    w.conns[c].open && !w.conns[c].ready && !w.conns[c].shareable
                };
                if needs {
                    self.next_step();
                    self.conn_ready(c);
                }
            }
        }
        self.next_step();
        self.bg().await;
    }

    /// Deterministic drain: resolve every outstanding attempt successfully, make connections ready,
    /// release holders, run background work, poll woken requests, until quiescent.
    pub async fn drain(&mut self) {
        self.w.lock().unwrap().log(|| "--- drain".to_string());
        for _round in 0..64 {
            self.next_step();
            let mut progress = false;
            let (dials, hss, conns, holders) = {
                let w = self.w.lock().unwrap();
                let dials: Vec<usize> = w.dials.iter().enumerate().filter(|(_, d)| d.connect == Tri::Pending && d.stage == DStage::Connecting).map(|(i, _)| i).collect();
                let hss: Vec<usize> = w.dials.iter().enumerate().filter(|(_, d)| d.handshake == Tri::Pending && d.in_flight()).map(|(i, _)| i).collect();
                let conns: Vec<usize> = w.conns.iter().enumerate().filter(|(_, c)| c.open && !c.ready && !c.shareable && c.holders.is_empty()).map(|(i, _)| i).collect();
                let holders: Vec<usize> = w.reqs.iter().enumerate().filter(|(_, r)| matches!(r.status, RStatus::Holding(_)) && !r.release).map(|(i, _)| i).collect();
                (dials, hss, conns, holders)
            };
            for d in dials {
                self.dial_result(d, true);
                progress = true;
            }
            for d in hss {
                // handshake result may be pre-set before the connect completes; that is fine
                let pending = self.w.lock().unwrap().dials[d].handshake == Tri::Pending;
                if pending {
                    self.hs_result(d, true, false);
                    progress = true;
                }
            }
            for r in holders {
                self.release(r);
                progress = true;
            }
            for c in conns {
                self.conn_ready(c);
                progress = true;
            }
            self.bg().await;
            self.next_step();
            for id in self.live() {
                let s = &self.slots[id];
                let woken = s.flag.0.load(Ordering::SeqCst) > s.polled_wakes;
                let never = self.w.lock().unwrap().reqs[id].polls == 0;
                if woken || never {
                    self.poll(id);
                    progress = true;
                }
            }
            let outstanding = {
                let w = self.w.lock().unwrap();
                w.dials.iter().any(|d| d.in_flight() && (d.connect == Tri::Pending || d.handshake == Tri::Pending))
            };
            if !progress && !outstanding {
                break;
            }
        }
    }

    /// After the drain: nobody may be stranded (C03 a), forced polls reveal lost wake-ups.
    pub fn check_stranded(&mut self) {
        for id in self.live() {
            let (okey, polls, dials) = {
                let w = self.w.lock().unwrap();
                (w.reqs[id].okey.clone(), w.reqs[id].polls, w.reqs[id].dials.clone())
            };
            let done = self.poll(id);
            let mut w = self.w.lock().unwrap();
            if !done {
                let msg = format!(
                    "request #{id} for {okey} (polled {polls} times, own dials {dials:?}) is still pending after every outstanding attempt terminated and all background work ran; nothing will wake it"
                );
                let pure = dials.is_empty();
                w.violate(if pure { "C03/waiter-stranded-after-drain" } else { "C03/request-stranded-after-drain" }, msg);
            }
        }
    }

    /// Fresh probe request per origin, driven to completion.
    pub async fn probe(&mut self, origin: usize, h2: bool) {
        self.next_step();
        let dials_before = self.w.lock().unwrap().dials.len();
        let id = self.issue(origin, h2, true);
        for _ in 0..24 {
            self.next_step();
            if self.slots[id].fut.is_none() {
                break;
            }
            self.poll(id);
            let (dials, hss, holding) = {
                let w = self.w.lock().unwrap();
                let dials: Vec<usize> = w.dials.iter().enumerate().filter(|(_, d)| d.connect == Tri::Pending && d.stage == DStage::Connecting).map(|(i, _)| i).collect();
                let hss: Vec<usize> = w.dials.iter().enumerate().filter(|(_, d)| d.handshake == Tri::Pending && d.in_flight()).map(|(i, _)| i).collect();
                (dials, hss, matches!(w.reqs[id].status, RStatus::Holding(_)))
            };
            for d in dials {
                self.dial_result(d, true);
            }
            for d in hss {
                self.hs_result(d, true, false);
            }
            if holding {
                self.release(id);
            }
            self.bg().await;
        }
        let mut w = self.w.lock().unwrap();
        let ok = matches!(w.reqs[id].result, Some(Ok(())));
        if !ok {
            let msg = format!(
                "probe request #{id} for {} after the drain did not complete successfully: status {:?} result {:?}",
                w.reqs[id].okey, w.reqs[id].status, w.reqs[id].result
            );
            if w.cfg.req_timeout_ms.is_some() {
                w.violate("C19/probe-failed-after-timeouts", msg.clone());
            }
            w.violate("C03/probe-failed", msg);
        }
        let _ = dials_before;
        drop(w);
        // leave the probe's connection ready for teardown
    }

    /// Close everything so that no spawned task outlives the case.
    pub async fn teardown(&mut self) {
        for id in self.live() {
            self.set_actor(Actor::Cancel(id));
            self.slots[id].fut = None;
        }
        self.set_actor(Actor::Idle);
        let (dials, conns) = {
            let w = self.w.lock().unwrap();
            let dials: Vec<usize> = w.dials.iter().enumerate().filter(|(_, d)| d.in_flight()).map(|(i, _)| i).collect();
            let conns: Vec<usize> = (0..w.conns.len()).collect();
            (dials, conns)
        };
        for d in dials {
            {
                let mut w = self.w.lock().unwrap();
                if w.dials[d].connect == Tri::Pending {
                    w.dials[d].connect = Tri::Fail;
                }
                if w.dials[d].handshake == Tri::Pending {
                    w.dials[d].handshake = Tri::Fail;
                }
            }
            self.wake_dial(d);
        }
        for c in conns {
            let wk: Vec<Waker> = {
                let mut w = self.w.lock().unwrap();
                w.conns[c].open = false;
                w.conns[c].wakers.drain(..).collect()
            };
            for k in wk {
                k.wake();
            }
        }
        self.set_actor(Actor::Bg);
        for _ in 0..8 {
            tokio::task::yield_now().await;
        }
        self.set_actor(Actor::Idle);
    }
}

fn note_dependents(w: &mut World, d: usize) {
    // class bookkeeping: somebody other than the owner was waiting when this dial failed
    let okey = w.dials[d].okey.clone();
    let owner = w.dials[d].owner_req;
    let others = w
        .reqs
        .iter()
        .enumerate()
        .any(|(i, r)| r.okey == okey && Some(i) != owner && r.status == RStatus::Polling && r.dials.is_empty());
    if others {
        w.classes.insert("waiter-present-when-dial-failed");
    }
}

fn check_idle_bound(w: &mut World) {
    let max = w.cfg.max_idle as i64;
    let keys: BTreeSet<String> = w.conns.iter().map(|c| c.okey.clone()).collect();
    for k in keys {
        let lb = w.idle_lb(&k);
        if lb > max {
            let ids: Vec<usize> = w
                .conns
                .iter()
                .enumerate()
                .filter(|(_, c)| c.okey == k && !c.shareable && c.sure_idle && c.open && c.handles >= 1 && c.holders.is_empty())
                .map(|(i, _)| i)
                .collect();
            let msg = format!("at least {lb} idle connections {ids:?} retained for {k} with max_idle_per_host = {max}");
            w.violate("C15/idle-bound-exceeded", msg);
        }
    }
}

/// C01 (pool-level leg): an uncancelled request fails although no connection attempt of its origin
/// was failed by the history and the peer broke nothing.
fn check_unfaulted_failures(w: &mut World) {
    if w.cfg.req_timeout_ms.is_some() {
        return;
    }
    for r in 0..w.reqs.len() {
        let rq = &w.reqs[r];
        if rq.probe || rq.status != RStatus::Done {
            continue;
        }
        let Some(Err(e)) = rq.result.clone() else { continue };
        let okey = rq.okey.clone();
        let faulted = w.dials.iter().any(|d| d.okey == okey && (d.connect == Tri::Fail || d.handshake == Tri::Fail));
        if faulted {
            continue;
        }
        if e.contains("pool closed, no connection can be made") && !w.cfg.cont {
            let msg = format!("request #{r} for {okey} failed with `{e}` although it was not cancelled and no connection attempt failed: the HTTP/2 dial it waited on was abandoned (continue_after_preemption=false)");
            w.violate("C01/unavailable-after-abandoned-dial/cont=false", msg);
        } else {
            let msg = format!("request #{r} for {okey} failed with `{e}` although it was not cancelled, no connection attempt of its origin failed and no connection was broken");
            w.violate("C01/request-failed-without-fault", msg);
        }
    }
}

/// End-of-history checks for C14 (b)/(c).
fn check_abandoned_dials(w: &mut World) {
    let cont = w.cfg.cont;
    // (b') / (c'): attempts that had not started when their request went away. A request that
    // certainly carried a connector and ended (cancelled, or served by a released connection) without
    // ever starting its dial: with continue_after_preemption the attempt runs in the background, so at
    // least as many background-started dials of the origin exist; without it nothing is ever dialed in
    // the background.
    if w.cfg.req_timeout_ms.is_none() {
        let keys: BTreeSet<String> = w.reqs.iter().map(|r| r.okey.clone()).collect();
        for k in keys {
            let owed = w
                .reqs
                .iter()
                .filter(|r| r.okey == k && !r.probe && r.has_connector_for_sure && r.dials.is_empty() && matches!(r.status, RStatus::Cancelled | RStatus::Done) && !matches!(r.result, Some(Err(_))))
                .count();
            let bg = w.dials.iter().filter(|d| d.okey == k && d.starter == Actor::Bg).count();
            if owed > 0 {
                w.classes.insert("attempt-abandoned-before-it-started");
            }
            if cont && bg < owed {
                let msg = format!("continue_after_preemption=true: {owed} request(s) for {k} were abandoned (cancelled or served by a released connection) before their own connection attempt had started, but only {bg} attempt(s) were continued in the background");
                w.violate("C14/b-unstarted-attempt-not-continued", msg);
            }
            if !cont && bg > 0 {
                let msg = format!("continue_after_preemption=false: {bg} connection attempt(s) for {k} were started in the background");
                w.violate("C14/c-background-dial-although-disabled", msg);
            }
        }
    }
    for d in 0..w.dials.len() {
        let Some(ab) = w.dials[d].abandoned_step else { continue };
        let dd = &w.dials[d];
        // only dials that were still in flight when their owner stopped driving them
        if dd.connect == Tri::Fail || dd.handshake == Tri::Fail {
            continue;
        }
        if cont {
            match dd.stage {
                DStage::Dropped => {
                    if dd.end_step.map(|e| e >= ab).unwrap_or(false) {
                        let msg = format!(
                            "continue_after_preemption=true: dial #{d} for {} abandoned at step {ab} was dropped (step {:?}) instead of completing in the background",
                            dd.okey, dd.end_step
                        );
                        w.violate("C14/b-abandoned-dial-dropped", msg);
                    }
                }
                DStage::Done => {
                    if let Some(c) = dd.conn {
                        let cc = &w.conns[c];
                        let was_bg = matches!(cc.created_by, Actor::Bg);
                        // (with a small idle limit: dropped although fewer open idle connections than the limit existed)
                        let had_room = w.cfg.max_idle >= 16 || cc.drop_peers.map(|p| p < w.cfg.max_idle).unwrap_or(false);
                        if was_bg && cc.handles == 0 && cc.open && cc.handoffs == 0 && had_room {
                            let msg = format!(
                                "continue_after_preemption=true: connection #{c} from abandoned dial #{d} completed in the background but was not kept (no live handle, never used)"
                            );
                            w.violate("C14/b-background-connection-lost", msg);
                        }
                    }
                }
                _ => {}
            }
        } else {
            match dd.stage {
                DStage::Done => {
                    if let Some(c) = dd.conn {
                        if matches!(w.conns[c].created_by, Actor::Bg) {
                            let msg = format!(
                                "continue_after_preemption=false: abandoned dial #{d} still produced connection #{c} in the background"
                            );
                            w.violate("C14/c-abandoned-dial-continued", msg);
                        }
                    }
                }
                DStage::Connecting | DStage::Connected | DStage::Handshaking => {
                    let msg = format!(
                        "continue_after_preemption=false: abandoned dial #{d} for {} (abandoned step {ab}) is still alive at the end of the history",
                        dd.okey
                    );
                    w.violate("C14/c-abandoned-dial-not-dropped", msg);
                }
                _ => {}
            }
        }
    }
}

pub struct RunOut {
    pub report: CaseReport,
    pub log: Vec<String>,
}

/// Which end-of-history phases to run.
#[derive(Clone, Copy, Debug)]
pub struct Phases {
    pub drain: bool,
    pub probe: bool,
}

pub fn run_pool_case(case: &PoolCase, logging: bool, phases: Phases) -> RunOut {
    let rt = tokio::runtime::Builder::new_current_thread()
        .enable_time()
        .start_paused(true)
        .build()
        .expect("runtime");
    let world: Arc<Mutex<Option<W>>> = Arc::new(Mutex::new(None));
    let world2 = world.clone();
    let case2 = case.clone();
    let res = std::panic::catch_unwind(AssertUnwindSafe(|| {
        // where the pool comes into being: on the runtime that uses it, on an earlier runtime that is
        // gone by then (a client built in a start-up `block_on`, or shared between tests), or outside
        // any runtime (a lazily initialised static)
        let prebuilt = match case2.cfg.built_on % 3 {
            1 => {
                let early = tokio::runtime::Builder::new_current_thread().enable_time().build().expect("runtime");
                let sim = early.block_on(async { Sim::new(case2.cfg.clone(), logging) });
                drop(early);
                Some(sim)
            }
            2 => Some(Sim::new(case2.cfg.clone(), logging)),
            _ => None,
        };
        rt.block_on(async move {
            let mut sim = match prebuilt {
                Some(sim) => sim,
                None => Sim::new(case2.cfg.clone(), logging),
            };
            *world2.lock().unwrap() = Some(sim.w.clone());
            for op in &case2.ops {
                sim.apply(op).await;
            }
            // abandoned-dial checks look at the state before the drain resolves dials, and after
            if phases.drain {
                sim.drain().await;
                sim.check_stranded();
                {
                    let mut w = sim.w.lock().unwrap();
                    check_abandoned_dials(&mut w);
                    check_unfaulted_failures(&mut w);
                }
                // quiescent state: every request ended, every attempt terminated, background work ran.
                // Whatever non-multiplexed connection is still alive, open, ready and unheld now can only
                // be kept by the pool's idle list (also one that entered it from a background task).
                if sim.live().is_empty() {
                    for _ in 0..3 {
                        sim.bg().await;
                    }
                    let mut w = sim.w.lock().unwrap();
                    let quiet = !w.dials.iter().any(|d| d.in_flight());
                    if quiet {
                        let max = w.cfg.max_idle;
                        let keys: BTreeSet<String> = w.conns.iter().map(|c| c.okey.clone()).collect();
                        for k in keys {
                            let ids: Vec<usize> = w
                                .conns
                                .iter()
                                .enumerate()
                                .filter(|(_, c)| c.okey == k && !c.shareable && c.open && c.ready && c.handles >= 1 && c.holders.is_empty())
                                .map(|(i, _)| i)
                                .collect();
                            if ids.len() > max {
                                let msg = format!("after everything ended, {} open idle connections {ids:?} are still kept for {k} with max_idle_per_host = {max}", ids.len());
                                w.violate("C15/idle-bound-exceeded-at-quiescence", msg);
                            }
                            if ids.len() == max && max > 0 {
                                w.classes.insert("idle-list-full-at-quiescence");
                            }
                        }
                    }
                }
                if phases.probe {
                    let origins: Vec<(usize, bool)> = {
                        let w = sim.w.lock().unwrap();
                        let mut seen = BTreeSet::new();
                        let mut v = vec![];
                        for r in w.reqs.iter() {
                            if seen.insert(r.okey.clone()) && v.len() < 12 {
                                v.push((r.origin_idx, r.h2));
                            }
                        }
                        v
                    };
                    for (o, h2) in origins {
                        sim.probe(o, h2).await;
                    }
                }
            }
            sim.teardown().await;
            let noop = sim.noop;
            let total = sim.total;
            drop(sim);
            (noop, total)
        })
    }));
    drop(rt);
    let w = world.lock().unwrap().clone();
    let mut report = CaseReport::default();
    let mut log = vec![];
    if let Some(w) = w {
        let mut w = w.lock().unwrap();
        for (sig, msg) in w.violations.clone() {
            report.violate(sig, msg);
        }
        for c in w.classes.iter() {
            report.class(c);
        }
        report.internal_error = w.internal.clone();
        log = std::mem::take(&mut w.log);
    }
    match res {
        Ok((noop, total)) => {
            report.noop_ops = noop;
            report.total_ops = total;
        }
        Err(p) => {
            let msg = p
                .downcast_ref::<String>()
                .cloned()
                .or_else(|| p.downcast_ref::<&str>().map(|s| s.to_string()))
                .unwrap_or_else(|| "panic".into());
            let loc = crate::panichook::last_location();
            if crate::panichook::in_library(&loc) {
                report.violate("POOL/panic-in-library", format!("panic at {loc}: {msg}"));
            } else {
                report.internal_error = Some(format!("harness panic at {loc}: {msg}"));
            }
        }
    }
    RunOut { report, log }
}

// ------------------------------------------------------------------------------------------------
// generators

#[derive(Clone, Copy, Debug)]
pub struct Weights {
    pub issue: u32,
    pub poll: u32,
    pub cancel: u32,
    pub dial_ok: u32,
    pub dial_fail: u32,
    pub hs_ok: u32,
    pub hs_fail: u32,
    pub release: u32,
    pub ready: u32,
    pub close: u32,
    pub takeover: u32,
    pub bg: u32,
    pub warm: u32,
    pub advance: u32,
    pub hold: u32,
    pub sleep: u32,
    pub h2_pct: u32,
    pub alpn_pct: u32,
    pub origins: u8,
}

pub const GENERIC: Weights = Weights {
    issue: 16, poll: 28, cancel: 5, dial_ok: 12, dial_fail: 2, hs_ok: 12, hs_fail: 2, release: 10, ready: 10, close: 3, takeover: 1, bg: 14, warm: 6, advance: 0, hold: 3, sleep: 0,
    h2_pct: 40, alpn_pct: 10, origins: 6,
};

pub fn op_strategy(wt: Weights) -> impl Strategy<Value = Op> {
    let h2 = wt.h2_pct;
    let alpn = wt.alpn_pct;
    let origins = wt.origins.max(1);
    let arms: Vec<(u32, BoxedStrategy<Op>)> = vec![
        (wt.issue, (0..origins, 0u32..100).prop_map(move |(o, p)| Op::Issue { origin: o, h2: p < h2 }).boxed()),
        (wt.poll, any::<u16>().prop_map(Op::Poll).boxed()),
        (wt.cancel, any::<u16>().prop_map(Op::Cancel).boxed()),
        (wt.dial_ok, any::<u16>().prop_map(Op::DialOk).boxed()),
        (wt.dial_fail, any::<u16>().prop_map(Op::DialFail).boxed()),
        (wt.hs_ok, (any::<u16>(), 0u32..100).prop_map(move |(i, p)| Op::HsOk(i, p < alpn)).boxed()),
        (wt.hs_fail, any::<u16>().prop_map(Op::HsFail).boxed()),
        (wt.release, any::<u16>().prop_map(Op::Release).boxed()),
        (wt.ready, any::<u16>().prop_map(Op::ConnReady).boxed()),
        (if wt.ready > 0 { (wt.ready / 4).max(1) } else { 0 }, any::<u16>().prop_map(Op::ConnNudge).boxed()),
        (wt.close, any::<u16>().prop_map(Op::ConnClose).boxed()),
        (wt.takeover, any::<u16>().prop_map(Op::TakeOver).boxed()),
        (wt.bg, Just(Op::Bg).boxed()),
        (wt.warm, (0..origins, 0u32..100).prop_map(move |(o, p)| Op::Warm { origin: o, h2: p < h2 }).boxed()),
        (wt.sleep, Just(Op::Sleep(60)).boxed()),
        (wt.hold, (0..origins, 0u32..100).prop_map(move |(o, p)| Op::Hold { origin: o, h2: p < h2 }).boxed()),
        (wt.advance, prop_oneof![Just(1u16), Just(10u16), Just(20u16), 1u16..70].prop_map(Op::Advance).boxed()),
    ];
    proptest::strategy::Union::new_weighted(arms.into_iter().filter(|(w, _)| *w > 0).collect())
}

pub fn case_strategy(
    wt: Weights,
    max_ops: usize,
    cfgs: impl Strategy<Value = PoolCfg>,
) -> impl Strategy<Value = PoolCase> {
    (cfgs, proptest::collection::vec(op_strategy(wt), 0..max_ops)).prop_map(|(cfg, ops)| PoolCase { cfg, ops })
}

/// Mutational search around known deep histories: a seed history from the corpus
/// (`/verif/replays/corpus/poolsim/*.json`: minimal histories of defects that were found - or seeded -
/// deep in the state space) receives 0-5 random edits (delete, duplicate, swap with the neighbour, insert
/// a generated operation, replace by one) and, now and then, another pool configuration. The seeds put
/// the search next to states that random histories reach once in a million cases.
pub fn corpus_mutation_strategy(seeds: Vec<PoolCase>, wt: Weights) -> impl Strategy<Value = PoolCase> {
    let n = seeds.len().max(1);
    let seeds = std::sync::Arc::new(seeds);
    (
        0..n,
        proptest::collection::vec((0u8..5, any::<u16>(), op_strategy(wt)), 0..=5),
        prop_oneof![3 => Just(None), 1 => cfg_any_strategy().prop_map(Some)],
    )
        .prop_map(move |(i, edits, cfg)| {
            let mut case = seeds.get(i).cloned().unwrap_or(PoolCase { cfg: PoolCfg { idle_timeout_ms: None, max_idle: 32, cont: true, req_timeout_ms: None, open_is_ready: true, caller_host: 0, single_use: false, holder_polls_ready: false, ready_hides_close: false, build_path: 0, fused_attempts: false, coarse_key: false, built_on: 0, conn_version_10: false }, ops: vec![] });
            for (kind, pos, op) in edits {
                let len = case.ops.len();
                let at = if len == 0 { 0 } else { pos as usize * len >> 16 };
                match kind {
                    0 if len > 0 => {
                        case.ops.remove(at);
                    }
                    1 if len > 0 => {
                        let o = case.ops[at].clone();
                        case.ops.insert(at, o);
                    }
                    2 if len > 1 && at + 1 < len => case.ops.swap(at, at + 1),
                    3 => case.ops.insert(at.min(len), op),
                    _ if len > 0 => case.ops[at] = op,
                    _ => case.ops.push(op),
                }
            }
            if let Some(cfg) = cfg {
                case.cfg = cfg;
            }
            case
        })
}

/// The seed histories of the mutation leg (every poolsim case under replays/corpus/poolsim and replays/regress).
pub fn load_corpus() -> Vec<PoolCase> {
    let mut out = vec![];
    for dir in ["replays/corpus/poolsim", "replays/regress"] {
        let d = std::path::Path::new(crate::common::VERIF_DIR).join(dir);
        let mut files: Vec<std::path::PathBuf> = std::fs::read_dir(d).map(|rd| rd.filter_map(|e| e.ok()).map(|e| e.path()).filter(|p| p.extension().map(|x| x == "json").unwrap_or(false)).collect()).unwrap_or_default();
        files.sort();
        for f in files {
            if let Ok(rf) = crate::common::read_replay(&f) {
                if rf.engine == "poolsim" {
                    if let Ok(c) = serde_json::from_value::<PoolCase>(rf.case) {
                        out.push(c);
                    }
                }
            }
        }
    }
    out
}

pub fn cfg_plain_strategy() -> impl Strategy<Value = PoolCfg> {
    (prop_oneof![3 => Just(None), 3 => Just(Some(3_600_000u64)), 1 => Just(Some(999u64)), 1 => Just(Some(1_900u64)), 1 => Just(Some(90_500u64))], any::<bool>(), prop_oneof![2 => Just(true), 1 => Just(false)], prop_oneof![2 => Just(false), 1 => Just(true)]).prop_map(|(t, cont, open_is_ready, fused_attempts)| PoolCfg {
        idle_timeout_ms: t,
        max_idle: 32,
        cont,
        req_timeout_ms: None,
        open_is_ready,
        caller_host: 0,
        single_use: false,
        holder_polls_ready: false,
        ready_hides_close: false,
        build_path: 0,
        fused_attempts,
        coarse_key: false,
        built_on: 0,
        conn_version_10: false,
    })
}

pub fn cfg_timeout_strategy() -> impl Strategy<Value = PoolCfg> {
    (prop_oneof![1 => Just(0u64), 3 => Just(20), 3 => Just(50), 2 => Just(120)], any::<bool>(), prop_oneof![Just(1usize), Just(32)]).prop_map(|(t, cont, m)| PoolCfg {
        idle_timeout_ms: None,
        max_idle: m,
        cont,
        req_timeout_ms: Some(t),
        open_is_ready: true,
        caller_host: 0,
        single_use: false,
        holder_polls_ready: false,
        ready_hides_close: false,
        build_path: 0,
        fused_attempts: false,
        coarse_key: false,
        built_on: 0,
        conn_version_10: false,
    })
}

pub fn cfg_expiry_strategy() -> impl Strategy<Value = PoolCfg> {
    (prop_oneof![3 => Just(Some(25u64)), 1 => Just(Some(0u64)), 1 => Just(None), 1 => Just(Some(3_600_000u64))], any::<bool>()).prop_map(|(t, cont)| PoolCfg {
        idle_timeout_ms: t,
        max_idle: 32,
        cont,
        req_timeout_ms: None,
        open_is_ready: true,
        caller_host: 0,
        single_use: false,
        holder_polls_ready: false,
        ready_hides_close: false,
        build_path: 0,
        fused_attempts: false,
        coarse_key: false,
        built_on: 0,
        conn_version_10: false,
    })
}

/// Structured histories for the idle-expiry leg: k concurrent HTTP/1 requests to one origin are driven
/// until they hold connections, then released/handed back in a generated order with real-time sleeps in
/// between (so the idle list holds connections of different ages), optionally one idle connection is
/// closed by the peer, then new requests are issued.
pub fn expiry_scenario_strategy() -> impl Strategy<Value = PoolCase> {
    (
        1usize..4,
        proptest::collection::vec((any::<u16>(), prop_oneof![Just(0u16), Just(60u16)]), 3),
        prop_oneof![2 => Just(None), 3 => any::<u16>().prop_map(Some)],
        prop_oneof![Just(0u16), Just(10u16), Just(60u16)],
        1usize..4,
        prop_oneof![4 => Just(Some(25u64)), 1 => Just(Some(0u64)), 1 => Just(None)],
        any::<bool>(),
    )
        .prop_map(|(k, rel, close, last_sleep, probes, timeout, cont)| {
            let mut ops = vec![];
            for _ in 0..k {
                ops.push(Op::Hold { origin: 0, h2: false });
            }
            for (i, (which, sleep)) in rel.iter().enumerate().take(k) {
                ops.push(Op::Release(*which));
                // poll every live request so that the released one lets go of its connection
                for j in 0..k {
                    ops.push(Op::Poll(((j * 65536) / k) as u16 + 1));
                }
                ops.push(Op::ConnReady(0));
                ops.push(Op::Bg);
                if *sleep > 0 && i + 1 < k {
                    ops.push(Op::Sleep(*sleep));
                }
            }
            if let Some(c) = close {
                ops.push(Op::ConnClose(c));
            }
            if last_sleep > 0 {
                ops.push(Op::Sleep(last_sleep));
            }
            for _ in 0..probes {
                ops.push(Op::Issue { origin: 0, h2: false });
            }
            for j in 0..probes {
                ops.push(Op::Poll(((j * 65536) / probes) as u16 + 1));
            }
            PoolCase { cfg: PoolCfg { idle_timeout_ms: timeout, max_idle: 32, cont, req_timeout_ms: None, open_is_ready: true, caller_host: 0, single_use: false, holder_polls_ready: false, ready_hides_close: false, build_path: 0, fused_attempts: false, coarse_key: false, built_on: 0, conn_version_10: false }, ops }
        })
}

/// Idle timeouts of a whole number of seconds (the usual configuration: 1 s, 90 s ...): one or two
/// connections go idle, the history sleeps 1.15 s in real time, then requests are issued.
pub fn expiry_whole_second_strategy() -> impl Strategy<Value = PoolCase> {
    (1usize..3, prop_oneof![3 => Just(Some(1000u64)), 1 => Just(Some(2000u64))], 1usize..3, any::<bool>(), any::<bool>(), prop_oneof![2 => Just(false), 1 => Just(true)]).prop_map(|(k, timeout, probes, cont, open_is_ready, h2)| {
        let mut ops = vec![];
        for _ in 0..k {
            ops.push(Op::Hold { origin: 0, h2 });
        }
        for i in 0..k {
            ops.push(Op::Release(((i * 65536) / k) as u16 + 1));
        }
        for _ in 0..2 {
            for j in 0..k {
                ops.push(Op::Poll(((j * 65536) / k) as u16 + 1));
            }
            for j in 0..k {
                ops.push(Op::ConnReady(((j * 65536) / k) as u16 + 1));
            }
            ops.push(Op::Bg);
        }
        ops.push(Op::Sleep(1150));
        for _ in 0..probes {
            ops.push(Op::Issue { origin: 0, h2 });
        }
        for j in 0..probes {
            ops.push(Op::Poll(((j * 65536) / probes) as u16 + 1));
        }
        PoolCase { cfg: PoolCfg { idle_timeout_ms: timeout, max_idle: 32, cont, req_timeout_ms: None, open_is_ready, caller_host: 0, single_use: false, holder_polls_ready: false, ready_hides_close: false, build_path: 0, fused_attempts: false, coarse_key: false, built_on: 0, conn_version_10: false }, ops }
    })
}

/// Histories over hundreds of distinct origins: a sweep leaves one pooled connection per origin, then
/// requests go to arbitrary origins (early ones included) interleaved with the usual operations.
pub fn many_origins_strategy(max_ops: usize) -> impl Strategy<Value = PoolCase> {
    (
        prop_oneof![Just(40u16), Just(260u16), Just(300u16), Just(700u16)],
        proptest::collection::vec(
            prop_oneof![
                6 => (prop_oneof![3 => 0u16..20, 2 => 0u16..720], any::<bool>()).prop_map(|(origin, h2)| Op::IssueAt { origin, h2: h2 && origin % 3 == 0 }),
                8 => any::<u16>().prop_map(Op::Poll),
                3 => any::<u16>().prop_map(Op::DialOk),
                3 => (any::<u16>(), Just(false)).prop_map(|(i, a)| Op::HsOk(i, a)),
                3 => any::<u16>().prop_map(Op::Release),
                3 => any::<u16>().prop_map(Op::ConnReady),
                1 => any::<u16>().prop_map(Op::Cancel),
                3 => Just(Op::Bg),
            ],
            0..max_ops,
        ),
        any::<bool>(),
    )
        .prop_map(|(n, mut ops, cont)| {
            ops.insert(0, Op::Sweep { n });
            PoolCase { cfg: PoolCfg { idle_timeout_ms: None, max_idle: 32, cont, req_timeout_ms: None, open_is_ready: true, caller_host: 0, single_use: false, holder_polls_ready: false, ready_hides_close: false, build_path: 0, fused_attempts: false, coarse_key: false, built_on: 0, conn_version_10: false }, ops }
        })
}

/// A sweep over hundreds of other origins *in the middle* of the traffic to a few origins: requests
/// issued before the sweep still hold their connections while it runs and release them afterwards,
/// more requests to the same origins follow. Whatever the pool does to its key bookkeeping at scale,
/// the origins' connections must stay theirs and the idle bound (1 or 2 here) must hold.
pub fn many_origins_mid_strategy(max_ops: usize) -> impl Strategy<Value = PoolCase> {
    let op = || {
        prop_oneof![
            6 => (0u16..3, Just(false)).prop_map(|(origin, h2)| Op::IssueAt { origin, h2 }),
            8 => any::<u16>().prop_map(Op::Poll),
            4 => any::<u16>().prop_map(Op::DialOk),
            4 => (any::<u16>(), Just(false)).prop_map(|(i, a)| Op::HsOk(i, a)),
            4 => any::<u16>().prop_map(Op::Release),
            4 => any::<u16>().prop_map(Op::ConnReady),
            3 => Just(Op::Bg),
        ]
    };
    (
        prop_oneof![Just(260u16), Just(300u16), Just(520u16)],
        proptest::collection::vec(op(), 4..(max_ops / 2).max(5)),
        proptest::collection::vec(op(), 4..(max_ops / 2).max(5)),
        any::<bool>(),
        prop_oneof![Just(1usize), Just(2usize)],
    )
        .prop_map(|(n, mut before, after, cont, max_idle)| {
            before.push(Op::Sweep { n });
            before.extend(after);
            PoolCase { cfg: PoolCfg { idle_timeout_ms: None, max_idle, cont, req_timeout_ms: None, open_is_ready: true, caller_host: 0, single_use: false, holder_polls_ready: false, ready_hides_close: false, build_path: 0, fused_attempts: false, coarse_key: false, built_on: 0, conn_version_10: false }, ops: before }
        })
}

/// Histories over a small random subset of the whole origin table (near misses included): origins
/// that differ only in an explicit port equal to the other scheme's default, in scheme with the same
/// explicit port, in a host prefix/suffix, or that are IP literals.
pub fn near_origins_strategy(wt: Weights, max_ops: usize) -> impl Strategy<Value = PoolCase> {
    (2usize..=4).prop_flat_map(move |k| {
        let wt = Weights { origins: k as u8, ..wt };
        (
            proptest::collection::vec(0u16..=u16::MAX, k),
            0u8..9,
            cfg_any_strategy(),
            proptest::collection::vec(op_strategy(wt), 0..max_ops),
        )
            .prop_map(move |(picks, family, cfg, ops)| {
                // `family`: stay within one cluster of related entries - the ones about a.test (base table plus
                // near misses), the ones with user information, the trailing-dot ones, the IP literals - or
                // draw from the whole table
                let pool: Vec<u8> = match family {
                    0 | 1 => vec![0, 1, 2, 4, 6, 7, 8, 9, 10, 11, 18, 19, 20, 21, 22, 23, 24, 32, 34],
                    2 => vec![25, 26, 27, 28],
                    3 => vec![29, 30, 31],
                    4 => vec![12, 13, 14, 15, 16],
                    5 => vec![2, 32, 3, 33, 6, 34, 22],
                    6 => vec![35, 36, 37, 3],
                    _ => (0..ORIGINS.len() as u8).collect(),
                };
                let chosen: Vec<u8> = picks.iter().map(|r| pool[idx(*r, pool.len()).unwrap_or(0)]).collect();
                let ops = ops
                    .into_iter()
                    .map(|op| match op {
                        Op::Issue { origin, h2 } => Op::Issue { origin: chosen[origin as usize % chosen.len()], h2 },
                        Op::Warm { origin, h2 } => Op::Warm { origin: chosen[origin as usize % chosen.len()], h2 },
                        Op::Hold { origin, h2 } => Op::Hold { origin: chosen[origin as usize % chosen.len()], h2 },
                        other => other,
                    })
                    .collect();
                let cfg = PoolCfg { caller_host: (picks[0] % 3) as u8, coarse_key: picks[0] / 3 % 3 == 0, ..cfg };
                PoolCase { cfg, ops }
            })
    })
}

/// Small idle lists (1 or 2) together with the "open = not closed" connection flavour: the
/// combination in which a released-but-busy connection, a closed idle entry and the idle bound meet.
pub fn cfg_small_idle_strategy() -> impl Strategy<Value = PoolCfg> {
    (prop_oneof![Just(None), Just(Some(0u64)), Just(Some(3_600_000u64))], prop_oneof![Just(1usize), Just(2)], any::<bool>(), prop_oneof![1 => Just(true), 3 => Just(false)], any::<bool>())
        .prop_map(|(t, m, cont, open_is_ready, holder_polls_ready)| PoolCfg { idle_timeout_ms: t, max_idle: m, cont, req_timeout_ms: None, open_is_ready, caller_host: 0, single_use: false, holder_polls_ready, ready_hides_close: false, build_path: 0, fused_attempts: false, coarse_key: false, built_on: 0, conn_version_10: false })
}

pub fn cfg_any_strategy() -> impl Strategy<Value = PoolCfg> {
    (
        prop_oneof![3 => Just(None), 3 => Just(Some(0u64)), 3 => Just(Some(3_600_000u64)), 1 => Just(Some(u64::MAX)), 1 => Just(Some(999u64)), 1 => Just(Some(1_900u64))],
        prop_oneof![Just(0usize), Just(1), Just(2), Just(3), Just(32)],
        any::<bool>(),
        prop_oneof![2 => Just(true), 1 => Just(false)],
        prop_oneof![2 => Just(false), 1 => Just(true)],
        prop_oneof![3 => Just(false), 1 => Just(true)],
        prop_oneof![2 => Just(0u8), 1 => 1u8..8],
        prop_oneof![2 => Just(false), 1 => Just(true)],
        prop_oneof![4 => Just(0u8), 1 => Just(1u8), 1 => Just(2u8)],
    )
        .prop_map(|(t, m, cont, open_is_ready, holder_polls_ready, ready_hides_close, build_path, fused_attempts, built_on)| PoolCfg { idle_timeout_ms: t, max_idle: m, cont, req_timeout_ms: None, open_is_ready, caller_host: 0, single_use: false, holder_polls_ready, ready_hides_close, build_path, fused_attempts, coarse_key: false, built_on, conn_version_10: built_on == 0 && build_path % 3 == 1 })
}

// ------------------------------------------------------------------------------------------------
// engine wrapper: filters violations to one property

pub struct PoolEngine {
    pub prop: &'static str,
    /// rule for a non-trivial case, over the measured classes
    pub nontrivial: fn(&[&'static str]) -> bool,
    pub phases: Phases,
}

impl Engine for PoolEngine {
    type Case = PoolCase;
    fn name(&self) -> &'static str {
        "poolsim"
    }
    fn run_case(&self, case: &PoolCase) -> CaseReport {
        let out = run_pool_case(case, false, self.phases);
        let mut rep = out.report;
        let prefix = format!("{}/", self.prop);
        rep.violations.retain(|v| v.sig.starts_with(&prefix) || v.sig.starts_with("POOL/"));
        for v in rep.violations.iter_mut() {
            if v.sig.starts_with("POOL/") {
                v.sig = format!("{}{}", prefix, &v.sig["POOL/".len()..]);
            }
        }
        rep.nontrivial = (self.nontrivial)(&rep.classes);
        rep
    }
}
