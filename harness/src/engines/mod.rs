pub mod poolsim;
