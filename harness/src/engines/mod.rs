pub mod poolsim;
pub mod addrsort;
pub mod eyeballs;
pub mod sni;
pub mod sniff;
pub mod iomodel;
pub mod timeout;
pub mod reqgrammar;
