//! E3 `sniff` (C08): the auto-detecting server connection (`server::conn::auto::Builder` through the
//! public `server::Protocol` trait) fed by a scripted reader with exact chunk boundaries.
//!
//! Oracles: (i) classification by the 24-byte preface rule, (ii) metamorphic: transcript for
//! (bytes, cuts) equals transcript for (bytes, one chunk), (iii) differential: equals the transcript of
//! the same bytes against a plain hyper http1 / http2 server connection with the same handler.
#![allow(dead_code)]

use std::collections::VecDeque;
use std::future::Future;
use std::pin::Pin;
use std::sync::atomic::{AtomicUsize, Ordering};
use std::sync::{Arc, Mutex};
use std::task::{Context, Poll, Wake, Waker};

use bytes::Bytes;
use http_body_util::{BodyExt, Full};
use serde::{Deserialize, Serialize};
use tokio::io::{AsyncRead, AsyncWrite, ReadBuf};

use crate::common::{CaseReport, Engine};

pub const PREFACE: &[u8] = b"PRI * HTTP/2.0\r\n\r\nSM\r\n\r\n";

// ------------------------------------------------------------------------------------------------
// scripted IO

#[derive(Default)]
pub struct IoState {
    pub chunks: VecDeque<(Vec<u8>, bool)>, // (data, pending before)
    pub eof_now: bool,
    pub closed: bool,
    pub read_waker: Option<Waker>,
    /// bytes the peer has received: what was written AND flushed (the stream buffers its output until
    /// a flush or shutdown, as a TLS session or any buffered writer does)
    pub written: Vec<u8>,
    pub unflushed: Vec<u8>,
    pub shutdown: bool,
    pub reads: Vec<usize>,
    pub write_cap: usize,
    /// reads answered with end-of-stream so far; a reader that keeps asking is cut off with an error
    pub eof_reads: usize,
    pub eof_loop: bool,
    /// a read fails once (connection reset) when this many chunks have been delivered; whoever reads on
    /// after that error is served the remaining chunks - nobody should
    pub error_after_chunks: Option<usize>,
    pub chunks_done: usize,
    pub errored: bool,
    pub read_after_error: bool,
}

#[derive(Clone)]
pub struct ScriptIo(pub Arc<Mutex<IoState>>);

impl AsyncRead for ScriptIo {
    fn poll_read(self: Pin<&mut Self>, cx: &mut Context<'_>, buf: &mut ReadBuf<'_>) -> Poll<std::io::Result<()>> {
        let mut s = self.0.lock().unwrap();
        if s.errored {
            s.read_after_error = true;
        }
        if s.error_after_chunks == Some(s.chunks_done) && !s.errored {
            s.errored = true;
            return Poll::Ready(Err(std::io::Error::new(std::io::ErrorKind::ConnectionReset, "scripted transport error")));
        }
        if let Some((data, pending)) = s.chunks.front_mut() {
            if *pending {
                *pending = false;
                cx.waker().wake_by_ref();
                return Poll::Pending;
            }
            let n = data.len().min(buf.remaining());
            if n == 0 && !data.is_empty() {
                // zero-capacity read: nothing to report
                return Poll::Ready(Ok(()));
            }
            buf.put_slice(&data[..n]);
            if n == data.len() {
                s.chunks.pop_front();
                s.chunks_done += 1;
            } else {
                data.drain(..n);
            }
            s.reads.push(n);
            return Poll::Ready(Ok(()));
        }
        if s.eof_now || s.closed {
            s.eof_reads += 1;
            if s.eof_reads > 5000 {
                // somebody polls for more in a loop although the stream has ended: break the loop
                s.eof_loop = true;
                return Poll::Ready(Err(std::io::Error::other("harness: read polled endlessly after the end of the stream")));
            }
            return Poll::Ready(Ok(()));
        }
        s.read_waker = Some(cx.waker().clone());
        Poll::Pending
    }
}

impl AsyncWrite for ScriptIo {
    fn poll_write(self: Pin<&mut Self>, _cx: &mut Context<'_>, buf: &[u8]) -> Poll<std::io::Result<usize>> {
        let mut s = self.0.lock().unwrap();
        let n = if s.write_cap == 0 { buf.len() } else { buf.len().min(s.write_cap) };
        s.unflushed.extend_from_slice(&buf[..n]);
        Poll::Ready(Ok(n))
    }
    fn poll_flush(self: Pin<&mut Self>, _cx: &mut Context<'_>) -> Poll<std::io::Result<()>> {
        let mut s = self.0.lock().unwrap();
        let pending = std::mem::take(&mut s.unflushed);
        s.written.extend_from_slice(&pending);
        Poll::Ready(Ok(()))
    }
    fn poll_shutdown(self: Pin<&mut Self>, _cx: &mut Context<'_>) -> Poll<std::io::Result<()>> {
        let mut s = self.0.lock().unwrap();
        let pending = std::mem::take(&mut s.unflushed);
        s.written.extend_from_slice(&pending);
        s.shutdown = true;
        Poll::Ready(Ok(()))
    }
}

// ------------------------------------------------------------------------------------------------
// handler shared by every server flavour

pub async fn handle<B>(req: http::Request<B>) -> Result<http::Response<Full<Bytes>>, std::convert::Infallible>
where
    B: http_body::Body,
{
    let (parts, body) = req.into_parts();
    let collected = body.collect().await;
    let (len, sum, ok) = match collected {
        Ok(c) => {
            let b = c.to_bytes();
            (b.len(), b.iter().fold(0u32, |a, x| a.wrapping_mul(31).wrapping_add(*x as u32)), true)
        }
        Err(_) => (0, 0, false),
    };
    let text = format!(
        "v={:?};m={};p={};q={:?};host={:?};bl={};bs={};ok={}",
        parts.version,
        parts.method,
        parts.uri.path(),
        parts.uri.query(),
        parts.headers.get("host").and_then(|h| h.to_str().ok()),
        len,
        sum,
        ok
    );
    Ok(http::Response::builder().status(200).header("x-echo", "1").body(Full::new(Bytes::from(text))).unwrap())
}

#[derive(Clone, Copy, Debug, PartialEq, Eq)]
pub enum Flavour {
    Auto,
    PlainH1,
    PlainH2,
}

struct Flag(AtomicUsize);
impl Wake for Flag {
    fn wake(self: Arc<Self>) {
        self.0.fetch_add(1, Ordering::SeqCst);
    }
    fn wake_by_ref(self: &Arc<Self>) {
        self.0.fetch_add(1, Ordering::SeqCst);
    }
}

#[derive(Debug, Clone, PartialEq)]
pub struct Transcript {
    pub bytes: Vec<u8>,
    pub finished: Option<bool>, // Some(true)=Ok, Some(false)=Err, None=never finished
    pub reads: Vec<usize>,
    /// the server kept polling for more after the end of the stream (cut off after 5000 reads)
    pub eof_loop: bool,
    /// the server read from the transport again after a read had failed
    pub read_after_error: bool,
}

/// Run one server connection over the scripted input; returns everything the server wrote.
pub fn run_server(flavour: Flavour, chunks: Vec<(Vec<u8>, bool)>, eof_now: bool) -> Transcript {
    run_server_err(flavour, chunks, eof_now, None)
}

pub fn run_server_err(flavour: Flavour, chunks: Vec<(Vec<u8>, bool)>, eof_now: bool, error_after_chunks: Option<usize>) -> Transcript {
    let rt = tokio::runtime::Builder::new_current_thread().enable_time().start_paused(true).build().unwrap();
    let state = Arc::new(Mutex::new(IoState { chunks: chunks.into(), eof_now, error_after_chunks, ..Default::default() }));
    let io = ScriptIo(state.clone());
    let finished = rt.block_on(async {
        type ConnFut = Pin<Box<dyn Future<Output = bool>>>;
        let mut conn: ConnFut = match flavour {
            Flavour::Auto => {
                use hyperdriver::server::Protocol;
                let builder = hyperdriver::server::conn::auto::Builder::default();
                let svc = tower::service_fn(handle::<hyperdriver::Body>);
                let c = <hyperdriver::server::conn::auto::Builder as Protocol<_, _, hyperdriver::Body>>::serve_connection_with_upgrades(&builder, io, svc);
                Box::pin(async move { c.await.is_ok() })
            }
            Flavour::PlainH1 => {
                let svc = hyper::service::service_fn(handle::<hyper::body::Incoming>);
                let c = hyper::server::conn::http1::Builder::new()
                    .serve_connection(hyperdriver::bridge::io::TokioIo::new(io), svc)
                    .with_upgrades();
                Box::pin(async move { c.await.is_ok() })
            }
            Flavour::PlainH2 => {
                let svc = hyper::service::service_fn(handle::<hyper::body::Incoming>);
                let c = hyper::server::conn::http2::Builder::new(hyperdriver::bridge::rt::TokioExecutor::new())
                    .serve_connection(hyperdriver::bridge::io::TokioIo::new(io), svc);
                Box::pin(async move { c.await.is_ok() })
            }
        };
        let flag = Arc::new(Flag(AtomicUsize::new(1)));
        let waker = Waker::from(flag.clone());
        let mut result = None;
        for _round in 0..10_000 {
            let woken = flag.0.swap(0, Ordering::SeqCst) > 0;
            if woken {
                let mut cx = Context::from_waker(&waker);
                if let Poll::Ready(ok) = conn.as_mut().poll(&mut cx) {
                    result = Some(ok);
                    break;
                }
            }
            // let spawned handler tasks run
            for _ in 0..3 {
                tokio::task::yield_now().await;
            }
            if flag.0.load(Ordering::SeqCst) == 0 {
                // quiescent: the client now closes its sending side
                let mut s = state.lock().unwrap();
                if !s.closed && s.chunks.is_empty() {
                    s.closed = true;
                    if let Some(w) = s.read_waker.take() {
                        drop(s);
                        w.wake();
                    } else {
                        drop(s);
                        flag.0.fetch_add(1, Ordering::SeqCst);
                    }
                } else if s.closed {
                    break;
                } else {
                    // chunks remain but nobody reads: stuck
                    break;
                }
            }
        }
        drop(conn);
        result
    });
    drop(rt);
    let s = state.lock().unwrap();
    Transcript { bytes: s.written.clone(), finished, reads: s.reads.clone(), eof_loop: s.eof_loop, read_after_error: s.read_after_error }
}

// ------------------------------------------------------------------------------------------------
// transcript normalisation

#[derive(Debug, Clone, PartialEq)]
pub enum Norm {
    /// HTTP/1 bytes with Date headers removed
    H1(Vec<u8>),
    /// HTTP/2: frame types seen in order of first appearance (without WINDOW_UPDATE/PING),
    /// per-stream concatenated DATA payload with END_STREAM flag, GOAWAY/RST error codes
    H2 { settings_first: bool, data: Vec<(u32, Vec<u8>, bool)>, headers_streams: Vec<u32>, errors: Vec<(u8, u32)> },
    Empty,
}

pub fn strip_date(b: &[u8]) -> Vec<u8> {
    let mut out = Vec::with_capacity(b.len());
    let mut i = 0;
    while i < b.len() {
        let line_end = b[i..].windows(2).position(|w| w == b"\r\n").map(|p| i + p + 2).unwrap_or(b.len());
        let line = &b[i..line_end];
        if line.len() >= 5 && line[..5].eq_ignore_ascii_case(b"date:") {
            // skip
        } else {
            out.extend_from_slice(line);
        }
        i = line_end;
    }
    out
}

pub fn looks_h2(b: &[u8]) -> bool {
    b.len() >= 9 && b[3] == 0x04 && b[5..9] == [0, 0, 0, 0] && (b[4] == 0)
}

pub fn normalise(b: &[u8]) -> Norm {
    if b.is_empty() {
        return Norm::Empty;
    }
    if looks_h2(b) {
        let mut i = 0;
        let mut data: Vec<(u32, Vec<u8>, bool)> = vec![];
        let mut headers_streams = vec![];
        let mut errors = vec![];
        while i + 9 <= b.len() {
            let len = ((b[i] as usize) << 16) | ((b[i + 1] as usize) << 8) | b[i + 2] as usize;
            let ty = b[i + 3];
            let flags = b[i + 4];
            let sid = u32::from_be_bytes([b[i + 5] & 0x7f, b[i + 6], b[i + 7], b[i + 8]]);
            let end = (i + 9 + len).min(b.len());
            let payload = &b[i + 9..end];
            match ty {
                0 => {
                    let e = match data.iter_mut().find(|d| d.0 == sid) {
                        Some(e) => e,
                        None => {
                            data.push((sid, vec![], false));
                            data.last_mut().unwrap()
                        }
                    };
                    e.1.extend_from_slice(payload);
                    if flags & 1 == 1 {
                        e.2 = true;
                    }
                }
                1 => headers_streams.push(sid),
                3 | 7 => {
                    let code_off = if ty == 7 { 4 } else { 0 };
                    let code = if payload.len() >= code_off + 4 {
                        u32::from_be_bytes([payload[code_off], payload[code_off + 1], payload[code_off + 2], payload[code_off + 3]])
                    } else {
                        u32::MAX
                    };
                    errors.push((ty, code));
                }
                _ => {}
            }
            i = end;
        }
        Norm::H2 { settings_first: true, data, headers_streams, errors }
    } else {
        Norm::H1(strip_date(b))
    }
}

// ------------------------------------------------------------------------------------------------
// cases

#[derive(Clone, Debug, Serialize, Deserialize, PartialEq)]
pub enum StreamSpec {
    /// HTTP/1.1 request(s)
    H1 { method: u8, target: u8, body: u16, pipelined: bool, close: bool },
    /// preface + SETTINGS + HEADERS (+ DATA)
    H2 { post: bool, path: u8, body: u16, extra_settings: bool },
    /// first `n` bytes of the preface, then `then`
    Prefix { n: u8, then: Vec<u8> },
    Raw(Vec<u8>),
}

const METHODS: &[&str] = &["GET", "POST", "PUT", "PRI", "P", "PR", "OPTIONS", "PRIX"];
const TARGETS: &[&str] = &["/", "/a/b?x=1", "*", "/PRI", "/%20x?y", "/index.html", "/*", "/ HTTP"];
const H2PATHS: &[&str] = &["/", "/a/b?x=1", "/index.html", "/PRI*"];

fn frame(ty: u8, flags: u8, sid: u32, payload: &[u8]) -> Vec<u8> {
    let mut f = vec![(payload.len() >> 16) as u8, (payload.len() >> 8) as u8, payload.len() as u8, ty, flags];
    f.extend_from_slice(&sid.to_be_bytes());
    f.extend_from_slice(payload);
    f
}

pub fn render(s: &StreamSpec) -> Vec<u8> {
    match s {
        StreamSpec::H1 { method, target, body, pipelined, close } => {
            let m = METHODS[*method as usize % METHODS.len()];
            let t = TARGETS[*target as usize % TARGETS.len()];
            let mut out = Vec::new();
            let one = |out: &mut Vec<u8>, last: bool| {
                out.extend_from_slice(format!("{m} {t} HTTP/1.1\r\nhost: a.test\r\n").as_bytes());
                if *body > 0 {
                    out.extend_from_slice(format!("content-length: {}\r\n", body).as_bytes());
                }
                if last && *close {
                    out.extend_from_slice(b"connection: close\r\n");
                }
                out.extend_from_slice(b"\r\n");
                out.extend((0..*body).map(|i| b'a' + (i % 26) as u8));
            };
            if *pipelined {
                one(&mut out, false);
            }
            one(&mut out, true);
            out
        }
        StreamSpec::H2 { post, path, body, extra_settings } => {
            let mut out = PREFACE.to_vec();
            if *extra_settings {
                // SETTINGS_ENABLE_PUSH = 0
                out.extend(frame(4, 0, 0, &[0, 2, 0, 0, 0, 0]));
            } else {
                out.extend(frame(4, 0, 0, &[]));
            }
            let p = H2PATHS[*path as usize % H2PATHS.len()];
            let mut hp = vec![if *post { 0x83 } else { 0x82 }, 0x86];
            if p == "/" {
                hp.push(0x84);
            } else {
                hp.push(0x44);
                hp.push(p.len() as u8);
                hp.extend_from_slice(p.as_bytes());
            }
            hp.push(0x41);
            hp.push(6);
            hp.extend_from_slice(b"a.test");
            if *post && *body > 0 {
                out.extend(frame(1, 0x04, 1, &hp));
                let payload: Vec<u8> = (0..*body).map(|i| b'a' + (i % 26) as u8).collect();
                out.extend(frame(0, 0x01, 1, &payload));
            } else {
                out.extend(frame(1, 0x05, 1, &hp));
            }
            out
        }
        StreamSpec::Prefix { n, then } => {
            let n = (*n as usize).min(PREFACE.len());
            let mut out = PREFACE[..n].to_vec();
            out.extend_from_slice(then);
            out
        }
        StreamSpec::Raw(b) => b.clone(),
    }
}

#[derive(Clone, Debug, Serialize, Deserialize, PartialEq)]
pub struct SniffCase {
    pub stream: StreamSpec,
    /// sizes of the read chunks covering the first 32 bytes (each >= 1); the rest follows in
    /// chunks of `tail` bytes (0 = one chunk)
    pub cuts: Vec<u8>,
    /// bit i set: the reader reports Pending once before chunk i
    pub pendings: u32,
    pub tail: u16,
    pub eof_now: bool,
    /// a read fails (once) after this many chunks of the plan: the connection ends there for every
    /// server alike - nothing that follows the error on the transport is read, let alone answered
    #[serde(default)]
    pub error_at: Option<u8>,
}

pub fn chunk_plan(bytes: &[u8], cuts: &[u8], pendings: u32, tail: u16) -> Vec<(Vec<u8>, bool)> {
    let mut out = vec![];
    let head_len = bytes.len().min(32);
    let mut pos = 0;
    let mut k = 0;
    for c in cuts {
        if pos >= head_len {
            break;
        }
        let n = (*c as usize).max(1).min(head_len - pos);
        out.push((bytes[pos..pos + n].to_vec(), pendings >> (k % 32) & 1 == 1));
        pos += n;
        k += 1;
    }
    if pos < head_len {
        out.push((bytes[pos..head_len].to_vec(), pendings >> (k % 32) & 1 == 1));
        pos = head_len;
        k += 1;
    }
    while pos < bytes.len() {
        let n = if tail == 0 { bytes.len() - pos } else { (tail as usize).min(bytes.len() - pos) };
        out.push((bytes[pos..pos + n].to_vec(), pendings >> (k % 32) & 1 == 1));
        pos += n;
        k += 1;
    }
    out
}

pub struct SniffEngine;

fn show(b: &[u8]) -> String {
    let s: String = b.iter().take(160).map(|c| if c.is_ascii_graphic() || *c == b' ' { *c as char } else { '.' }).collect();
    format!("{}B \"{}\"", b.len(), s)
}

impl Engine for SniffEngine {
    type Case = SniffCase;
    fn name(&self) -> &'static str {
        "sniff"
    }
    fn run_case(&self, c: &SniffCase) -> CaseReport {
        let mut rep = CaseReport::default();
        let bytes = render(&c.stream);
        let plan = chunk_plan(&bytes, &c.cuts, c.pendings, c.tail);
        let single = if bytes.is_empty() { vec![] } else { vec![(bytes.clone(), false)] };
        let is_h2 = bytes.len() >= PREFACE.len() && &bytes[..PREFACE.len()] == PREFACE;

        if let Some(k) = c.error_at {
            // a transport error in the middle of the plan: the connection is over - for the auto-detecting
            // server as for the single-protocol one - and nothing behind the error is read
            let k = (k as usize).min(plan.len());
            let flav = if is_h2 { Flavour::PlainH2 } else { Flavour::PlainH1 };
            let a = run_server_err(Flavour::Auto, plan.clone(), false, Some(k));
            let p = run_server_err(flav, plan.clone(), false, Some(k));
            rep.class("transport-error-injected");
            let delivered: usize = plan.iter().take(k).map(|(d, _)| d.len()).sum();
            if delivered < PREFACE.len() {
                rep.class("transport-error-while-protocol-undecided");
            }
            if a.read_after_error && !p.read_after_error {
                rep.violate(
                    "C08/transport-error-swallowed",
                    format!("input {} delivered as {:?} with a read error after {k} chunks: the auto-detecting connection went on reading the transport after the error and wrote {}; the single-protocol connection stopped (finished {:?})", show(&bytes), plan.iter().map(|(d, _)| d.len()).collect::<Vec<_>>(), show(&a.bytes), p.finished),
                );
            }
            rep.nontrivial = k > 0 && k < plan.len();
            rep.total_ops = plan.len() as u64;
            return rep;
        }
        let cut = run_server(Flavour::Auto, plan.clone(), c.eof_now);
        let whole = run_server(Flavour::Auto, single.clone(), c.eof_now);
        let plain = run_server(if is_h2 { Flavour::PlainH2 } else { Flavour::PlainH1 }, single, c.eof_now);

        if cut.eof_loop || whole.eof_loop {
            rep.violate(
                "C08/reader-polled-endlessly-after-end-of-stream",
                format!("{c:?}: the auto-detecting connection read past the end of the client's bytes more than 5000 times in a row ({})", if cut.eof_loop { "fragmented delivery" } else { "delivery in one piece" }),
            );
        }
        let n_cut = normalise(&cut.bytes);
        let n_whole = normalise(&whole.bytes);
        let n_plain = normalise(&plain.bytes);
        let reads24: usize = {
            // number of reads that delivered the first 24 bytes
            let mut acc = 0;
            let mut k = 0;
            for r in &cut.reads {
                if acc >= 24.min(bytes.len()) {
                    break;
                }
                acc += r;
                k += 1;
            }
            k
        };
        let desc = format!(
            "input {} delivered as {:?} (pending mask {:#x}), eof_now={}",
            show(&bytes),
            plan.iter().map(|(d, _)| d.len()).collect::<Vec<_>>(),
            c.pendings,
            c.eof_now
        );

        // (i) classification
        match (&n_cut, is_h2) {
            (Norm::H1(b), true) => {
                rep.violate("C08/preface-served-as-http1", format!("{desc}: stream begins with the HTTP/2 preface but the server answered {}", show(b)));
            }
            (Norm::Empty, true) => {
                rep.violate("C08/preface-not-served-as-http2", format!("{desc}: stream begins with the HTTP/2 preface but the server wrote nothing (no SETTINGS)"));
            }
            (Norm::H2 { .. }, false) => {
                rep.violate("C08/non-preface-served-as-http2", format!("{desc}: server answered with HTTP/2 frames"));
            }
            _ => {}
        }
        // hyper's own answer to malformed or truncated input may depend on read boundaries (when it
        // decides to emit 400 vs. wait for more). The exact-equality oracles (ii)/(iii) are applied
        // only where the single-protocol reference itself is invariant under the same plan and
        // under one-byte reads; otherwise only the classification (i) is asserted.
        let flav = if is_h2 { Flavour::PlainH2 } else { Flavour::PlainH1 };
        let plain_plan = run_server(flav, plan.clone(), c.eof_now);
        let ones: Vec<(Vec<u8>, bool)> = bytes.iter().map(|b| (vec![*b], false)).collect();
        let plain_ones = run_server(flav, ones, c.eof_now);
        let reference_invariant = normalise(&plain_plan.bytes) == n_plain
            && plain_plan.finished == plain.finished
            && normalise(&plain_ones.bytes) == n_plain
            && plain_ones.finished == plain.finished;
        if !reference_invariant {
            rep.class("reference-itself-fragmentation-sensitive");
        }
        // (ii) metamorphic: fragmentation must not matter
        if reference_invariant && (n_cut != n_whole || cut.finished != whole.finished) {
            rep.violate(
                "C08/fragmentation-changes-response",
                format!("{desc}: fragmented -> {:?} finished={:?}; unfragmented -> {:?} finished={:?}", brief(&n_cut), cut.finished, brief(&n_whole), whole.finished),
            );
        }
        // (iii) differential against a single-protocol hyper connection
        if reference_invariant && (n_cut != n_plain || cut.finished != plain.finished) {
            rep.violate(
                "C08/differs-from-single-protocol-server",
                format!("{desc}: auto -> {:?} finished={:?}; plain {} -> {:?} finished={:?}", brief(&n_cut), cut.finished, if is_h2 { "http2" } else { "http1" }, brief(&n_plain), plain.finished),
            );
        }
        // a complete request must actually be answered (guards against vacuous equality)
        match &c.stream {
            StreamSpec::H2 { .. } => {
                if let (Norm::H2 { data, .. }, false) = (&n_cut, c.eof_now) {
                    let ok = data.iter().any(|(sid, d, end)| *sid == 1 && *end && d.starts_with(b"v=HTTP/2.0;"));
                    if !ok {
                        rep.violate("C08/http2-request-not-answered", format!("{desc}: no complete response on stream 1: {:?}", brief(&n_cut)));
                    }
                }
                rep.class("h2-stream");
            }
            StreamSpec::H1 { method, target, .. } => {
                rep.class("h1-stream");
                let m = METHODS[*method as usize % METHODS.len()];
                let t = TARGETS[*target as usize % TARGETS.len()];
                if m.starts_with('P') || t.contains("PRI") || t == "*" {
                    rep.class("h1-shares-prefix-with-preface");
                }
            }
            StreamSpec::Prefix { .. } => rep.class("preface-prefix-stream"),
            StreamSpec::Raw(_) => rep.class("raw-stream"),
        }
        if reads24 >= 2 {
            rep.class("first-24-bytes-in-2+-reads");
            rep.nontrivial = true;
        }
        if plan.iter().any(|(_, p)| *p) {
            rep.class("pending-between-chunks");
        }
        if is_h2 {
            rep.class("expects-h2");
        }
        rep.total_ops = plan.len() as u64;
        rep
    }
}

fn brief(n: &Norm) -> String {
    match n {
        Norm::Empty => "nothing".into(),
        Norm::H1(b) => format!("h1 {}", show(b)),
        Norm::H2 { data, headers_streams, errors, .. } => format!(
            "h2 headers_on={headers_streams:?} data={:?} errors={errors:?}",
            data.iter().map(|(s, d, e)| (s, show(d), e)).collect::<Vec<_>>()
        ),
    }
}

pub fn strategy() -> impl proptest::strategy::Strategy<Value = SniffCase> {
    use proptest::prelude::*;
    let stream = prop_oneof![
        4 => (0u8..8, 0u8..8, prop_oneof![3 => Just(0u16), 2 => 1u16..200], any::<bool>(), any::<bool>())
            .prop_map(|(method, target, body, pipelined, close)| StreamSpec::H1 { method, target, body, pipelined, close }),
        4 => (any::<bool>(), 0u8..4, prop_oneof![1 => Just(0u16), 2 => 1u16..300], any::<bool>())
            .prop_map(|(post, path, body, extra_settings)| StreamSpec::H2 { post, path, body, extra_settings }),
        2 => (0u8..=24, prop_oneof![
                Just(vec![]),
                Just(b" / HTTP/1.1\r\nhost: a.test\r\n\r\n".to_vec()),
                Just(b"X".to_vec()),
                Just(b"\r\n\r\n".to_vec()),
                proptest::collection::vec(any::<u8>(), 0..40),
            ]).prop_map(|(n, then)| StreamSpec::Prefix { n, then }),
        1 => proptest::collection::vec(any::<u8>(), 0..64).prop_map(StreamSpec::Raw),
        // preface look-alikes: a complete HTTP/2 opening whose preface differs in one place - a letter
        // in the other case, a byte off by one, two neighbours swapped, a bit flipped. Not the preface.
        2 => (0usize..24, 0u8..4, any::<bool>(), 0u8..4).prop_map(|(pos, how, post, path)| {
            let mut bytes = render(&StreamSpec::H2 { post, path, body: 0, extra_settings: false });
            let b = bytes[pos];
            match how {
                0 if b.is_ascii_alphabetic() => bytes[pos] = b ^ 0x20,
                1 => bytes[pos] = b.wrapping_add(1),
                2 if pos + 1 < 24 && bytes[pos + 1] != b => bytes.swap(pos, pos + 1),
                _ => bytes[pos] = b ^ 0x01,
            }
            StreamSpec::Raw(bytes)
        }),
    ];
    let cuts = prop_oneof![
        2 => proptest::collection::vec(1u8..=32, 0..8),
        1 => Just(vec![1u8; 32]),
        1 => proptest::collection::vec(1u8..=4, 8..32),
        1 => (1u8..=31).prop_map(|k| vec![k]),
    ];
    (stream, cuts, prop_oneof![Just(0u32), any::<u32>()], prop_oneof![Just(0u16), 1u16..64], any::<bool>())
        .prop_map(|(stream, cuts, pendings, tail, eof_now)| {
            // one case in eight carries a transport error somewhere in the first chunks (derived from the
            // fields at hand: the case stays a pure function of them)
            let h = (pendings as u64).wrapping_mul(0x9E37_79B9).wrapping_add(tail as u64 * 7 + cuts.len() as u64);
            let error_at = if h % 8 == 3 { Some((h / 8 % 5) as u8) } else { None };
            SniffCase { stream, cuts, pendings, tail, eof_now, error_at }
        })
}

/// All compositions of the first `n` bytes into chunks for a fixed stream (thorough tier).
pub fn compositions(stream: StreamSpec, n: usize, eof_now: bool) -> Vec<SniffCase> {
    let mut out = vec![];
    for mask in 0u32..(1u32 << (n - 1)) {
        let mut cuts = vec![];
        let mut run = 1u8;
        for i in 0..n - 1 {
            if mask >> i & 1 == 1 {
                cuts.push(run);
                run = 1;
            } else {
                run += 1;
            }
        }
        cuts.push(run);
        out.push(SniffCase { stream: stream.clone(), cuts, pendings: 0, tail: 0, eof_now, error_at: None });
    }
    out
}


/// The same simulation judged for C18: the sniffer and its rewind buffer are byte-stream adapters in
/// front of hyper; when the answer to a stream depends on how it was fragmented, or differs from the
/// single-protocol server's, bytes were lost, duplicated or invented on the way through them.
pub struct SniffRewindEngine;

impl Engine for SniffRewindEngine {
    type Case = SniffCase;
    fn name(&self) -> &'static str {
        "sniff"
    }
    fn run_case(&self, c: &SniffCase) -> CaseReport {
        let mut rep = SniffEngine.run_case(c);
        for v in rep.violations.iter_mut() {
            v.sig = match v.sig.as_str() {
                "C08/fragmentation-changes-response" => "C18/sniffing-rewind/fragmentation-changes-what-hyper-reads".to_string(),
                "C08/differs-from-single-protocol-server" => "C18/sniffing-rewind/bytes-differ-from-direct-delivery".to_string(),
                "C08/transport-error-swallowed" => "C18/sniffing-rewind/transport-error-swallowed".to_string(),
                other => format!("ignored/{other}"),
            };
        }
        rep.violations.retain(|v| v.sig.starts_with("C18/"));
        rep
    }
}

// ------------------------------------------------------------------------------------------------
// The same question one level up: servers built through `Server::builder()` - `with_auto_http()`
// against `with_http1()` / `with_http2()`, the single-protocol servers a user would build - over the
// same scripted stream handed out by a one-connection acceptor. The client delivers a first part of
// its bytes (fragmented), pauses until nothing moves any more, delivers the rest, pauses again and
// closes. What the client has received is compared at both pauses and at the end: requests that are
// complete when the client pauses are answered then, whatever follows them in the same read.

impl std::fmt::Debug for ScriptIo {
    fn fmt(&self, f: &mut std::fmt::Formatter<'_>) -> std::fmt::Result {
        write!(f, "ScriptIo")
    }
}
impl hyperdriver::info::HasConnectionInfo for ScriptIo {
    type Addr = hyperdriver::info::DuplexAddr;
    fn info(&self) -> hyperdriver::info::ConnectionInfo<Self::Addr> {
        Default::default()
    }
}

pub struct OneShotAcceptor(pub Option<ScriptIo>);
impl hyperdriver::server::conn::Accept for OneShotAcceptor {
    type Conn = ScriptIo;
    type Error = std::io::Error;
    fn poll_accept(mut self: Pin<&mut Self>, _cx: &mut Context<'_>) -> Poll<Result<Self::Conn, Self::Error>> {
        match self.0.take() {
            Some(io) => Poll::Ready(Ok(io)),
            // nobody else ever connects
            None => Poll::Pending,
        }
    }
}

#[derive(Clone, Copy, Debug, PartialEq)]
pub enum SrvKind {
    Auto,
    H1,
    H2,
}

/// (received at the first pause, received at the second pause, received in the end)
pub fn run_via_server(kind: SrvKind, first: Vec<(Vec<u8>, bool)>, rest: Vec<(Vec<u8>, bool)>) -> (Vec<u8>, Vec<u8>, Vec<u8>) {
    let rt = tokio::runtime::Builder::new_current_thread().enable_time().start_paused(true).build().unwrap();
    let state = Arc::new(Mutex::new(IoState { chunks: first.into(), ..Default::default() }));
    let io = ScriptIo(state.clone());
    let out = rt.block_on(async {
        let base = hyperdriver::Server::builder::<hyperdriver::Body>()
            .with_acceptor(hyperdriver::server::conn::Acceptor::new(OneShotAcceptor(Some(io))))
            .with_shared_service(tower::service_fn(handle::<hyperdriver::Body>));
        let server = match kind {
            SrvKind::Auto => tokio::spawn(async move { base.with_auto_http().with_tokio().await.map_err(|e| e.to_string()) }),
            SrvKind::H1 => tokio::spawn(async move { base.with_http1().with_tokio().await.map_err(|e| e.to_string()) }),
            SrvKind::H2 => tokio::spawn(async move { base.with_http2().with_tokio().await.map_err(|e| e.to_string()) }),
        };
        // until nothing moves any more: no reads, no writes, no chunk consumed during 40 turns
        let settle = |state: Arc<Mutex<IoState>>| async move {
            let mut last = (usize::MAX, usize::MAX, usize::MAX);
            let mut stable = 0;
            for _ in 0..4000 {
                tokio::task::yield_now().await;
                let now = {
                    let s = state.lock().unwrap();
                    (s.reads.len() + s.eof_reads, s.written.len() + s.unflushed.len(), s.chunks.len())
                };
                if now == last {
                    stable += 1;
                    if stable >= 40 {
                        break;
                    }
                } else {
                    stable = 0;
                    last = now;
                }
            }
        };
        settle(state.clone()).await;
        let snap1 = state.lock().unwrap().written.clone();
        {
            let mut s = state.lock().unwrap();
            s.chunks.extend(rest);
            if let Some(w) = s.read_waker.take() {
                drop(s);
                w.wake();
            }
        }
        settle(state.clone()).await;
        let snap2 = state.lock().unwrap().written.clone();
        {
            let mut s = state.lock().unwrap();
            s.closed = true;
            if let Some(w) = s.read_waker.take() {
                drop(s);
                w.wake();
            }
        }
        settle(state.clone()).await;
        server.abort();
        let fin = state.lock().unwrap().written.clone();
        (snap1, snap2, fin)
    });
    drop(rt);
    out
}

#[derive(Clone, Debug, Serialize, Deserialize, PartialEq)]
pub struct SrvSniffCase {
    pub stream: StreamSpec,
    pub cuts: Vec<u8>,
    pub pendings: u32,
    pub tail: u16,
    /// the client pauses after this many bytes (scaled to the length of the stream: 65535 = all of it)
    pub pause_at: u16,
}

pub struct SrvSniffEngine;

impl Engine for SrvSniffEngine {
    type Case = SrvSniffCase;
    fn name(&self) -> &'static str {
        "srvsniff"
    }
    fn run_case(&self, c: &SrvSniffCase) -> CaseReport {
        let mut rep = CaseReport::default();
        let _ = crate::panichook::take_all();
        let bytes = render(&c.stream);
        let is_h2 = bytes.len() >= PREFACE.len() && &bytes[..PREFACE.len()] == PREFACE;
        let pause = ((c.pause_at as usize) * (bytes.len() + 1)) >> 16;
        let pause = pause.min(bytes.len());
        let plan = chunk_plan(&bytes, &c.cuts, c.pendings, c.tail);
        // split the plan at the pause
        let (mut first, mut rest) = (vec![], vec![]);
        let mut pos = 0;
        for (data, pend) in plan {
            if pos + data.len() <= pause {
                pos += data.len();
                first.push((data, pend));
            } else if pos >= pause {
                pos += data.len();
                rest.push((data, pend));
            } else {
                let k = pause - pos;
                pos += data.len();
                first.push((data[..k].to_vec(), pend));
                rest.push((data[k..].to_vec(), false));
            }
        }
        let reference = if is_h2 { SrvKind::H2 } else { SrvKind::H1 };
        let auto = run_via_server(SrvKind::Auto, first.clone(), rest.clone());
        let plain = run_via_server(reference, first.clone(), rest.clone());
        // hyper's own behaviour on malformed input may depend on read boundaries: exact equality only
        // where the reference answers the same when it gets the two parts in one piece each
        let plain_whole = run_via_server(reference, if pause > 0 { vec![(bytes[..pause].to_vec(), false)] } else { vec![] }, if pause < bytes.len() { vec![(bytes[pause..].to_vec(), false)] } else { vec![] });
        let ones = |part: &[u8]| -> Vec<(Vec<u8>, bool)> { part.iter().map(|b| (vec![*b], false)).collect() };
        let plain_ones = run_via_server(reference, ones(&bytes[..pause]), ones(&bytes[pause..]));
        // (the auto-detecting server hands the sniffed bytes to hyper in one piece, whatever the pauses were)
        let plain_at_once = run_via_server(reference, if bytes.is_empty() { vec![] } else { vec![(bytes.clone(), false)] }, vec![]);
        let same = |a: &(Vec<u8>, Vec<u8>, Vec<u8>), b: &(Vec<u8>, Vec<u8>, Vec<u8>)| normalise(&a.0) == normalise(&b.0) && normalise(&a.1) == normalise(&b.1) && normalise(&a.2) == normalise(&b.2);
        let invariant = same(&plain, &plain_whole) && same(&plain, &plain_ones) && normalise(&plain.2) == normalise(&plain_at_once.2);
        let desc = format!(
            "input {} delivered as {:?}, pause, {:?}, pause, close",
            show(&bytes),
            first.iter().map(|(d, _)| d.len()).collect::<Vec<_>>(),
            rest.iter().map(|(d, _)| d.len()).collect::<Vec<_>>()
        );
        for (loc, msg) in crate::panichook::take_all() {
            if crate::panichook::in_library(&loc) {
                rep.violate("C08/server-builder/panic-in-library", format!("{desc}: panic at {loc}: {msg}"));
            }
        }
        // while all the client has sent is a strict prefix of the preface, the protocol is undecided: the
        // auto-detecting server rightly waits where an HTTP/1 server already answers
        let undecided = |n: usize| n < PREFACE.len() && bytes[..n] == PREFACE[..n];
        if invariant {
            for (what, a, p, skip) in [("at the first pause", &auto.0, &plain.0, undecided(pause)), ("at the second pause", &auto.1, &plain.1, undecided(bytes.len())), ("in the end", &auto.2, &plain.2, false)] {
                if skip {
                    rep.class("pause-while-protocol-undecided");
                    continue;
                }
                if normalise(a) != normalise(p) {
                    rep.violate(
                        "C08/server-builder/differs-from-single-protocol-server",
                        format!("{desc}: {what} the client of the with_auto_http() server had received {:?}, the client of the {} server {:?}", brief(&normalise(a)), if is_h2 { "with_http2()" } else { "with_http1()" }, brief(&normalise(p))),
                    );
                    break;
                }
            }
        } else {
            rep.class("reference-itself-fragmentation-sensitive");
        }
        rep.class("server-builder");
        if pause > 0 && pause < bytes.len() {
            rep.class("client-pauses-mid-stream");
        }
        if !plain.0.is_empty() && pause < bytes.len() {
            rep.class("answer-before-the-rest-arrives");
        }
        if is_h2 {
            rep.class("expects-h2");
        }
        rep.nontrivial = pause > 0 && pause < bytes.len() && invariant;
        rep.total_ops = (first.len() + rest.len()) as u64;
        rep
    }
}

pub fn srv_strategy() -> impl proptest::strategy::Strategy<Value = SrvSniffCase> {
    use proptest::prelude::*;
    let stream = prop_oneof![
        5 => (0u8..8, 0u8..8, prop_oneof![3 => Just(0u16), 2 => 1u16..200], prop_oneof![1 => Just(false), 2 => Just(true)], any::<bool>())
            .prop_map(|(method, target, body, pipelined, close)| StreamSpec::H1 { method, target, body, pipelined, close }),
        3 => (any::<bool>(), 0u8..4, prop_oneof![1 => Just(0u16), 2 => 1u16..300], any::<bool>())
            .prop_map(|(post, path, body, extra_settings)| StreamSpec::H2 { post, path, body, extra_settings }),
        1 => (0u8..=24, prop_oneof![Just(vec![]), Just(b" / HTTP/1.1\r\nhost: a.test\r\n\r\n".to_vec()), Just(b"X".to_vec())]).prop_map(|(n, then)| StreamSpec::Prefix { n, then }),
    ];
    let cuts = prop_oneof![2 => proptest::collection::vec(1u8..=32, 0..8), 1 => Just(vec![1u8; 32]), 1 => (1u8..=31).prop_map(|k| vec![k])];
    (stream, cuts, prop_oneof![Just(0u32), any::<u32>()], prop_oneof![Just(0u16), 1u16..64], prop_oneof![1 => Just(0u16), 1 => Just(u16::MAX), 6 => any::<u16>()])
        .prop_map(|(stream, cuts, pendings, tail, pause_at)| SrvSniffCase { stream, cuts, pendings, tail, pause_at })
}
