//! Real-time end-to-end leg for the pool's idle bookkeeping (C05, C15): the pool measures idle age
//! with `std::time::Instant`, which the paused tokio clock does not move, so expiry can only be
//! exercised end to end by letting real time pass. The client is built through `Client::builder()`
//! (`with_pool(config)`, optionally `with_timeout`), talks HTTP/1.1 over the in-memory duplex
//! transport to a real `Server` whose make-service numbers the connections and whose per-connection
//! service counts the connections still open.
//!
//! A case is a list of rounds: 1-3 concurrent requests (handlers answer at once or after 70 ms), then
//! a pause of 0 / 5 / 70 ms. Checked:
//!  * C05: a request never travels on a connection whose last use ended more than idle_timeout + 25 ms
//!    before the request was issued (one-sided: load only makes connections older);
//!  * C15: once everything is quiet the server sees at most max_idle_per_host connections open.

use crate::common::{CaseReport, Engine};
use http_body_util::BodyExt;
use serde::{Deserialize, Serialize};
use std::collections::BTreeMap;
use std::sync::atomic::{AtomicUsize, Ordering};
use std::sync::{Arc, Mutex};
use std::time::{Duration, Instant};
use tower::ServiceExt;

#[derive(Clone, Debug, Serialize, Deserialize, PartialEq)]
pub struct RtCase {
    /// None = no idle timeout, Some(0) = disabled as well, Some(30) = 30 ms
    pub idle_timeout_ms: Option<u8>,
    pub max_idle: u8,
    /// request timeout of the client (far above anything that happens here)
    pub client_timeout_ms: Option<u16>,
    pub cont: bool,
    /// settings before (1, 2) or after (0) the calls that rebuild the builder; 2 also switches the redirect policy off and on again
    pub builder_order: u8,
    /// rounds: (handler delays of the concurrent requests: false = at once, true = 70 ms; pause after the round: 0 / 5 / 70 ms)
    pub rounds: Vec<(Vec<bool>, u8)>,
    /// HTTP/2 requests to an auto-detecting server: one multiplexed connection carries them all for as
    /// long as it is used more often than every idle_timeout (C04)
    #[serde(default)]
    pub h2: bool,
    /// after the first round: wait `a` ms, send one request labelled HTTP/2, wait `b` ms, go on. Whatever
    /// connection carries that request has been used then; a connection that was merely looked at and put
    /// back has not: its idle age keeps counting from its last real use.
    #[serde(default)]
    pub probe: Option<(u8, u8)>,
}

struct OpenGuard(Arc<AtomicUsize>);
impl Drop for OpenGuard {
    fn drop(&mut self) {
        self.0.fetch_sub(1, Ordering::SeqCst);
    }
}

pub struct RtPoolEngine {
    pub prop: &'static str,
}

impl Engine for RtPoolEngine {
    type Case = RtCase;
    fn name(&self) -> &'static str {
        "rtpool"
    }
    fn real_time(&self) -> bool {
        true
    }
    fn run_case(&self, c: &RtCase) -> CaseReport {
        // real clock: the harness reads its timestamps a scheduling delay away from the moments the
        // pool reads its own, so a deviation only counts when it shows in three runs in a row
        let rep = self.run_once(c);
        if rep.violations.is_empty() {
            return rep;
        }
        let key = rep.violations[0].sig.clone();
        let rep2 = self.run_once(c);
        if !rep2.violations.iter().any(|v| v.sig == key) {
            let mut r = rep2;
            r.violations.clear();
            r.class("deviation-not-reproduced-inconclusive");
            return r;
        }
        let rep3 = self.run_once(c);
        if !rep3.violations.iter().any(|v| v.sig == key) {
            let mut r = rep3;
            r.violations.clear();
            r.class("deviation-not-reproduced-inconclusive");
            return r;
        }
        rep3
    }
}

impl RtPoolEngine {
    fn run_once(&self, c: &RtCase) -> CaseReport {
        let mut rep = CaseReport::default();
        let _ = crate::panichook::take_all();
        let rt = tokio::runtime::Builder::new_current_thread().enable_all().build().unwrap();
        let c2 = c.clone();
        type Used = Vec<(usize, usize, Instant, Instant)>; // (request, connection, issued, finished)
        let res: Result<Result<(Used, usize, usize), String>, ()> = std::panic::catch_unwind(std::panic::AssertUnwindSafe(|| {
            rt.block_on(async move {
                let (client, incoming) = hyperdriver::stream::duplex::pair();
                let open = Arc::new(AtomicUsize::new(0));
                let conns = Arc::new(AtomicUsize::new(0));
                let (open2, conns2) = (open.clone(), conns.clone());
                let make = hyperdriver::service::make_service_fn(move |_conn: &hyperdriver::server::conn::Stream| {
                    let id = conns2.fetch_add(1, Ordering::SeqCst);
                    open2.fetch_add(1, Ordering::SeqCst);
                    let guard = Arc::new(OpenGuard(open2.clone()));
                    async move {
                        Ok::<_, std::convert::Infallible>(tower::service_fn(move |req: http::Request<hyperdriver::Body>| {
                            let _g = guard.clone();
                            async move {
                                let slow = req.uri().path().ends_with("/slow");
                                let _ = req.into_body().collect().await;
                                if slow {
                                    tokio::time::sleep(Duration::from_millis(70)).await;
                                }
                                Ok::<_, std::io::Error>(http::Response::builder().header("x-conn", id).body(hyperdriver::Body::from("rt-ok")).unwrap())
                            }
                        }))
                    }
                });
                let base = hyperdriver::Server::builder::<hyperdriver::Body>().with_incoming(incoming);
                let server = if c2.h2 {
                    let server = base.with_auto_http().with_make_service(make).with_tokio();
                    tokio::spawn(async move { server.await.map_err(|e| e.to_string()) })
                } else {
                    let server = base.with_http1().with_make_service(make).with_tokio();
                    tokio::spawn(async move { server.await.map_err(|e| e.to_string()) })
                };
                let h2 = c2.h2;
                let mut cfg = hyperdriver::client::pool::Config::default();
                cfg.idle_timeout = c2.idle_timeout_ms.map(|t| Duration::from_millis(t as u64));
                cfg.max_idle_per_host = c2.max_idle as usize;
                cfg.continue_after_preemption = c2.cont;
                let timeout = c2.client_timeout_ms.map(|t| Duration::from_millis(t as u64));
                let transport = hyperdriver::client::conn::transport::duplex::DuplexTransport::new(8192, client);
                let svc = if c2.builder_order % 3 == 2 {
                    // settings first, then the calls that change the redirect policy (no redirect happens here)
                    hyperdriver::Client::builder()
                        .with_optional_timeout(timeout)
                        .with_pool(cfg)
                        .with_transport(transport)
                        .with_auto_http()
                        .without_tls()
                        .without_redirects()
                        .with_standard_redirect_policy()
                        .build_service()
                } else if c2.builder_order % 3 == 1 {
                    hyperdriver::Client::builder()
                        .with_optional_timeout(timeout)
                        .with_pool(cfg)
                        .with_body::<hyperdriver::Body, hyperdriver::Body>()
                        .with_transport(transport)
                        .with_auto_http()
                        .without_tls()
                        .without_redirects()
                        .build_service()
                } else {
                    hyperdriver::Client::builder()
                        .with_transport(transport)
                        .with_auto_http()
                        .without_tls()
                        .without_redirects()
                        .with_pool(cfg)
                        .with_optional_timeout(timeout)
                        .build_service()
                };
                let used: Arc<Mutex<Used>> = Default::default();
                let mut n = 0usize;
                for (delays, pause) in c2.rounds.iter() {
                    let mut tasks = vec![];
                    for slow in delays.iter().take(3) {
                        let id = n;
                        n += 1;
                        let svc = svc.clone();
                        let used = used.clone();
                        let slow = *slow;
                        tasks.push(tokio::spawn(async move {
                            let issued = Instant::now();
                            let req = http::Request::builder()
                                .method("GET")
                                .version(if h2 { http::Version::HTTP_2 } else { http::Version::HTTP_11 })
                                .uri(format!("http://rt.test/r/{id}{}", if slow { "/slow" } else { "" }))
                                .body(hyperdriver::Body::empty())
                                .unwrap();
                            let resp = tokio::time::timeout(Duration::from_secs(8), svc.oneshot(req)).await.map_err(|_| format!("request {id}: no response within 8 s"))?.map_err(|e| format!("request {id} failed: {e}"))?;
                            let conn = resp.headers().get("x-conn").and_then(|v| v.to_str().ok()).and_then(|v| v.parse::<usize>().ok()).ok_or(format!("request {id}: response without connection number"))?;
                            let body = resp.into_body().collect().await.map_err(|e| format!("request {id}: body: {e}"))?.to_bytes();
                            if &body[..] != b"rt-ok" {
                                return Err(format!("request {id}: body {body:?}"));
                            }
                            used.lock().unwrap().push((id, conn, issued, Instant::now()));
                            Ok::<(), String>(())
                        }));
                    }
                    for t in tasks {
                        t.await.map_err(|e| format!("client task: {e}"))??;
                    }
                    if let (Some((a, b)), true) = (c2.probe, n == delays.iter().take(3).count()) {
                        // (first round just ended)
                        tokio::time::sleep(Duration::from_millis(a as u64)).await;
                        let req = http::Request::builder().method("GET").version(http::Version::HTTP_2).uri("http://rt.test/probe").body(hyperdriver::Body::empty()).unwrap();
                        let issued = Instant::now();
                        // (the pool keys connections by origin, not by version: on the unchanged tree this request
                        // is carried by the idle HTTP/1 connection - a real use, which is recorded as one)
                        if let Ok(Ok(resp)) = tokio::time::timeout(Duration::from_millis(300), svc.clone().oneshot(req)).await {
                            let conn = resp.headers().get("x-conn").and_then(|v| v.to_str().ok()).and_then(|v| v.parse::<usize>().ok());
                            let _ = resp.into_body().collect().await;
                            if let Some(conn) = conn {
                                used.lock().unwrap().push((9_999, conn, issued, Instant::now()));
                            }
                        }
                        tokio::time::sleep(Duration::from_millis(b as u64)).await;
                        continue;
                    }
                    let ms = [0u64, 5, 70][*pause as usize % 3];
                    if ms > 0 {
                        tokio::time::sleep(Duration::from_millis(ms)).await;
                    } else {
                        tokio::task::yield_now().await;
                    }
                }
                // quiescence: hand-back tasks and connection tasks settle
                tokio::time::sleep(Duration::from_millis(40)).await;
                let open_now = open.load(Ordering::SeqCst);
                let total = conns.load(Ordering::SeqCst);
                drop(svc);
                server.abort();
                let u = used.lock().unwrap().clone();
                Ok((u, open_now, total))
            })
        }))
        .map_err(|_| ());
        drop(rt);
        for (loc, msg) in crate::panichook::take_all() {
            if crate::panichook::in_library(&loc) {
                rep.violate(format!("{}/e2e-real-time-panic-in-library", self.prop), format!("{c:?}: panic at {loc}: {msg}"));
            }
        }
        match res {
            Err(()) => {
                if rep.violations.is_empty() {
                    rep.internal_error = Some(format!("harness panic at {}: {}", crate::panichook::last_location(), crate::panichook::last_message()));
                }
            }
            Ok(Err(e)) => rep.violate(format!("{}/e2e-real-time-request-failed", self.prop), format!("{c:?}: {e}")),
            Ok(Ok((used, open_now, total))) => {
                // ---- C05: no connection older than the idle timeout
                if let Some(t) = c.idle_timeout_ms.filter(|t| *t > 0) {
                    let limit = Duration::from_millis(t as u64 + 25);
                    let mut last_end: BTreeMap<usize, Instant> = BTreeMap::new();
                    let mut by_issue = used.clone();
                    by_issue.sort_by_key(|u| u.2);
                    for (id, conn, issued, _) in &by_issue {
                        // the latest use of that connection that ended before this request was issued
                        let prev = used.iter().filter(|u| u.1 == *conn && u.0 != *id && u.3 <= *issued).map(|u| u.3).max();
                        if let Some(prev_end) = prev {
                            let idle = issued.duration_since(prev_end);
                            if idle > limit {
                                rep.violate("C05/e2e-expired-connection-handed-out", format!("{c:?}: request {id} travelled on connection {conn}, which had been idle for {idle:?} (idle_timeout {t} ms)"));
                            }
                            if idle > Duration::from_millis(t as u64) {
                                rep.class("reuse-candidate-older-than-idle-timeout");
                            }
                        }
                        last_end.insert(*conn, *issued);
                    }
                    if c.rounds.iter().any(|(_, p)| p % 3 == 2) {
                        rep.class("pause-longer-than-idle-timeout");
                    }
                }
                // ---- C04: an HTTP/2 connection that is used again and again stays the one connection of its
                // origin, however old it grows. The pool stamps it at some instant between `issued` and
                // `finished` of each request: if every request finished less than idle_timeout after the
                // previous one was issued, it was never idle for that long (one-sided: under load the gaps
                // grow and the rule stays silent).
                if c.h2 {
                    let mut by_issue = used.clone();
                    by_issue.sort_by_key(|u| u.2);
                    let frequent = match c.idle_timeout_ms.filter(|t| *t > 0) {
                        None => true,
                        Some(t) => by_issue.windows(2).all(|w| w[1].3.duration_since(w[0].2) + Duration::from_millis(30) < Duration::from_millis(t as u64)),
                    };
                    if frequent {
                        rep.class("h2-connection-used-more-often-than-the-idle-timeout");
                        let age = by_issue.last().zip(by_issue.first()).map(|(l, f)| l.2.duration_since(f.2)).unwrap_or_default();
                        if c.idle_timeout_ms.map(|t| t > 0 && age > Duration::from_millis(t as u64)).unwrap_or(false) {
                            rep.class("h2-connection-older-than-the-idle-timeout");
                        }
                        if total > 1 {
                            rep.violate("C04/e2e-h2-connection-replaced-although-in-use", format!("{c:?}: {total} connections were opened for HTTP/2 requests that followed one another within the idle timeout (first to last request {age:?}); uses: {:?}", by_issue.iter().map(|u| (u.0, u.1)).collect::<Vec<_>>()));
                        }
                    }
                }
                // ---- C15: at quiescence at most max_idle connections are kept
                if !c.h2 && open_now > c.max_idle as usize {
                    rep.violate("C15/e2e-idle-bound-exceeded-at-quiescence", format!("{c:?}: {open_now} of {total} connections are still open while nothing is in flight, max_idle_per_host = {}", c.max_idle));
                }
                if total >= 2 {
                    rep.class("two-or-more-connections-opened");
                }
                if c.rounds.iter().any(|(d, _)| d.len() >= 2 && d.iter().any(|s| *s) && d.iter().any(|s| !*s)) {
                    rep.class("slow-and-fast-request-in-one-round");
                }
            }
        }
        let prefix = format!("{}/", self.prop);
        rep.violations.retain(|v| v.sig.starts_with(&prefix));
        rep.class("real-time-pool-e2e");
        rep.nontrivial = c.rounds.len() >= 2;
        rep.total_ops = c.rounds.iter().map(|(d, _)| d.len() as u64).sum();
        rep
    }
}

pub fn strategy() -> impl proptest::strategy::Strategy<Value = RtCase> {
    use proptest::prelude::*;
    (
        prop_oneof![1 => Just(None), 1 => Just(Some(0u8)), 4 => Just(Some(30u8))],
        prop_oneof![Just(0u8), Just(1u8), Just(2u8), Just(8u8)],
        prop_oneof![1 => Just(None), 1 => Just(Some(4000u16)), 1 => Just(Some(20000u16))],
        any::<bool>(),
        0u8..3,
        proptest::collection::vec((proptest::collection::vec(prop_oneof![2 => Just(false), 1 => Just(true)], 1..=3), 0u8..3), 1..5),
    )
        .prop_map(|(idle_timeout_ms, max_idle, client_timeout_ms, cont, builder_order, rounds)| RtCase { idle_timeout_ms, max_idle, client_timeout_ms, cont, builder_order, rounds, h2: false, probe: None })
}

/// HTTP/2 rounds under an idle timeout of 250 ms (or none): gaps of at most ~145 ms between uses, up to
/// five rounds - the connection grows older than the timeout while it is never idle for that long.
pub fn h2_strategy() -> impl proptest::strategy::Strategy<Value = RtCase> {
    use proptest::prelude::*;
    (
        prop_oneof![1 => Just(None), 5 => Just(Some(250u8))],
        prop_oneof![Just(1u8), Just(2u8), Just(8u8)],
        any::<bool>(),
        0u8..3,
        proptest::collection::vec((proptest::collection::vec(prop_oneof![1 => Just(false), 1 => Just(true)], 1..=3), prop_oneof![1 => Just(1u8), 3 => Just(2u8)]), 3..6),
    )
        .prop_map(|(idle_timeout_ms, max_idle, cont, builder_order, rounds)| RtCase { idle_timeout_ms, max_idle, client_timeout_ms: None, cont, builder_order, rounds, h2: true, probe: None })
}

/// One HTTP/1 request, then - still within the idle timeout of 60 ms - a request labelled HTTP/2, then,
/// beyond the timeout of the first request's end, further HTTP/1 requests: they may travel on the first
/// connection only if the HTTP/2-labelled request really did (C05).
pub fn probe_strategy() -> impl proptest::strategy::Strategy<Value = RtCase> {
    use proptest::prelude::*;
    (prop_oneof![Just(1u8), Just(2u8), Just(8u8)], any::<bool>(), 0u8..3, 48u8..53, 48u8..53, proptest::collection::vec((proptest::collection::vec(Just(false), 1..=2), 0u8..2), 1..3)).prop_map(|(max_idle, cont, builder_order, a, b, mut rest)| {
        let mut rounds = vec![(vec![false], 0u8)];
        rounds.append(&mut rest);
        RtCase { idle_timeout_ms: Some(60), max_idle, client_timeout_ms: None, cont, builder_order, rounds, h2: false, probe: Some((a, b)) }
    })
}
