//! E10 `sni` (C20): the public `ValidateSNI` layer around a recording inner service, compared with an
//! independent reference predicate written from the property statement.
#![allow(dead_code)]

use std::sync::{Arc, Mutex};

use hyperdriver::info::TlsConnectionInfo;
use hyperdriver::server::conn::tls::sni::{SNIMiddlewareError, ValidateSNI};
use serde::{Deserialize, Serialize};
use tower::{Layer, Service, ServiceExt};

use crate::common::{CaseReport, Engine};

pub const VERSIONS: [http::Version; 5] = [
    http::Version::HTTP_09,
    http::Version::HTTP_10,
    http::Version::HTTP_11,
    http::Version::HTTP_2,
    http::Version::HTTP_3,
];

#[derive(Clone, Debug, Serialize, Deserialize, PartialEq)]
pub struct SniCase {
    pub version: u8,
    /// Host header value
    pub host_header: Option<String>,
    /// URI authority (absolute-form / :authority)
    pub authority: Option<String>,
    /// server name the client sent in the handshake
    pub sni: Option<String>,
    pub tls: bool,
}

/// host without the port: `[v6]:p` → `[v6]`, `name:p` → `name`
pub fn host_part(h: &str) -> &str {
    if h.starts_with('[') {
        match h.find(']') {
            Some(i) => &h[..=i],
            None => h,
        }
    } else {
        match h.rfind(':') {
            Some(i) => &h[..i],
            None => h,
        }
    }
}

#[derive(Debug, PartialEq, Clone, Copy)]
pub enum Expect {
    Forward,
    Reject,
    Unconstrained,
}

/// Reference predicate from the statement.
pub fn expect(c: &SniCase) -> Expect {
    if !c.tls {
        return Expect::Unconstrained;
    }
    let v = VERSIONS[c.version as usize % VERSIONS.len()];
    let named: Option<&str> = if v == http::Version::HTTP_2 {
        c.authority.as_deref().or(c.host_header.as_deref())
    } else {
        c.host_header.as_deref()
    };
    let Some(named) = named else { return Expect::Unconstrained };
    match &c.sni {
        None => Expect::Reject,
        Some(name) => {
            if host_part(named).eq_ignore_ascii_case(name) {
                Expect::Forward
            } else {
                Expect::Reject
            }
        }
    }
}

pub struct SniEngine;

impl Engine for SniEngine {
    type Case = SniCase;
    fn name(&self) -> &'static str {
        "sni"
    }
    fn run_case(&self, c: &SniCase) -> CaseReport {
        let mut rep = CaseReport::default();
        let v = VERSIONS[c.version as usize % VERSIONS.len()];
        let uri = match &c.authority {
            Some(a) => format!("https://{a}/p?q=1"),
            None => "/p?q=1".to_string(),
        };
        let mut b = http::Request::builder().version(v).uri(&uri);
        if let Some(h) = &c.host_header {
            b = b.header(http::header::HOST, h.as_str());
        }
        let mut req = match b.body(()) {
            Ok(r) => r,
            Err(e) => {
                rep.internal_error = Some(format!("generator produced an invalid request: {e} ({c:?})"));
                return rep;
            }
        };
        if c.tls {
            req.extensions_mut().insert(TlsConnectionInfo {
                server_name: c.sni.clone(),
                validated_server_name: false,
                alpn: None,
            });
        }
        let seen: Arc<Mutex<Option<Option<bool>>>> = Arc::new(Mutex::new(None));
        let seen2 = seen.clone();
        let inner = tower::service_fn(move |req: http::Request<()>| {
            let flag = req.extensions().get::<TlsConnectionInfo>().map(|t| t.validated_server_name);
            *seen2.lock().unwrap() = Some(flag);
            async move { Ok::<_, std::convert::Infallible>(http::Response::new(())) }
        });
        let shared = ValidateSNI.layer(inner);
        // The middleware is cloned per connection (make-service). Requests of *other* connections - with
        // another server name, with none, or without TLS - go through clones of the same instance
        // first; they must not influence how this request is judged.
        if c.version % 2 == 0 {
            for (i, other) in [Some("warmup.example"), None].into_iter().enumerate() {
                let mut w = http::Request::builder().version(http::Version::HTTP_11).uri("/w").header(http::header::HOST, "warmup.example").body(()).unwrap();
                if i == 0 || c.tls {
                    w.extensions_mut().insert(TlsConnectionInfo { server_name: other.map(String::from), validated_server_name: false, alpn: None });
                }
                let mut clone = shared.clone();
                let _ = futures_util::FutureExt::now_or_never(async { clone.ready().await.unwrap().call(w).await });
            }
            *seen.lock().unwrap() = None;
            rep.class("other-connections-first");
        }
        let mut svc = shared.clone();
        let result = futures_util::FutureExt::now_or_never(async { svc.ready().await.unwrap().call(req).await });
        let Some(result) = result else {
            rep.internal_error = Some("middleware future did not complete immediately".into());
            return rep;
        };
        let forwarded = seen.lock().unwrap().clone();
        let want = expect(c);
        let desc = format!("{c:?} (version {v:?}, uri {uri})");
        match (&result, forwarded, want) {
            (Ok(_), Some(flag), Expect::Forward) => {
                if flag != Some(true) {
                    rep.violate("C20/forwarded-but-not-marked-validated", format!("{desc}: forwarded with validated flag {flag:?}"));
                }
            }
            (Ok(_), Some(flag), Expect::Reject) => {
                let sig = if c.sni.is_none() { "C20/forwarded-without-server-name" } else { "C20/forwarded-despite-mismatch" };
                rep.violate(sig, format!("{desc}: forwarded to the application (validated flag {flag:?}) although the named host differs from the server name"));
            }
            (Err(SNIMiddlewareError::SNI(e)), None, Expect::Forward) => {
                rep.violate("C20/rejected-although-host-equals-server-name", format!("{desc}: rejected with {e}"));
            }
            (Err(SNIMiddlewareError::SNI(_)), None, Expect::Reject) => {}
            (_, _, Expect::Unconstrained) => {}
            (r, f, w) => {
                rep.internal_error = Some(format!("inconsistent observation {:?} forwarded={f:?} expected={w:?} for {desc}", r.as_ref().map(|_| ()).map_err(|e| e.to_string())));
            }
        }
        match want {
            Expect::Forward => rep.class("expect-forward"),
            Expect::Reject => rep.class("expect-reject"),
            Expect::Unconstrained => rep.class("unconstrained"),
        }
        if v == http::Version::HTTP_2 && c.authority.is_none() && c.host_header.is_some() {
            rep.class("h2-host-fallback");
        }
        if let (Some(h), Some(s)) = (c.host_header.as_ref().or(c.authority.as_ref()), &c.sni) {
            if host_part(h) != s && host_part(h).eq_ignore_ascii_case(s) {
                rep.class("case-differs");
            }
        }
        rep.nontrivial = want != Expect::Unconstrained;
        rep.total_ops = 1;
        rep
    }
}

const NAMES: &[&str] = &["example.com", "a.test", "sub.example.com", "xn--bcher-kva.example", "localhost", "example.org", "a-b.c-d.test", "127.0.0.1", "10.1.2.3", "[::1]", "[2001:db8::7]"];

fn recase(s: &str, mask: u32) -> String {
    s.chars()
        .enumerate()
        .map(|(i, ch)| if mask >> (i % 32) & 1 == 1 { ch.to_ascii_uppercase() } else { ch })
        .collect()
}

pub fn strategy() -> impl proptest::strategy::Strategy<Value = SniCase> {
    use proptest::prelude::*;
    // host value: name (re-cased) with optional port
    let hostval = |names: &'static [&'static str]| {
        // a name from the table, or a generated DNS-style name of 1-4 labels
        let name = prop_oneof![
            3 => (0..names.len()).prop_map(move |i| names[i].to_string()),
            2 => "[a-z0-9]([a-z0-9-]{0,10}[a-z0-9])?(\\.[a-z0-9]([a-z0-9-]{0,8}[a-z0-9])?){0,3}",
        ];
        (name, prop_oneof![2 => Just(0u32), 1 => any::<u32>()], prop_oneof![2 => Just(None), 1 => Just(Some(443u16)), 1 => Just(Some(8443u16)), 1 => any::<u16>().prop_map(Some)])
            .prop_map(move |(name, mask, port)| {
                let n = recase(&name, mask);
                match port {
                    Some(p) => format!("{n}:{p}"),
                    None => n,
                }
            })
    };
    (
        0u8..5,
        prop_oneof![1 => Just(None), 4 => hostval(NAMES).prop_map(Some)],
        prop_oneof![2 => Just(None), 2 => hostval(NAMES).prop_map(Some)],
        // relation of the server name to the named host is decided below (6..10: near misses)
        prop_oneof![6 => 0u8..6, 3 => 6u8..10],
        (0..NAMES.len(), any::<u32>()),
        prop_oneof![9 => Just(true), 1 => Just(false)],
    )
        .prop_map(|(version, host_header, authority, rel, (other, mask), tls)| {
            let v = VERSIONS[version as usize];
            let named = if v == http::Version::HTTP_2 { authority.clone().or(host_header.clone()) } else { host_header.clone() };
            let sni = match (rel, &named) {
                (0, _) => None,
                (1 | 2, Some(n)) => Some(host_part(n).to_string()),
                (3, Some(n)) => Some(host_part(n).to_ascii_lowercase()),
                (4, Some(n)) => Some(recase(host_part(n), mask)),
                // near misses: one more / one fewer character at either end, one character replaced
                (6, Some(n)) => Some(format!("{}x", host_part(n).to_ascii_lowercase())),
                (7, Some(n)) => Some(format!("x{}", host_part(n).to_ascii_lowercase())),
                (8, Some(n)) => {
                    let h = host_part(n).to_ascii_lowercase();
                    Some(h[..h.len().saturating_sub(1)].to_string()).filter(|s| !s.is_empty())
                }
                (9, Some(n)) => {
                    let h = host_part(n).to_ascii_lowercase();
                    let k = (mask as usize) % h.len().max(1);
                    Some(h.chars().enumerate().map(|(i, c)| if i == k { if c == 'q' { 'z' } else { 'q' } } else { c }).collect())
                }
                _ => Some(NAMES[other].to_string()),
            };
            // server names are DNS names or bare literals as a TLS stack would report them; a
            // bracketed IPv6 literal is never a server name
            let sni = sni.filter(|s| !s.starts_with('['));
            SniCase { version, host_header, authority, sni, tls }
        })
}
