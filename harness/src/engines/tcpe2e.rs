//! Engine tcpe2e: the high-level `Client` as a user gets it from `Client::build_tcp_http()` (default
//! builder: real TCP transport with the system resolver and happy eyeballs, default pool, redirect
//! policy, timeout, user agent) against a real `Server` on a loopback TCP listener. Real sockets,
//! real clock; only outcomes that cannot be caused by a slow machine are violations.
use std::sync::{Arc, Mutex};
use std::time::Duration;

use bytes::Bytes;
use http_body_util::BodyExt;
use serde::{Deserialize, Serialize};

use crate::common::{CaseReport, Engine};

#[derive(Clone, Debug, Serialize, Deserialize, PartialEq)]
pub struct TcpReq {
    pub h2: bool,
    pub method: u8,
    pub body_len: u16,
    pub resp_len: u16,
    /// issued together with the previous request (joined) instead of after it
    pub concurrent: bool,
}

#[derive(Clone, Debug, Serialize, Deserialize, PartialEq)]
pub struct TcpE2eCase {
    /// 0 http1 server, 1 auto server
    pub proto: u8,
    /// host in the URI: 0 = 127.0.0.1, 1 = localhost (resolved by the system resolver; the IPv6
    /// answer is refused, happy eyeballs falls through to IPv4)
    pub host: u8,
    pub reqs: Vec<TcpReq>,
    /// 0 Client::build_tcp_http().build() as is; 1 via request(); 2 tower Service call on a clone
    pub api: u8,
}

const METHODS: &[&str] = &["GET", "POST", "PUT", "DELETE"];

fn body_of(id: usize, n: usize) -> Vec<u8> {
    (0..n).map(|i| ((id * 13 + i * 7 + 1) % 251) as u8).collect()
}
fn resp_of(id: usize, n: usize) -> Vec<u8> {
    (0..n).map(|i| ((id * 29 + i * 3 + 5) % 241) as u8).collect()
}

pub struct TcpE2eEngine;

impl Engine for TcpE2eEngine {
    type Case = TcpE2eCase;
    fn name(&self) -> &'static str {
        "tcpe2e"
    }
    fn real_time(&self) -> bool {
        true
    }
    fn run_case(&self, c: &TcpE2eCase) -> CaseReport {
        // real sockets, real clock: a request without an answer after 10 s may be the machine; the case
        // is repeated and three such runs in a row are the library's doing
        let rep = self.run_once(c);
        if !rep.classes.contains(&"slow-inconclusive") {
            return rep;
        }
        let rep2 = self.run_once(c);
        if !rep2.classes.contains(&"slow-inconclusive") {
            return rep2;
        }
        let mut rep3 = self.run_once(c);
        if rep3.classes.contains(&"slow-inconclusive") {
            rep3.violate("C01/tcp-request-never-completes-repeatedly", format!("{c:?}: in three runs in a row a request got neither a response nor an error within 10 s"));
        }
        rep3
    }
}

impl TcpE2eEngine {
    fn run_once(&self, c: &TcpE2eCase) -> CaseReport {
        let mut rep = CaseReport::default();
        let _ = crate::panichook::take_all();
        let rt = tokio::runtime::Builder::new_current_thread().enable_all().build().unwrap();
        let c2 = c.clone();
        let mismatches: Arc<Mutex<Vec<String>>> = Default::default();
        let mm = mismatches.clone();
        let out: Result<Vec<(usize, Result<String, String>)>, String> = rt.block_on(async move {
            let specs = Arc::new(c2.reqs.clone());
            let specs2 = specs.clone();
            let handler = tower::service_fn(move |req: http::Request<hyperdriver::Body>| {
                let specs = specs2.clone();
                let mm = mm.clone();
                async move {
                    let (parts, body) = req.into_parts();
                    let id: usize = parts.headers.get("x-id").and_then(|v| v.to_str().ok()).and_then(|v| v.parse().ok()).unwrap_or(usize::MAX);
                    let b = body.collect().await.map(|c| c.to_bytes()).unwrap_or_default();
                    let Some(spec) = specs.get(id) else {
                        return Ok::<_, std::io::Error>(http::Response::builder().status(404).body(hyperdriver::Body::empty()).unwrap());
                    };
                    let mut problems = vec![];
                    if parts.method.as_str() != METHODS[spec.method as usize % METHODS.len()] {
                        problems.push(format!("method {}", parts.method));
                    }
                    if parts.uri.path() != format!("/r/{id}") || parts.uri.query() != Some(&format!("k={id}&z=%2F")) {
                        problems.push(format!("target {}", parts.uri));
                    }
                    if b[..] != body_of(id, spec.body_len as usize)[..] {
                        problems.push(format!("body of {} bytes differs", b.len()));
                    }
                    if parts.headers.get("x-keep").map(|v| v.as_bytes()) != Some(format!("v{id}").as_bytes()) {
                        problems.push("x-keep header".into());
                    }
                    if !problems.is_empty() {
                        mm.lock().unwrap().push(format!("request {id} arrived altered: {}", problems.join("; ")));
                    }
                    Ok(http::Response::builder()
                        .status(200)
                        .header("x-id", id)
                        .header("x-version", format!("{:?}", parts.version))
                        .body(hyperdriver::Body::from(resp_of(id, spec.resp_len as usize)))
                        .unwrap())
                }
            });
            let l = tokio::net::TcpListener::bind("127.0.0.1:0").await.map_err(|e| e.to_string())?;
            let port = l.local_addr().map_err(|e| e.to_string())?.port();
            let b = hyperdriver::Server::builder::<hyperdriver::Body>().with_incoming(l);
            let server = if c2.proto % 2 == 0 {
                tokio::spawn(async move { b.with_http1().with_shared_service(handler).with_tokio().await.map_err(|e| e.to_string()) })
            } else {
                tokio::spawn(async move { b.with_auto_http().with_shared_service(handler).with_tokio().await.map_err(|e| e.to_string()) })
            };
            let host = if c2.host % 2 == 0 { "127.0.0.1" } else { "localhost" };
            let client = hyperdriver::Client::build_tcp_http().build();
            let proto = c2.proto;
            let api = c2.api;
            let any_h2 = proto % 2 == 1 && specs.iter().any(|r| r.h2);
            let any_h1 = proto % 2 == 0 || specs.iter().any(|r| !r.h2);
            let one = |id: usize, spec: TcpReq, mut client: hyperdriver::Client| async move {
                let h2 = spec.h2 && proto % 2 == 1;
                let req = http::Request::builder()
                    .method(METHODS[spec.method as usize % METHODS.len()])
                    .version(if h2 { http::Version::HTTP_2 } else { http::Version::HTTP_11 })
                    .uri(format!("http://{host}:{port}/r/{id}?k={id}&z=%2F"))
                    .header("x-id", id)
                    .header("x-keep", format!("v{id}"))
                    .body(hyperdriver::Body::from(body_of(id, spec.body_len as usize)))
                    .unwrap();
                let fut = async {
                    let resp = match api % 3 {
                        2 => {
                            use tower::ServiceExt;
                            client.clone().oneshot(req).await.map_err(|e| format!("{e}"))?
                        }
                        _ => client.request(req).await.map_err(|e| format!("{e}"))?,
                    };
                    let status = resp.status().as_u16();
                    let idh = resp.headers().get("x-id").and_then(|v| v.to_str().ok()).map(String::from);
                    let ver = resp.headers().get("x-version").and_then(|v| v.to_str().ok()).map(String::from).unwrap_or_default();
                    let b: Bytes = resp.into_body().collect().await.map_err(|e| format!("body: {e}"))?.to_bytes();
                    if status != 200 || idh.as_deref() != Some(id.to_string().as_str()) {
                        return Err(format!("status {status}, x-id {idh:?}"));
                    }
                    if b[..] != resp_of(id, spec.resp_len as usize)[..] {
                        return Err(format!("response body of {} bytes differs", b.len()));
                    }
                    // an HTTP/1.1 request may travel on the origin's pooled HTTP/2 connection when the case
                    // contains HTTP/2 requests; an HTTP/2 request is never served as HTTP/1.1
                    // (and the other way round: the pool keys connections by origin, not by version); only
                    // a case whose requests all ask for the same version pins the version served
                    let want = if h2 { "HTTP/2.0" } else { "HTTP/1.1" };
                    if ver != want && (if h2 { !any_h1 } else { !any_h2 }) {
                        return Err(format!("served as {ver}, requested {want}"));
                    }
                    Ok(ver)
                };
                match tokio::time::timeout(Duration::from_secs(10), fut).await {
                    Ok(r) => (id, r),
                    Err(_) => (id, Err("TIMEOUT-10s".to_string())),
                }
            };
            let mut results = vec![];
            let mut i = 0;
            while i < specs.len() {
                // a group: this request and the following ones flagged `concurrent`
                let mut j = i + 1;
                while j < specs.len() && specs[j].concurrent {
                    j += 1;
                }
                let futs: Vec<_> = (i..j).map(|k| one(k, specs[k].clone(), client.clone())).collect();
                results.extend(futures_util::future::join_all(futs).await);
                i = j;
            }
            let ended = server.is_finished();
            server.abort();
            if ended {
                return Err("the server task ended".into());
            }
            Ok(results)
        });
        drop(rt);
        for (loc, msg) in crate::panichook::take_all() {
            if crate::panichook::in_library(&loc) {
                rep.violate("C01/tcp-client-panic-in-library", format!("panic at {loc}: {msg}"));
            }
        }
        match out {
            Err(e) => rep.internal_error = Some(format!("tcpe2e setup: {e}")),
            Ok(results) => {
                for m in mismatches.lock().unwrap().iter() {
                    rep.violate("C01/tcp-request-altered-on-the-way", m.clone());
                }
                for (id, r) in &results {
                    match r {
                        Ok(_) => {}
                        Err(e) if e == "TIMEOUT-10s" => rep.class("slow-inconclusive"),
                        Err(e) => rep.violate("C01/tcp-request-failed-or-altered", format!("request {id} of {c:?}: {e}")),
                    }
                }
                rep.class(if c.host % 2 == 0 { "ip-literal-host" } else { "resolved-host" });
                if c.reqs.iter().any(|r| r.concurrent) {
                    rep.class("concurrent-group");
                }
                if c.reqs.iter().any(|r| r.h2) && c.proto % 2 == 1 {
                    rep.class("h2-over-tcp");
                }
                rep.nontrivial = results.len() >= 2 && results.iter().all(|(_, r)| r.is_ok());
            }
        }
        rep.total_ops = c.reqs.len() as u64;
        rep
    }
}

pub fn strategy() -> impl proptest::strategy::Strategy<Value = TcpE2eCase> {
    use proptest::prelude::*;
    let req = (any::<bool>(), 0u8..4, prop_oneof![Just(0u16), 1u16..300, 300u16..40000], prop_oneof![Just(0u16), 1u16..300, 300u16..40000], any::<bool>())
        .prop_map(|(h2, method, body_len, resp_len, concurrent)| TcpReq { h2, method, body_len, resp_len, concurrent });
    (0u8..2, prop_oneof![2 => Just(0u8), 1 => Just(1u8)], proptest::collection::vec(req, 1..7), 0u8..3).prop_map(|(proto, host, reqs, api)| TcpE2eCase { proto, host, reqs, api })
}
