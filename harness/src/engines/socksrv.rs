//! Real-socket leg of C09: `Server` on a TCP or Unix listener, per-connection faults injected with real
//! sockets (reset before accept, close before accept, garbage, truncated head/body), then a fresh
//! well-behaved client must still be served and the serving future must still be pending.
#![allow(dead_code)]

use std::sync::atomic::{AtomicUsize, Ordering};
use std::sync::{Arc, Mutex};
use std::io::Write;
use std::time::Duration;

use bytes::Bytes;
use http_body_util::Full;
use serde::{Deserialize, Serialize};
use tokio::io::{AsyncReadExt, AsyncWriteExt};

use crate::common::{CaseReport, Engine};

#[derive(Clone, Debug, Serialize, Deserialize, PartialEq)]
pub struct SockCase {
    /// 0 TCP, 1 Unix
    pub kind: u8,
    /// 0 h1, 1 auto
    pub proto: u8,
    /// (fault kind, argument): 0 reset before accept, 1 close before accept, 2 garbage then reset,
    /// 3 truncated head, 4 idle then close, 5 truncated body
    pub faults: Vec<(u8, u16)>,
}

async fn handler(_req: http::Request<hyperdriver::Body>) -> Result<http::Response<Full<Bytes>>, std::convert::Infallible> {
    Ok(http::Response::new(Full::new(Bytes::from_static(b"ok"))))
}

enum Target {
    Tcp(std::net::SocketAddr),
    Unix(std::path::PathBuf),
}

async fn good_request(t: &Target) -> Result<bool, String> {
    let req = b"GET /probe HTTP/1.1\r\nhost: probe\r\nconnection: close\r\n\r\n";
    let mut buf = vec![0u8; 256];
    let n = match t {
        Target::Tcp(a) => {
            let mut s = tokio::net::TcpStream::connect(a).await.map_err(|e| format!("connect: {e}"))?;
            s.write_all(req).await.map_err(|e| format!("write: {e}"))?;
            s.read(&mut buf).await.map_err(|e| format!("read: {e}"))?
        }
        Target::Unix(p) => {
            let mut s = tokio::net::UnixStream::connect(p).await.map_err(|e| format!("connect: {e}"))?;
            s.write_all(req).await.map_err(|e| format!("write: {e}"))?;
            s.read(&mut buf).await.map_err(|e| format!("read: {e}"))?
        }
    };
    Ok(buf[..n].starts_with(b"HTTP/1.1 200"))
}

/// Faults are injected synchronously (blocking std sockets, no await) so that the accept loop cannot
/// run between connect and the fault.
fn inject(t: &Target, kind: u8, arg: u16) -> String {
    let garbage: Vec<u8> = (0..(arg % 300 + 1)).map(|i| (i as u8).wrapping_mul(73).wrapping_add(0x81)).collect();
    match t {
        Target::Tcp(a) => {
            let Ok(s) = std::net::TcpStream::connect(a) else { return "connect failed".into() };
            let sock = socket2::Socket::from(s);
            match kind % 6 {
                0 => {
                    let _ = sock.set_linger(Some(Duration::ZERO));
                    drop(sock);
                    "tcp reset before accept".into()
                }
                1 => {
                    drop(sock);
                    "tcp close before accept".into()
                }
                2 => {
                    let mut s: std::net::TcpStream = sock.into();
                    let _ = s.write_all(&garbage);
                    let sock = socket2::Socket::from(s);
                    let _ = sock.set_linger(Some(Duration::ZERO));
                    drop(sock);
                    "tcp garbage then reset".into()
                }
                3 => {
                    let mut s: std::net::TcpStream = sock.into();
                    let _ = s.write_all(b"GET /x HTTP/1.1\r\nho");
                    drop(s);
                    "tcp truncated head".into()
                }
                4 => {
                    let s: std::net::TcpStream = sock.into();
                    std::thread::sleep(Duration::from_millis(2));
                    drop(s);
                    "tcp idle then close".into()
                }
                _ => {
                    let mut s: std::net::TcpStream = sock.into();
                    let _ = s.write_all(b"POST /x HTTP/1.1\r\nhost: x\r\ncontent-length: 50\r\n\r\nabc");
                    let sock = socket2::Socket::from(s);
                    let _ = sock.set_linger(Some(Duration::ZERO));
                    drop(sock);
                    "tcp truncated body then reset".into()
                }
            }
        }
        Target::Unix(p) if kind % 6 == 1 => {
            // a client whose own socket is bound to a pathname - every other time one that is not
            // valid UTF-8 - before it connects, sends a complete request and goes away
            use std::os::unix::ffi::OsStrExt;
            let odd = arg % 2 == 0;
            let mut name: Vec<u8> = format!("client-{arg}-").into_bytes();
            if odd {
                name.extend_from_slice(&[0xff, 0xfe]);
            }
            name.extend_from_slice(b".sock");
            let cpath = p.parent().unwrap_or(std::path::Path::new("/tmp")).join(std::ffi::OsStr::from_bytes(&name));
            let _ = std::fs::remove_file(&cpath);
            let r = (|| -> std::io::Result<()> {
                let sock = socket2::Socket::new(socket2::Domain::UNIX, socket2::Type::STREAM, None)?;
                sock.bind(&socket2::SockAddr::unix(&cpath)?)?;
                sock.connect(&socket2::SockAddr::unix(p)?)?;
                let mut s: std::os::unix::net::UnixStream = sock.into();
                s.write_all(b"GET /named HTTP/1.1\r\nhost: x\r\nconnection: close\r\n\r\n")?;
                Ok(())
            })();
            let _ = std::fs::remove_file(&cpath);
            format!("unix client bound to a {} pathname ({})", if odd { "non-UTF-8" } else { "plain" }, if r.is_ok() { "connected" } else { "failed" })
        }
        Target::Unix(p) => {
            let Ok(mut s) = std::os::unix::net::UnixStream::connect(p) else { return "connect failed".into() };
            match kind % 6 {
                0 | 1 => {
                    drop(s);
                    "unix close before accept".into()
                }
                2 => {
                    let _ = s.write_all(&garbage);
                    drop(s);
                    "unix garbage".into()
                }
                3 => {
                    let _ = s.write_all(b"GET /x HTTP/1.1\r\nho");
                    drop(s);
                    "unix truncated head".into()
                }
                4 => {
                    std::thread::sleep(Duration::from_millis(2));
                    drop(s);
                    "unix idle then close".into()
                }
                _ => {
                    let _ = s.write_all(b"POST /x HTTP/1.1\r\nhost: x\r\ncontent-length: 50\r\n\r\nabc");
                    drop(s);
                    "unix truncated body".into()
                }
            }
        }
    }
}

pub struct SockEngine;

impl Engine for SockEngine {
    type Case = SockCase;
    fn name(&self) -> &'static str {
        "socksrv"
    }
    fn real_time(&self) -> bool {
        true
    }
    fn run_case(&self, c: &SockCase) -> CaseReport {
        // real sockets, real clock: one probe that gets no answer within 2 s may be the machine; the
        // case is repeated, and a probe left unanswered three times in a row is the server's doing
        let (rep, timed_out) = self.run_once(c);
        if !timed_out {
            return rep;
        }
        let (rep2, t2) = self.run_once(c);
        if !t2 {
            return rep2;
        }
        let (mut rep3, t3) = self.run_once(c);
        if t3 {
            rep3.violate("C09/probe-unanswered-repeatedly", format!("{c:?}: in three runs in a row a fresh well-behaved client got no answer within 2 s after the faults"));
        }
        rep3
    }
}

impl SockEngine {
    fn run_once(&self, c: &SockCase) -> (CaseReport, bool) {
        let mut timed_out = false;
        let mut rep = CaseReport::default();
        let _ = crate::panichook::take_all();
        let rt = tokio::runtime::Builder::new_current_thread().enable_all().build().unwrap();
        let dir = tempfile::tempdir().ok();
        let c2 = c.clone();
        let out: Result<(Vec<String>, bool, Vec<Result<bool, String>>, Option<String>), String> = rt.block_on(async move {
            let svc = tower::service_fn(handler);
            let (target, server) = if c2.kind % 2 == 0 {
                let l = tokio::net::TcpListener::bind("127.0.0.1:0").await.map_err(|e| e.to_string())?;
                let addr = l.local_addr().map_err(|e| e.to_string())?;
                let b = hyperdriver::Server::builder::<hyperdriver::Body>().with_incoming(l);
                let h = if c2.proto % 2 == 0 {
                    tokio::spawn(async move { b.with_http1().with_shared_service(svc).with_tokio().await.map_err(|e| e.to_string()) })
                } else {
                    tokio::spawn(async move { b.with_auto_http().with_shared_service(svc).with_tokio().await.map_err(|e| e.to_string()) })
                };
                (Target::Tcp(addr), h)
            } else {
                let path = dir.as_ref().ok_or("no tempdir")?.path().join("s.sock");
                let l = tokio::net::UnixListener::bind(&path).map_err(|e| e.to_string())?;
                let b = hyperdriver::Server::builder::<hyperdriver::Body>().with_incoming(l);
                let h = if c2.proto % 2 == 0 {
                    tokio::spawn(async move { b.with_http1().with_shared_service(svc).with_tokio().await.map_err(|e| e.to_string()) })
                } else {
                    tokio::spawn(async move { b.with_auto_http().with_shared_service(svc).with_tokio().await.map_err(|e| e.to_string()) })
                };
                (Target::Unix(path), h)
            };
            // one well-behaved exchange first
            let _ = tokio::time::timeout(Duration::from_secs(2), good_request(&target)).await;
            let mut log = vec![];
            for (k, a) in &c2.faults {
                log.push(inject(&target, *k, *a));
                tokio::time::sleep(Duration::from_millis(3)).await;
            }
            tokio::time::sleep(Duration::from_millis(20)).await;
            let finished = server.is_finished();
            let mut probes = vec![];
            for _ in 0..2 {
                probes.push(match tokio::time::timeout(Duration::from_secs(2), good_request(&target)).await {
                    Ok(r) => r,
                    Err(_) => Err("probe timed out (2 s)".into()),
                });
            }
            let end = if server.is_finished() {
                match server.await {
                    Ok(r) => Some(format!("{r:?}")),
                    Err(e) => Some(format!("task ended: {e}")),
                }
            } else {
                server.abort();
                None
            };
            Ok((log, finished, probes, end))
        });
        drop(rt);
        let panics: Vec<(String, String)> = crate::panichook::take_all().into_iter().filter(|(l, _)| crate::panichook::in_library(l)).collect();
        match out {
            Err(e) => rep.internal_error = Some(format!("socket setup: {e}")),
            Ok((log, finished, probes, end)) => {
                let desc = format!("{} acceptor, {} server, faults {log:?}", if c.kind % 2 == 0 { "TCP" } else { "Unix" }, if c.proto % 2 == 0 { "http1" } else { "auto" });
                if let Some((loc, msg)) = panics.first() {
                    rep.violate("C09/panic-in-server-task", format!("{desc}: panic at {loc}: {msg}"));
                }
                if finished || end.is_some() {
                    rep.violate("C09/server-stopped-after-connection-fault", format!("{desc}: the serving future ended: {end:?}"));
                }
                for p in &probes {
                    match p {
                        Ok(true) => {}
                        other => {
                            // a probe time-out alone is inconclusive (real time); a refused or failed
                            // probe together with a dead server is already reported above
                            if !matches!(other, Err(e) if e.contains("timed out")) {
                                rep.violate("C09/probe-not-served", format!("{desc}: fresh client got {other:?}"));
                            } else {
                                rep.class("probe-timeout-inconclusive");
                                timed_out = true;
                            }
                        }
                    }
                }
                rep.class(if c.kind % 2 == 0 { "tcp-acceptor" } else { "unix-acceptor" });
                if c.faults.iter().any(|(k, _)| k % 6 == 0) && c.kind % 2 == 0 {
                    rep.class("tcp-reset-before-accept");
                }
                rep.nontrivial = !c.faults.is_empty() && probes.iter().all(|p| matches!(p, Ok(true)));
            }
        }
        rep.total_ops = c.faults.len() as u64;
        (rep, timed_out)
    }
}

pub fn strategy() -> impl proptest::strategy::Strategy<Value = SockCase> {
    use proptest::prelude::*;
    (0u8..2, 0u8..2, proptest::collection::vec((0u8..6, any::<u16>()), 1..6)).prop_map(|(kind, proto, faults)| SockCase { kind, proto, faults })
}

// ------------------------------------------------------------------------------------------------
// accept loops written against the duplex listener's `Stream` interface (`incoming.next().await`)

#[derive(Clone, Debug, Serialize, Deserialize, PartialEq)]
pub struct DupStreamCase {
    /// 0 good client (connect, one byte echoed), 1 connect polled once and dropped, 2 connect then drop
    /// the stream at once, 3 connect with a 0-byte pipe and go away, 4 / 5 connect with a pipe size of
    /// usize::MAX / 2^63 + 1 and go away
    pub ops: Vec<u8>,
}

pub struct DupStreamEngine;

impl Engine for DupStreamEngine {
    type Case = DupStreamCase;
    fn name(&self) -> &'static str {
        "dupstream"
    }
    fn run_case(&self, c: &DupStreamCase) -> CaseReport {
        use futures_util::StreamExt;
        use tokio::io::{AsyncReadExt, AsyncWriteExt};
        let mut rep = CaseReport::default();
        let rt = tokio::runtime::Builder::new_current_thread().enable_time().start_paused(true).build().unwrap();
        let ops = c.ops.clone();
        let res: Result<Option<String>, ()> = std::panic::catch_unwind(std::panic::AssertUnwindSafe(|| {
            rt.block_on(async move {
                let (client, mut incoming) = hyperdriver::stream::duplex::pair();
                let ended = Arc::new(std::sync::atomic::AtomicBool::new(false));
                let ended2 = ended.clone();
                // the accept loop every example of a Stream-based listener uses
                let server = tokio::spawn(async move {
                    while let Some(conn) = incoming.next().await {
                        if let Ok(mut s) = conn {
                            tokio::spawn(async move {
                                let mut b = [0u8; 1];
                                if let Ok(1) = s.read(&mut b).await {
                                    let _ = s.write_all(&[b[0].wrapping_add(1)]).await;
                                }
                            });
                        }
                    }
                    ended2.store(true, std::sync::atomic::Ordering::SeqCst);
                });
                async fn good(client: &hyperdriver::stream::duplex::DuplexClient) -> Result<(), String> {
                    let fut = async {
                        let mut s = client.connect(64).await.map_err(|e| format!("connect: {e}"))?;
                        s.write_all(&[41]).await.map_err(|e| format!("write: {e}"))?;
                        let mut b = [0u8; 1];
                        s.read_exact(&mut b).await.map_err(|e| format!("read: {e}"))?;
                        if b[0] == 42 {
                            Ok(())
                        } else {
                            Err(format!("echoed {}", b[0]))
                        }
                    };
                    match tokio::time::timeout(Duration::from_secs(5), fut).await {
                        Ok(r) => r,
                        Err(_) => Err("no answer within 5 virtual seconds".into()),
                    }
                }
                for (i, op) in ops.iter().enumerate() {
                    match op % 6 {
                        0 => {
                            if let Err(e) = good(&client).await {
                                return Some(format!("well-behaved client #{i} was not served: {e} (listener stream ended: {})", ended.load(std::sync::atomic::Ordering::SeqCst)));
                            }
                        }
                        1 => {
                            let fut = client.connect(64);
                            tokio::pin!(fut);
                            let _ = futures_util::poll!(fut.as_mut());
                        }
                        2 => match tokio::time::timeout(Duration::from_secs(5), client.connect(64)).await {
                            Ok(Ok(s)) => drop(s),
                            Ok(Err(_)) => {}
                            Err(_) => {
                                return Some(format!("client #{i}'s connect got no answer within 5 virtual seconds (listener stream ended: {})", ended.load(std::sync::atomic::Ordering::SeqCst)));
                            }
                        },
                        3 => {
                            let _ = tokio::time::timeout(Duration::from_millis(2), client.connect(0)).await;
                        }
                        // "no limit" spelled as the largest size, or a size just above half of the range
                        k => match tokio::time::timeout(Duration::from_secs(5), client.connect(if k == 4 { usize::MAX } else { (1usize << 63) + 1 })).await {
                            Ok(Ok(s)) => drop(s),
                            Ok(Err(_)) => {}
                            Err(_) => {
                                return Some(format!("client #{i}'s connect (huge pipe size) got no answer within 5 virtual seconds (listener stream ended: {})", ended.load(std::sync::atomic::Ordering::SeqCst)));
                            }
                        },
                    }
                    tokio::task::yield_now().await;
                }
                let out = match good(&client).await {
                    Ok(()) => None,
                    Err(e) => Some(format!("after the faults {ops:?} a well-behaved client was not served: {e} (listener stream ended although the client handle is alive: {})", ended.load(std::sync::atomic::Ordering::SeqCst))),
                };
                server.abort();
                out
            })
        }))
        .map_err(|_| ());
        drop(rt);
        for (loc, msg) in crate::panichook::take_all() {
            if crate::panichook::in_library(&loc) {
                rep.violate("C09/duplex-stream-panic-in-library", format!("panic at {loc}: {msg}"));
            }
        }
        match res {
            Ok(Some(msg)) => rep.violate("C09/duplex-stream-listener-stopped-after-connection-fault", msg),
            Ok(None) => {}
            Err(()) => {
                if rep.violations.is_empty() {
                    rep.internal_error = Some(format!("harness panic at {}: {}", crate::panichook::last_location(), crate::panichook::last_message()));
                }
            }
        }
        rep.class("duplex-stream-accept-loop");
        if c.ops.iter().any(|o| o % 4 == 1) {
            rep.class("duplex-stream-cancelled-connect");
        }
        rep.nontrivial = c.ops.iter().any(|o| o % 4 != 0);
        rep.total_ops = c.ops.len() as u64;
        rep
    }
}

pub fn dupstream_strategy() -> impl proptest::strategy::Strategy<Value = DupStreamCase> {
    use proptest::prelude::*;
    proptest::collection::vec(prop_oneof![2 => Just(0u8), 3 => Just(1u8), 1 => Just(2u8), 1 => Just(3u8), 1 => Just(4u8), 1 => Just(5u8)], 1..8).prop_map(|ops| DupStreamCase { ops })
}

// ------------------------------------------------------------------------------------------------
// a make-service with back-pressure (a cap on live connections, as tower's ConcurrencyLimit / Buffer
// give it): the serving loop must respect the tower contract - `call` only after `poll_ready`
// returned Ready(Ok) - also when a stalled client keeps the cap reached for a while

#[derive(Clone, Debug, Serialize, Deserialize, PartialEq)]
pub struct MakeReadyCase {
    pub cap: u8,
    /// clients in connect order: (start ms, stall ms before sending the request; 0 = well-behaved,
    /// 255 = never sends and leaves after 40 ms)
    pub clients: Vec<(u8, u8)>,
    /// 0 http1, 1 auto
    pub proto: u8,
    /// the make-service is wrapped by `with_connection_info()` (and `with_tls_connection_info()` when 2):
    /// the wrappers must hand on readiness - the value that was polled ready is the one that is called
    #[serde(default)]
    pub info: u8,
}

#[derive(Default)]
struct MakeState {
    live: usize,
    ready_granted: bool,
    violations: Vec<String>,
    waker: Option<std::task::Waker>,
}

struct CappedMake {
    st: Arc<std::sync::Mutex<MakeState>>,
    cap: usize,
    /// readiness of this very value (a clone starts unready, as with `tower::limit` services)
    polled_ready: bool,
}
impl Clone for CappedMake {
    fn clone(&self) -> Self {
        CappedMake { st: self.st.clone(), cap: self.cap, polled_ready: false }
    }
}

struct Permit(Arc<std::sync::Mutex<MakeState>>);
impl Drop for Permit {
    fn drop(&mut self) {
        let mut s = self.0.lock().unwrap();
        s.live -= 1;
        if let Some(w) = s.waker.take() {
            w.wake();
        }
    }
}

#[derive(Clone)]
struct PermittedSvc {
    _permit: Arc<Permit>,
}
impl tower::Service<http::Request<hyperdriver::Body>> for PermittedSvc {
    type Response = http::Response<hyperdriver::Body>;
    type Error = std::io::Error;
    type Future = std::pin::Pin<Box<dyn std::future::Future<Output = Result<Self::Response, Self::Error>> + Send>>;
    fn poll_ready(&mut self, _: &mut std::task::Context<'_>) -> std::task::Poll<Result<(), Self::Error>> {
        std::task::Poll::Ready(Ok(()))
    }
    fn call(&mut self, req: http::Request<hyperdriver::Body>) -> Self::Future {
        Box::pin(async move {
            use http_body_util::BodyExt;
            let _ = req.into_body().collect().await;
            Ok(http::Response::new(hyperdriver::Body::from("ok".to_string())))
        })
    }
}

impl<'a> tower::Service<&'a hyperdriver::server::conn::Stream> for CappedMake {
    type Response = PermittedSvc;
    type Error = std::convert::Infallible;
    type Future = std::future::Ready<Result<PermittedSvc, std::convert::Infallible>>;
    fn poll_ready(&mut self, cx: &mut std::task::Context<'_>) -> std::task::Poll<Result<(), Self::Error>> {
        let mut s = self.st.lock().unwrap();
        if s.live < self.cap {
            s.ready_granted = true;
            self.polled_ready = true;
            std::task::Poll::Ready(Ok(()))
        } else {
            s.ready_granted = false;
            s.waker = Some(cx.waker().clone());
            std::task::Poll::Pending
        }
    }
    fn call(&mut self, _conn: &'a hyperdriver::server::conn::Stream) -> Self::Future {
        let mut s = self.st.lock().unwrap();
        if !s.ready_granted {
            let live = s.live;
            s.violations.push(format!("make-service called although its last poll_ready did not return Ready ({live} live connections, cap {})", self.cap));
        }
        if !self.polled_ready {
            s.violations.push("a make-service value was called that had never been polled ready itself (a clone of the value that was)".to_string());
        }
        self.polled_ready = false;
        s.ready_granted = false;
        s.live += 1;
        std::future::ready(Ok(PermittedSvc { _permit: Arc::new(Permit(self.st.clone())) }))
    }
}

pub struct MakeReadyEngine;

impl Engine for MakeReadyEngine {
    type Case = MakeReadyCase;
    fn name(&self) -> &'static str {
        "makeready"
    }
    fn run_case(&self, c: &MakeReadyCase) -> CaseReport {
        let mut rep = CaseReport::default();
        let _ = crate::panichook::take_all();
        let rt = tokio::runtime::Builder::new_current_thread().enable_time().start_paused(true).build().unwrap();
        let c2 = c.clone();
        let st: Arc<std::sync::Mutex<MakeState>> = Default::default();
        let st2 = st.clone();
        let res = std::panic::catch_unwind(std::panic::AssertUnwindSafe(|| {
            rt.block_on(async move {
                let (client, incoming) = hyperdriver::stream::duplex::pair();
                let make = CappedMake { st: st2, cap: (c2.cap as usize).clamp(1, 3), polled_ready: false };
                let b = hyperdriver::Server::builder::<hyperdriver::Body>().with_incoming(incoming);
                let server = match (c2.proto % 2, c2.info % 2) {
                    (0, 0) => tokio::spawn(async move { b.with_http1().with_make_service(make).with_tokio().await.map_err(|e| e.to_string()) }),
                    (0, _) => tokio::spawn(async move { b.with_http1().with_make_service(make).with_connection_info().with_tokio().await.map_err(|e| e.to_string()) }),
                    (_, 0) => tokio::spawn(async move { b.with_auto_http().with_make_service(make).with_tokio().await.map_err(|e| e.to_string()) }),
                    _ => tokio::spawn(async move { b.with_auto_http().with_make_service(make).with_connection_info().with_tokio().await.map_err(|e| e.to_string()) }),
                };
                let mut tasks = vec![];
                for (i, (start, stall)) in c2.clients.iter().cloned().enumerate() {
                    let client = client.clone();
                    tasks.push(tokio::spawn(async move {
                        tokio::time::sleep(Duration::from_millis(start as u64)).await;
                        let mut s = match client.connect(1024).await {
                            Ok(s) => s,
                            Err(e) => return (i, stall, Err(format!("connect: {e}"))),
                        };
                        if stall == 255 {
                            tokio::time::sleep(Duration::from_millis(40)).await;
                            return (i, stall, Ok(()));
                        }
                        tokio::time::sleep(Duration::from_millis(stall as u64)).await;
                        let r = async {
                            s.write_all(b"GET /x HTTP/1.1\r\nhost: x\r\nconnection: close\r\n\r\n").await.map_err(|e| format!("write: {e}"))?;
                            let mut buf = vec![];
                            s.read_to_end(&mut buf).await.map_err(|e| format!("read: {e}"))?;
                            if buf.starts_with(b"HTTP/1.1 200") {
                                Ok(())
                            } else {
                                Err(format!("answer {:?}", String::from_utf8_lossy(&buf[..buf.len().min(40)])))
                            }
                        };
                        (i, stall, r.await)
                    }));
                }
                let mut out = vec![];
                for t in tasks {
                    match tokio::time::timeout(Duration::from_secs(30), t).await {
                        Ok(Ok(x)) => out.push(x),
                        Ok(Err(e)) => out.push((usize::MAX, 0, Err(format!("client task: {e}")))),
                        Err(_) => out.push((usize::MAX, 0, Err("a client was not served within 30 virtual seconds".to_string()))),
                    }
                }
                let ended = server.is_finished();
                let end = if ended { Some(format!("{:?}", server.await)) } else { server.abort(); None };
                (out, end)
            })
        }));
        drop(rt);
        for (loc, msg) in crate::panichook::take_all() {
            if crate::panichook::in_library(&loc) {
                rep.violate("C09/panic-in-server-task", format!("panic at {loc}: {msg}"));
            }
        }
        for v in st.lock().unwrap().violations.iter() {
            rep.violate("C09/make-service-called-without-readiness", format!("{v}; case {c:?}"));
        }
        match res {
            Err(_) => {
                if rep.violations.is_empty() {
                    rep.internal_error = Some(format!("harness panic at {}: {}", crate::panichook::last_location(), crate::panichook::last_message()));
                }
            }
            Ok((out, end)) => {
                if let Some(e) = end {
                    rep.violate("C09/server-stopped-after-connection-fault", format!("the serving future ended ({e}) with a capped make-service and clients {:?}", c.clients));
                }
                for (i, stall, r) in out {
                    if let Err(e) = r {
                        rep.violate("C09/client-behind-stalled-connection-not-served", format!("client {i} (stall {stall} ms) of {c:?}: {e}"));
                    }
                }
            }
        }
        rep.class("capped-make-service");
        if c.clients.len() > (c.cap as usize).clamp(1, 3) {
            rep.class("more-clients-than-the-cap");
        }
        rep.nontrivial = c.clients.len() > (c.cap as usize).clamp(1, 3) && c.clients.iter().any(|(_, s)| *s > 0);
        rep.total_ops = c.clients.len() as u64;
        rep
    }
}

pub fn makeready_strategy() -> impl proptest::strategy::Strategy<Value = MakeReadyCase> {
    use proptest::prelude::*;
    (1u8..3, proptest::collection::vec((prop_oneof![3 => Just(0u8), 1 => 0u8..30], prop_oneof![2 => Just(0u8), 2 => 1u8..60, 1 => Just(255u8)]), 1..7), 0u8..2, 0u8..2).prop_map(|(cap, clients, proto, info)| MakeReadyCase { cap, clients, proto, info })
}

// ------------------------------------------------------------------------------------------------
// connections that are already faulty when the server accepts them: a listener written against the
// public `Accept` trait hands out the server halves of `DuplexStream::new` pairs on whose client
// halves the peer has already spoken (plaintext to a TLS port, garbage, a partial ClientHello or
// preface) or which the peer has already left. `Acceptor::new(..)` with and without `with_tls`,
// `Server::builder().with_acceptor(..)`, HTTP/1 and auto.

#[derive(Clone, Debug, Serialize, Deserialize, PartialEq)]
pub struct QueueCase {
    pub tls: bool,
    pub proto: u8,
    /// clients in connect order: 0 well-behaved; 1 already gone; 2 plaintext request already written;
    /// 3 garbage already written; 4 partial ClientHello already written, then silent; 5 partial
    /// HTTP/2 preface already written; 6 bytes already written and already gone; 7 partial HTTP/2
    /// preface already written and already gone; 8 (TLS listeners; otherwise as 7) completes the TLS
    /// handshake, then writes a partial preface and closes the session cleanly in one go
    pub clients: Vec<u8>,
    /// built `with_graceful_shutdown` on a signal that never resolves
    pub graceful: bool,
}

/// The accepted stream: passes everything through and notices a reader that keeps polling after the
/// end of the stream (a connection task looping on EOF): after 5000 such reads in a row it answers
/// with an error, which ends the loop, and raises the flag.
pub struct GuardIo {
    inner: hyperdriver::stream::duplex::DuplexStream,
    eof_reads: usize,
    looped: Arc<std::sync::atomic::AtomicBool>,
}
impl std::fmt::Debug for GuardIo {
    fn fmt(&self, f: &mut std::fmt::Formatter<'_>) -> std::fmt::Result {
        write!(f, "GuardIo")
    }
}
impl hyperdriver::info::HasConnectionInfo for GuardIo {
    type Addr = hyperdriver::info::DuplexAddr;
    fn info(&self) -> hyperdriver::info::ConnectionInfo<Self::Addr> {
        self.inner.info()
    }
}
impl tokio::io::AsyncRead for GuardIo {
    fn poll_read(mut self: std::pin::Pin<&mut Self>, cx: &mut std::task::Context<'_>, buf: &mut tokio::io::ReadBuf<'_>) -> std::task::Poll<std::io::Result<()>> {
        let before = buf.filled().len();
        let r = std::pin::Pin::new(&mut self.inner).poll_read(cx, buf);
        if let std::task::Poll::Ready(Ok(())) = &r {
            if buf.filled().len() == before && buf.remaining() > 0 {
                self.eof_reads += 1;
                if self.eof_reads > 5000 {
                    self.looped.store(true, std::sync::atomic::Ordering::SeqCst);
                    return std::task::Poll::Ready(Err(std::io::Error::other("harness: read polled endlessly after the end of the stream")));
                }
            } else {
                self.eof_reads = 0;
            }
        }
        r
    }
}
impl tokio::io::AsyncWrite for GuardIo {
    fn poll_write(mut self: std::pin::Pin<&mut Self>, cx: &mut std::task::Context<'_>, buf: &[u8]) -> std::task::Poll<std::io::Result<usize>> {
        std::pin::Pin::new(&mut self.inner).poll_write(cx, buf)
    }
    fn poll_flush(mut self: std::pin::Pin<&mut Self>, cx: &mut std::task::Context<'_>) -> std::task::Poll<std::io::Result<()>> {
        std::pin::Pin::new(&mut self.inner).poll_flush(cx)
    }
    fn poll_shutdown(mut self: std::pin::Pin<&mut Self>, cx: &mut std::task::Context<'_>) -> std::task::Poll<std::io::Result<()>> {
        std::pin::Pin::new(&mut self.inner).poll_shutdown(cx)
    }
}

pub struct QueueAcceptor(pub tokio::sync::mpsc::UnboundedReceiver<hyperdriver::stream::duplex::DuplexStream>, pub Arc<std::sync::atomic::AtomicBool>);

impl hyperdriver::server::conn::Accept for QueueAcceptor {
    type Conn = GuardIo;
    type Error = std::io::Error;
    fn poll_accept(mut self: std::pin::Pin<&mut Self>, cx: &mut std::task::Context<'_>) -> std::task::Poll<Result<Self::Conn, Self::Error>> {
        match self.0.poll_recv(cx) {
            std::task::Poll::Ready(Some(s)) => std::task::Poll::Ready(Ok(GuardIo { inner: s, eof_reads: 0, looped: self.1.clone() })),
            std::task::Poll::Ready(None) => std::task::Poll::Ready(Err(std::io::ErrorKind::ConnectionAborted.into())),
            std::task::Poll::Pending => std::task::Poll::Pending,
        }
    }
}

pub struct QueueAcceptEngine;

impl Engine for QueueAcceptEngine {
    type Case = QueueCase;
    fn name(&self) -> &'static str {
        "queueaccept"
    }
    fn real_time(&self) -> bool {
        // (only for the runner's bookkeeping: a case that hangs costs 30 s of real time)
        true
    }
    fn run_case(&self, c: &QueueCase) -> CaseReport {
        // The simulation runs on a thread of its own under a real-time limit: the whole case lives in
        // virtual time and takes milliseconds, so a thread that has not come back after 30 s sits in a
        // loop that never yields to the executor - inside the server's connection or accept code, the
        // only code here that polls something in a loop. The thread cannot be stopped; it is left behind.
        let (tx, rx) = std::sync::mpsc::channel();
        let c2 = c.clone();
        let spawned = std::thread::Builder::new().name("queueaccept-case".into()).spawn(move || {
            let _ = tx.send(QueueAcceptEngine::run_inner(&c2));
        });
        if spawned.is_err() {
            return QueueAcceptEngine::run_inner(c);
        }
        match rx.recv_timeout(Duration::from_secs(30)) {
            Ok(rep) => rep,
            Err(_) => {
                let mut rep = CaseReport::default();
                rep.violate("C09/server-never-yields", format!("{c:?}: the simulation (virtual time, normally milliseconds) did not come back within 30 s of real time: a connection task or the accept loop spins without yielding, and with it the whole runtime thread stands still"));
                rep.class("faulty-before-accept");
                rep.nontrivial = true;
                rep
            }
        }
    }
}

impl QueueAcceptEngine {
    fn run_inner(c: &QueueCase) -> CaseReport {
        use tokio::io::{AsyncReadExt, AsyncWriteExt};
        let mut rep = CaseReport::default();
        let _ = crate::panichook::take_all();
        crate::engines::tlswire::install_provider();
        let rt = tokio::runtime::Builder::new_current_thread().enable_time().start_paused(true).build().unwrap();
        let c2 = c.clone();
        let looped = Arc::new(std::sync::atomic::AtomicBool::new(false));
        let looped2 = looped.clone();
        let res = std::panic::catch_unwind(std::panic::AssertUnwindSafe(|| {
            rt.block_on(async move {
                let (tx, rx) = tokio::sync::mpsc::unbounded_channel();
                let acceptor = hyperdriver::server::conn::Acceptor::new(QueueAcceptor(rx, looped2.clone()));
                let acceptor = if c2.tls { acceptor.with_tls(Arc::new(crate::engines::tlswire::server_config(0, 0, Default::default()))) } else { acceptor };
                let svc = tower::service_fn(|_req: http::Request<hyperdriver::Body>| async move { Ok::<_, std::io::Error>(http::Response::new(hyperdriver::Body::from("queue-ok"))) });
                let base = hyperdriver::Server::builder::<hyperdriver::Body>().with_acceptor(acceptor).with_shared_service(svc);
                let graceful = c2.graceful;
                let server = match (c2.proto % 2, graceful) {
                    (0, false) => tokio::spawn(async move { base.with_http1().with_tokio().await.map_err(|e| e.to_string()) }),
                    (0, true) => tokio::spawn(async move { base.with_http1().with_tokio().with_graceful_shutdown(std::future::pending::<()>()).await.map_err(|e| e.to_string()) }),
                    (_, false) => tokio::spawn(async move { base.with_auto_http().with_tokio().await.map_err(|e| e.to_string()) }),
                    (_, true) => tokio::spawn(async move { base.with_auto_http().with_tokio().with_graceful_shutdown(std::future::pending::<()>()).await.map_err(|e| e.to_string()) }),
                };
                let tls = c2.tls;
                let good = |client: hyperdriver::stream::duplex::DuplexStream| async move {
                    let req = b"GET /x HTTP/1.1\r\nhost: example.com\r\nconnection: close\r\n\r\n";
                    let fut = async {
                        let mut buf = vec![];
                        if tls {
                            let connector = tokio_rustls::TlsConnector::from(Arc::new(crate::engines::tlswire::client_config(0)));
                            let name = rustls::pki_types::ServerName::try_from("example.com").unwrap();
                            let mut t = connector.connect(name, client).await.map_err(|e| format!("handshake: {e}"))?;
                            t.write_all(req).await.map_err(|e| format!("write: {e}"))?;
                            // the answer is complete when the server closes (connection: close); an abrupt end counts too
                            let _ = t.read_to_end(&mut buf).await;
                        } else {
                            let mut s = client;
                            s.write_all(req).await.map_err(|e| format!("write: {e}"))?;
                            let _ = s.read_to_end(&mut buf).await;
                        }
                        if buf.starts_with(b"HTTP/1.1 200") && buf.ends_with(b"queue-ok") {
                            Ok(())
                        } else {
                            Err(format!("answer {:?}", String::from_utf8_lossy(&buf[..buf.len().min(48)])))
                        }
                    };
                    match tokio::time::timeout(Duration::from_secs(5), fut).await {
                        Ok(r) => r,
                        Err(_) => Err("no answer within 5 virtual seconds".to_string()),
                    }
                };
                let mut problems = vec![];
                let mut keep = vec![];
                let mut keep_tls = vec![];
                for (i, k) in c2.clients.iter().enumerate() {
                    let (mut client, server_half) = hyperdriver::stream::duplex::DuplexStream::new(8192);
                    if k % 9 == 8 && tls {
                        let _ = tx.send(server_half);
                        let connector = tokio_rustls::TlsConnector::from(Arc::new(crate::engines::tlswire::client_config(0)));
                        let name = rustls::pki_types::ServerName::try_from("example.com").unwrap();
                        if let Ok(Ok(mut t)) = tokio::time::timeout(Duration::from_secs(5), connector.connect(name, client)).await {
                            // prefix and close_notify reach the server together
                            let _ = t.write_all(&b"PRI * HTTP/2.0\r\n\r\nSM\r\n\r\n"[..(1 + i * 5 % 23)]).await;
                            let _ = t.shutdown().await;
                            // the transport stays open (a peer that has said goodbye but not hung up yet)
                            keep_tls.push(t);
                        }
                        tokio::task::yield_now().await;
                        continue;
                    }
                    match k % 9 {
                        0 => {
                            let _ = tx.send(server_half);
                            if let Err(e) = good(client).await {
                                problems.push(format!("well-behaved client #{i}: {e}"));
                            }
                            continue;
                        }
                        1 => drop(client),
                        2 => {
                            let _ = client.write_all(b"GET / HTTP/1.1\r\nhost: example.com\r\n\r\n").await;
                            keep.push(client);
                        }
                        3 => {
                            let _ = client.write_all(&[0x80, 0x03, 0xff, 0x00, 0x7f, 0x16, 0x03]).await;
                            keep.push(client);
                        }
                        4 => {
                            let _ = client.write_all(&[0x16, 0x03, 0x01, 0x00, 0xe9, 0x01, 0x00, 0x00]).await;
                            keep.push(client);
                        }
                        5 => {
                            let _ = client.write_all(&b"PRI * HTTP/2.0\r\n\r\nSM\r\n\r\n"[..(3 + i % 20)]).await;
                            keep.push(client);
                        }
                        7 | 8 => {
                            let _ = client.write_all(&b"PRI * HTTP/2.0\r\n\r\nSM\r\n\r\n"[..(1 + i * 5 % 23)]).await;
                            drop(client);
                        }
                        _ => {
                            let _ = client.write_all(b"GET /gone HTTP/1.1\r\nhost: x\r\n\r\n").await;
                            drop(client);
                        }
                    }
                    // the connection reaches the listener only now: the fault is already there
                    let _ = tx.send(server_half);
                    tokio::task::yield_now().await;
                }
                tokio::time::sleep(Duration::from_millis(20)).await;
                let (probe, server_half) = hyperdriver::stream::duplex::DuplexStream::new(8192);
                let _ = tx.send(server_half);
                if let Err(e) = good(probe).await {
                    problems.push(format!("probe after the faults: {e}"));
                }
                let end = if server.is_finished() { Some(format!("{:?}", server.await)) } else { server.abort(); None };
                drop(keep);
                drop(keep_tls);
                (problems, end)
            })
        }));
        drop(rt);
        let desc = format!("{c:?}");
        for (loc, msg) in crate::panichook::take_all() {
            if crate::panichook::in_library(&loc) {
                rep.violate("C09/panic-in-server-task", format!("{desc}: panic at {loc}: {msg}"));
            }
        }
        match res {
            Err(_) => {
                if rep.violations.is_empty() {
                    rep.internal_error = Some(format!("harness panic at {}: {}", crate::panichook::last_location(), crate::panichook::last_message()));
                }
            }
            Ok((problems, end)) => {
                if let Some(e) = end {
                    rep.violate("C09/server-stopped-after-connection-fault", format!("{desc}: the serving future ended: {e}"));
                }
                for p in problems {
                    rep.violate("C09/client-not-served-after-pre-accept-fault", format!("{desc}: {p}"));
                }
            }
        }
        if looped.load(std::sync::atomic::Ordering::SeqCst) {
            rep.violate("C09/connection-task-loops-on-end-of-stream", format!("{desc}: a connection task read past the end of its stream more than 5000 times in a row"));
        }
        rep.class("faulty-before-accept");
        if c.tls {
            rep.class("faulty-before-accept-tls");
        }
        rep.nontrivial = c.clients.iter().any(|k| k % 9 != 0);
        rep.total_ops = c.clients.len() as u64;
        rep
    }
}

pub fn queue_strategy() -> impl proptest::strategy::Strategy<Value = QueueCase> {
    use proptest::prelude::*;
    (any::<bool>(), 0u8..2, proptest::collection::vec(prop_oneof![2 => Just(0u8), 7 => 1u8..9], 1..7), any::<bool>()).prop_map(|(tls, proto, clients, graceful)| QueueCase { tls, proto, clients, graceful })
}

// ------------------------------------------------------------------------------------------------
// C07 with a make-service that takes its time: the service for a freshly accepted connection becomes
// available only after a delay, or the make-service is not ready for a while. The signal may resolve
// while the server is in that state - it must still end the accept loop there and then, tell the open
// connections to shut down, and must not serve the connection whose service arrives after the signal.

#[derive(Clone, Debug, Serialize, Deserialize, PartialEq)]
pub struct MakeGateCase {
    pub proto: u8,
    /// clients: (start ms, delay of the make-service future for this connection in ms; 255 = never)
    pub clients: Vec<(u8, u8)>,
    pub signal_ms: u8,
    /// the first client keeps its connection open after its response (idle keep-alive at the signal)
    pub idle_first: bool,
    /// the make-service reports not-ready (poll_ready pending) for this long after every connection it made
    pub not_ready_ms: u8,
}

struct GateMake {
    delays: Arc<Vec<u8>>,
    made: Arc<AtomicUsize>,
    log: Arc<Mutex<Vec<(usize, u64, u64)>>>, // (connection, accepted at, service available at)
    t0: tokio::time::Instant,
    not_ready: u64,
    ready_at: Option<std::pin::Pin<Box<tokio::time::Sleep>>>,
}

impl<'a> tower::Service<&'a hyperdriver::server::conn::Stream> for GateMake {
    type Response = PermittedSvcPlain;
    type Error = std::convert::Infallible;
    type Future = std::pin::Pin<Box<dyn std::future::Future<Output = Result<PermittedSvcPlain, std::convert::Infallible>> + Send>>;
    fn poll_ready(&mut self, cx: &mut std::task::Context<'_>) -> std::task::Poll<Result<(), Self::Error>> {
        if let Some(s) = self.ready_at.as_mut() {
            if std::future::Future::poll(s.as_mut(), cx).is_pending() {
                return std::task::Poll::Pending;
            }
            self.ready_at = None;
        }
        std::task::Poll::Ready(Ok(()))
    }
    fn call(&mut self, _conn: &'a hyperdriver::server::conn::Stream) -> Self::Future {
        let id = self.made.fetch_add(1, Ordering::SeqCst);
        let delay = self.delays.get(id).copied().unwrap_or(0);
        let log = self.log.clone();
        let t0 = self.t0;
        let accepted = t0.elapsed().as_millis() as u64;
        if self.not_ready > 0 {
            self.ready_at = Some(Box::pin(tokio::time::sleep(Duration::from_millis(self.not_ready))));
        }
        Box::pin(async move {
            if delay == 255 {
                std::future::pending::<()>().await;
            }
            if delay > 0 {
                tokio::time::sleep(Duration::from_millis(delay as u64)).await;
            }
            log.lock().unwrap().push((id, accepted, t0.elapsed().as_millis() as u64));
            Ok(PermittedSvcPlain)
        })
    }
}

#[derive(Clone)]
pub struct PermittedSvcPlain;
impl tower::Service<http::Request<hyperdriver::Body>> for PermittedSvcPlain {
    type Response = http::Response<hyperdriver::Body>;
    type Error = std::io::Error;
    type Future = std::pin::Pin<Box<dyn std::future::Future<Output = Result<Self::Response, Self::Error>> + Send>>;
    fn poll_ready(&mut self, _: &mut std::task::Context<'_>) -> std::task::Poll<Result<(), Self::Error>> {
        std::task::Poll::Ready(Ok(()))
    }
    fn call(&mut self, req: http::Request<hyperdriver::Body>) -> Self::Future {
        Box::pin(async move {
            use http_body_util::BodyExt;
            let _ = req.into_body().collect().await;
            Ok(http::Response::new(hyperdriver::Body::from("gate-ok".to_string())))
        })
    }
}

pub struct MakeGateEngine;

impl Engine for MakeGateEngine {
    type Case = MakeGateCase;
    fn name(&self) -> &'static str {
        "makegate"
    }
    fn run_case(&self, c: &MakeGateCase) -> CaseReport {
        use tokio::io::{AsyncReadExt, AsyncWriteExt};
        let mut rep = CaseReport::default();
        let _ = crate::panichook::take_all();
        let rt = tokio::runtime::Builder::new_current_thread().enable_time().start_paused(true).build().unwrap();
        let c2 = c.clone();
        type ClientOut = (usize, u64, Vec<u8>, bool, u64); // (client, connected at, bytes, saw end of stream, ms of the end)
        let res = std::panic::catch_unwind(std::panic::AssertUnwindSafe(|| {
            rt.block_on(async move {
                let t0 = tokio::time::Instant::now();
                let (client, incoming) = hyperdriver::stream::duplex::pair();
                let log: Arc<Mutex<Vec<(usize, u64, u64)>>> = Default::default();
                let make = GateMake { delays: Arc::new(c2.clients.iter().map(|(_, d)| *d).collect()), made: Arc::new(AtomicUsize::new(0)), log: log.clone(), t0, not_ready: c2.not_ready_ms as u64, ready_at: None };
                let base = hyperdriver::Server::builder::<hyperdriver::Body>().with_incoming(incoming);
                let sig = Duration::from_millis(c2.signal_ms as u64);
                let done: Arc<Mutex<Option<(Result<(), String>, u64)>>> = Default::default();
                let done2 = done.clone();
                let server = if c2.proto % 2 == 0 {
                    let s = base.with_http1().with_make_service(make).with_tokio().with_graceful_shutdown(tokio::time::sleep(sig));
                    tokio::spawn(async move {
                        let r = s.await.map_err(|e| e.to_string());
                        *done2.lock().unwrap() = Some((r, t0.elapsed().as_millis() as u64));
                    })
                } else {
                    let s = base.with_auto_http().with_make_service(make).with_tokio().with_graceful_shutdown(tokio::time::sleep(sig));
                    tokio::spawn(async move {
                        let r = s.await.map_err(|e| e.to_string());
                        *done2.lock().unwrap() = Some((r, t0.elapsed().as_millis() as u64));
                    })
                };
                let mut tasks = vec![];
                for (i, (start, _)) in c2.clients.iter().cloned().enumerate() {
                    let client = client.clone();
                    let idle = c2.idle_first && i == 0;
                    tasks.push(tokio::spawn(async move {
                        tokio::time::sleep(Duration::from_millis(start as u64)).await;
                        let Ok(Ok(mut s)) = tokio::time::timeout(Duration::from_secs(2), client.connect(4096)).await else {
                            return (i, u64::MAX, vec![], true, t0.elapsed().as_millis() as u64);
                        };
                        let connected = t0.elapsed().as_millis() as u64;
                        let req: &[u8] = if idle { b"GET /x HTTP/1.1\r\nhost: x\r\n\r\n" } else { b"GET /x HTTP/1.1\r\nhost: x\r\nconnection: close\r\n\r\n" };
                        let _ = s.write_all(req).await;
                        let mut got = vec![];
                        let mut b = [0u8; 256];
                        let mut eof = false;
                        // (an idle keep-alive client waits for the server to close; 3 virtual seconds bound it)
                        loop {
                            match tokio::time::timeout(Duration::from_secs(3), s.read(&mut b)).await {
                                Ok(Ok(0)) | Ok(Err(_)) => {
                                    eof = true;
                                    break;
                                }
                                Ok(Ok(n)) => got.extend_from_slice(&b[..n]),
                                Err(_) => break,
                            }
                        }
                        (i, connected, got, eof, t0.elapsed().as_millis() as u64)
                    }));
                }
                let mut outs: Vec<ClientOut> = vec![];
                for t in tasks {
                    if let Ok(Ok(o)) = tokio::time::timeout(Duration::from_secs(10), t).await {
                        outs.push(o);
                    }
                }
                tokio::time::sleep(Duration::from_millis(50)).await;
                server.abort();
                let d = done.lock().unwrap().clone();
                let l = log.lock().unwrap().clone();
                (outs, d, l)
            })
        }));
        drop(rt);
        for (loc, msg) in crate::panichook::take_all() {
            if crate::panichook::in_library(&loc) {
                rep.violate("C07/panic-in-library-task", format!("{c:?}: panic at {loc}: {msg}"));
            }
        }
        let Ok((outs, done, log)) = res else {
            if rep.violations.is_empty() {
                rep.internal_error = Some(format!("harness panic at {}: {}", crate::panichook::last_location(), crate::panichook::last_message()));
            }
            return rep;
        };
        let sig = c.signal_ms as u64;
        let desc = format!("{c:?}: make-service log (connection, accepted, service available) {log:?}; serving future {done:?}");
        match &done {
            Some((Ok(()), t)) if *t == sig => {}
            Some((Ok(()), t)) => rep.violate("C07/server-future-not-resolved-at-signal", format!("{desc}: resolved at {t} ms, the signal fired at {sig} ms")),
            Some((Err(e), _)) => rep.violate("C07/server-future-failed", format!("{desc}: {e}")),
            None => rep.violate("C07/server-future-not-resolved-at-signal", format!("{desc}: still pending long after the signal at {sig} ms")),
        }
        for (i, connected, bytes, eof, t_end) in &outs {
            let text = String::from_utf8_lossy(bytes);
            let answered = text.starts_with("HTTP/1.1 200") && text.contains("gate-ok");
            // connect requests queue up in the order they are made (start time, then spawn order); the
            // listener acknowledges them in that order: the k-th connection belongs to the k-th client of it
            let mut order: Vec<(u8, usize)> = c.clients.iter().enumerate().map(|(k, (start, _))| (*start, k)).collect();
            order.sort();
            let conn_id = order.iter().position(|(_, cl)| cl == i);
            let avail = conn_id.and_then(|k| log.iter().find(|(id, _, _)| *id == k)).map(|(_, _, a)| *a);
            match avail {
                Some(a) if a > sig && answered => {
                    rep.violate("C07/connection-served-after-signal", format!("{desc}: client {i} (connected at {connected} ms) was answered although the service for its connection only became available at {a} ms, after the signal at {sig} ms"));
                }
                Some(a) if a < sig && *connected != u64::MAX && !answered && !(c.idle_first && *i == 0 && false) => {
                    // its exchange started before the signal (request written at connect): must be answered
                    if a + 1 < sig {
                        rep.violate("C07/in-flight-request-lost/make-gate", format!("{desc}: client {i} connected at {connected} ms, its service was available at {a} ms, before the signal at {sig} ms, but it received {:?}", &text[..text.len().min(60)]));
                    }
                }
                _ => {}
            }
            if c.idle_first && *i == 0 && *connected != u64::MAX && *connected < sig {
                rep.class("idle-keep-alive-connection-at-signal");
                if !*eof {
                    rep.violate("C07/idle-connection-not-closed", format!("{desc}: the idle keep-alive connection of client 0 was still open 3 s after its last byte (signal at {sig} ms, observed until {t_end} ms)"));
                }
            }
        }
        if log.iter().any(|(_, acc, avail)| *acc <= sig && *avail > sig) || c.clients.iter().any(|(s, d)| (*s as u64) <= sig && *d == 255) {
            rep.class("signal-while-make-service-pending");
        }
        if c.not_ready_ms > 0 {
            rep.class("make-service-not-ready-for-a-while");
        }
        rep.class("make-gate");
        rep.nontrivial = rep.classes.contains(&"signal-while-make-service-pending");
        rep.total_ops = c.clients.len() as u64;
        rep
    }
}

pub fn makegate_strategy() -> impl proptest::strategy::Strategy<Value = MakeGateCase> {
    use proptest::prelude::*;
    (
        0u8..2,
        proptest::collection::vec((prop_oneof![2 => Just(0u8), 2 => 0u8..40], prop_oneof![3 => Just(0u8), 3 => 1u8..40, 1 => Just(255u8)]), 1..5),
        0u8..50,
        any::<bool>(),
        prop_oneof![3 => Just(0u8), 1 => 1u8..30],
    )
        .prop_map(|(proto, clients, signal_ms, idle_first, not_ready_ms)| MakeGateCase { proto, clients, signal_ms, idle_first, not_ready_ms })
}
