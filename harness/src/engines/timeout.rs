//! E9 `timeout` (C19, unit leg): `service::TimeoutLayer` around a scripted inner service in virtual time.
#![allow(dead_code)]

use std::future::Future;
use std::pin::Pin;
use std::sync::{Arc, Mutex};
use std::task::{Context, Poll};
use std::time::Duration;

use hyperdriver::service::TimeoutLayer;
use serde::{Deserialize, Serialize};
use tokio::time::Instant;
use tower::{Layer, Service};

use crate::common::{CaseReport, Engine};

#[derive(Clone, Debug, Serialize, Deserialize, PartialEq)]
pub struct ToCase {
    /// configured duration (ms)
    pub dur: u64,
    /// inner completes this many ms after the call (None = never)
    pub inner_at: Option<u64>,
    pub inner_ok: bool,
    /// delay between call() and the first poll of the returned future
    pub first_poll_delay: u64,
    /// inner's poll_ready is pending for this long before the call
    pub ready_delay: u64,
    /// the future is first polled under one waker (a probe with a no-op waker, as a `select!` round
    /// or `poll!` on another task would do) and completed under another (the awaiting task's)
    #[serde(default)]
    pub migrate: bool,
    /// after its first poll the future is left alone until this many ms after the call (a busy task, a
    /// `select!` that serves another branch) and only then awaited: what had happened first still decides
    #[serde(default)]
    pub late_repoll: Option<u64>,
}

#[derive(Default, Debug)]
struct InnerObs {
    polls: u32,
    polls_after_done: u32,
    dropped_at: Option<u64>,
    completed: bool,
}

#[derive(Debug, PartialEq, Clone)]
struct MyErr(u32);

struct InnerFut {
    obs: Arc<Mutex<InnerObs>>,
    sleep: Option<Pin<Box<tokio::time::Sleep>>>,
    ok: bool,
    t0: Instant,
    outer_done: Arc<Mutex<bool>>,
}
impl Future for InnerFut {
    type Output = Result<u32, MyErr>;
    fn poll(mut self: Pin<&mut Self>, cx: &mut Context<'_>) -> Poll<Self::Output> {
        {
            let mut o = self.obs.lock().unwrap();
            o.polls += 1;
            if *self.outer_done.lock().unwrap() {
                o.polls_after_done += 1;
            }
        }
        match self.sleep.as_mut() {
            None => Poll::Pending,
            Some(s) => match s.as_mut().poll(cx) {
                Poll::Pending => Poll::Pending,
                Poll::Ready(()) => {
                    self.obs.lock().unwrap().completed = true;
                    Poll::Ready(if self.ok { Ok(4242) } else { Err(MyErr(77)) })
                }
            },
        }
    }
}
impl Drop for InnerFut {
    fn drop(&mut self) {
        self.obs.lock().unwrap().dropped_at = Some(self.t0.elapsed().as_millis() as u64);
    }
}

struct InnerSvc {
    obs: Arc<Mutex<InnerObs>>,
    at: Option<u64>,
    ok: bool,
    t0: Instant,
    outer_done: Arc<Mutex<bool>>,
    ready_sleep: Option<Pin<Box<tokio::time::Sleep>>>,
}
impl Service<u8> for InnerSvc {
    type Response = u32;
    type Error = MyErr;
    type Future = InnerFut;
    fn poll_ready(&mut self, cx: &mut Context<'_>) -> Poll<Result<(), MyErr>> {
        match self.ready_sleep.as_mut() {
            None => Poll::Ready(Ok(())),
            Some(s) => s.as_mut().poll(cx).map(|_| Ok(())),
        }
    }
    fn call(&mut self, _req: u8) -> InnerFut {
        InnerFut {
            obs: self.obs.clone(),
            sleep: self.at.map(|ms| Box::pin(tokio::time::sleep(Duration::from_millis(ms)))),
            ok: self.ok,
            t0: self.t0,
            outer_done: self.outer_done.clone(),
        }
    }
}

fn timeout_err() -> MyErr {
    MyErr(999)
}

pub struct ToEngine;

impl Engine for ToEngine {
    type Case = ToCase;
    fn name(&self) -> &'static str {
        "timeout"
    }
    fn run_case(&self, c: &ToCase) -> CaseReport {
        let mut rep = CaseReport::default();
        let rt = tokio::runtime::Builder::new_current_thread().enable_time().start_paused(true).build().unwrap();
        let obs = Arc::new(Mutex::new(InnerObs::default()));
        let outer_done = Arc::new(Mutex::new(false));
        // very large durations ("no limit in practice"): u64::MAX stands for Duration::MAX, u64::MAX - 1
        // for half the u64 range in seconds; a panic on the way is the library's
        let dur_of = |ms: u64| -> Duration {
            match ms {
                u64::MAX => Duration::MAX,
                x if x == u64::MAX - 1 => Duration::from_secs(u64::MAX / 2),
                x => Duration::from_millis(x),
            }
        };
        let _ = crate::panichook::take_all();
        let run = std::panic::catch_unwind(std::panic::AssertUnwindSafe(|| rt.block_on(async {
            let t0 = Instant::now();
            let inner = InnerSvc {
                obs: obs.clone(),
                at: c.inner_at,
                ok: c.inner_ok,
                t0,
                outer_done: outer_done.clone(),
                ready_sleep: (c.ready_delay > 0).then(|| Box::pin(tokio::time::sleep(Duration::from_millis(c.ready_delay)))),
            };
            let mut svc = TimeoutLayer::new(timeout_err as fn() -> MyErr, dur_of(c.dur)).layer(inner);
            std::future::poll_fn(|cx| svc.poll_ready(cx)).await.unwrap();
            let issued = t0.elapsed().as_millis() as u64;
            let fut = svc.call(1u8);
            if c.first_poll_delay > 0 {
                tokio::time::sleep(Duration::from_millis(c.first_poll_delay)).await;
            }
            let mut fut = Box::pin(fut);
            let probed = if c.migrate || c.late_repoll.is_some() {
                let w = futures_util::task::noop_waker();
                let mut cx = std::task::Context::from_waker(&w);
                match fut.as_mut().poll(&mut cx) {
                    std::task::Poll::Ready(r) => Some(r),
                    std::task::Poll::Pending => None,
                }
            } else {
                None
            };
            let guard = match probed {
                Some(r) => {
                    drop(fut);
                    Ok(r)
                }
                None => {
                    if let Some(late) = c.late_repoll {
                        let at = t0 + Duration::from_millis(issued + late);
                        if at > Instant::now() {
                            tokio::time::sleep_until(at).await;
                        }
                    }
                    tokio::time::timeout(Duration::from_secs(3600), fut).await
                }
            };
            let resolved = t0.elapsed().as_millis() as u64;
            *outer_done.lock().unwrap() = true;
            // let time pass: nothing of the inner work may run any more
            tokio::time::sleep(Duration::from_millis(500)).await;
            for _ in 0..3 {
                tokio::task::yield_now().await;
            }
            (guard.ok(), issued, resolved)
        })));
        drop(rt);
        let (res, issued, resolved) = match run {
            Ok(x) => x,
            Err(_) => {
                let loc = crate::panichook::last_location();
                if crate::panichook::in_library(&loc) {
                    rep.violate("C19/panic-in-timeout-layer", format!("{c:?}: panic at {loc}: {}", crate::panichook::last_message()));
                } else {
                    rep.internal_error = Some(format!("harness panic at {loc}: {}", crate::panichook::last_message()));
                }
                return rep;
            }
        };
        let o = obs.lock().unwrap();
        let deadline = issued.saturating_add(c.dur);
        if c.dur >= u64::MAX - 1 {
            rep.class("huge-duration");
        }
        let inner_done = c.inner_at.map(|a| issued + a);
        let first_poll = issued + c.first_poll_delay;
        // the future is polled at `first_poll` and then continuously from `second_poll` on: an event at E
        // is seen at obs(E)
        let second_poll = c.late_repoll.map(|l| (issued + l).max(first_poll)).unwrap_or(first_poll);
        let obs = |e: u64| if e <= first_poll { first_poll } else { e.max(second_poll) };
        if second_poll > first_poll {
            rep.class("late-second-poll");
        }
        let desc = format!("{c:?}: issued at {issued}, deadline {deadline}, inner completes at {inner_done:?}, first poll at {first_poll}; resolved {res:?} at {resolved}; inner {o:?}");
        match &res {
            None => rep.violate("C19/never-resolves", desc.clone()),
            Some(r) => {
                let is_timeout = *r == Err(MyErr(999));
                let inner_val: Result<u32, MyErr> = if c.inner_ok { Ok(4242) } else { Err(MyErr(77)) };
                if !is_timeout && *r != inner_val {
                    rep.violate("C19/inner-result-altered", desc.clone());
                }
                let before = inner_done.map(|t| t < deadline).unwrap_or(false);
                let after = inner_done.map(|t| t > deadline).unwrap_or(true);
                if before {
                    if is_timeout {
                        rep.violate("C19/timeout-although-inner-resolved-first", desc.clone());
                    } else if resolved != obs(inner_done.unwrap()) {
                        rep.violate("C19/inner-result-delivered-late", desc.clone());
                    }
                } else if after {
                    // inner already complete when first polled after the deadline: either answer is a tie
                    let tie = inner_done.map(|t| t <= obs(deadline)).unwrap_or(false);
                    if !is_timeout && !tie {
                        rep.violate("C19/no-timeout-after-deadline", desc.clone());
                    }
                    if resolved > obs(deadline) {
                        rep.violate("C19/resolved-later-than-deadline", desc.clone());
                    }
                    if is_timeout && resolved < deadline {
                        rep.violate("C19/timeout-before-deadline", desc.clone());
                    }
                } else {
                    // exact tie: either, but not later than the deadline
                    if resolved > obs(deadline) {
                        rep.violate("C19/resolved-later-than-deadline", desc.clone());
                    }
                    rep.class("exact-tie");
                }
                if o.dropped_at.is_none() {
                    rep.violate("C19/inner-work-not-dropped", desc.clone());
                } else if o.dropped_at.unwrap() > resolved {
                    rep.violate("C19/inner-work-dropped-late", desc.clone());
                }
                if o.polls_after_done > 0 {
                    rep.violate("C19/inner-polled-after-resolution", desc.clone());
                }
                if is_timeout {
                    rep.class("timed-out");
                } else {
                    rep.class("inner-result");
                }
            }
        }
        if c.first_poll_delay > 0 {
            rep.class("delayed-first-poll");
        }
        if c.dur == 0 {
            rep.class("zero-duration");
        }
        rep.nontrivial = c.inner_at.map(|a| a != c.dur).unwrap_or(true) && (c.dur > 0 || c.inner_at.is_some());
        rep.total_ops = 1;
        rep
    }
}

pub fn exhaustive() -> Vec<ToCase> {
    let mut v = vec![];
    let grid = [0u64, 1, 10, 20, 30, 50];
    for dur in grid {
        for inner_at in std::iter::once(None).chain(grid.iter().copied().map(Some)) {
            for inner_ok in [true, false] {
                for first_poll_delay in [0u64, 5, 10, 25, 60] {
                    for ready_delay in [0u64, 7] {
                        v.push(ToCase { dur, inner_at, inner_ok, first_poll_delay, ready_delay, migrate: v.len() % 3 == 1, late_repoll: if v.len() % 5 == 2 { Some([15u64, 40, 120][v.len() / 5 % 3]) } else { None } });
                    }
                }
            }
        }
    }
    v
}

pub fn strategy() -> impl proptest::strategy::Strategy<Value = ToCase> {
    use proptest::prelude::*;
    (
        prop_oneof![4 => Just(0u64), 16 => 1u64..200, 1 => Just(u64::MAX), 1 => Just(u64::MAX - 1)],
        prop_oneof![1 => Just(None), 4 => (0u64..300).prop_map(Some)],
        any::<bool>(),
        prop_oneof![2 => Just(0u64), 1 => 1u64..250],
        prop_oneof![3 => Just(0u64), 1 => 1u64..30],
        prop_oneof![2 => Just(false), 1 => Just(true)],
        prop_oneof![3 => Just(None), 1 => (1u64..400).prop_map(Some)],
    )
        .prop_map(|(dur, inner_at, inner_ok, first_poll_delay, ready_delay, migrate, late_repoll)| ToCase {
            dur,
            // with a practically unlimited duration only a completing inner future terminates the case
            inner_at: if dur >= u64::MAX - 1 { Some(inner_at.unwrap_or(7)) } else { inner_at },
            inner_ok,
            first_poll_delay,
            ready_delay,
            migrate,
            late_repoll,
        })
}
