//! E6 `reqgrammar` (C13, C17): requests from a grammar through the public check layers, the pooled
//! service and the connector service (stub collaborators), and over the real HTTP connection builder
//! with a captured wire.
#![allow(dead_code)]

use std::future::Future;
use std::pin::Pin;
use std::sync::{Arc, Mutex};
use std::task::{Context, Poll};

use bytes::Bytes;
use http_body_util::Full;
use hyperdriver::client::conn::connection::ConnectionError;
use hyperdriver::client::conn::connector::ConnectorService;
use hyperdriver::client::conn::protocol::auto::HttpConnectionBuilder;
use hyperdriver::client::conn::protocol::{HttpProtocol, ProtocolRequest};
use hyperdriver::client::conn::Connection;
use hyperdriver::client::pool::{PoolableConnection, PoolableStream};
use hyperdriver::client::{ConnectionPoolService, PoolConfig};
use hyperdriver::info::{ConnectionInfo, HasConnectionInfo, HasTlsConnectionInfo, TlsConnectionInfo};
use hyperdriver::service::{ExecuteRequest, Http1ChecksLayer, Http2ChecksLayer, RequestExecutor, SetHostHeaderLayer};
use serde::{Deserialize, Serialize};
use tokio::io::{AsyncRead, AsyncWrite};
use tower::{Layer, Service, ServiceExt};

use crate::common::{CaseReport, Engine};

pub type B = Full<Bytes>;

pub const VERSIONS: [http::Version; 5] = [
    http::Version::HTTP_11,
    http::Version::HTTP_2,
    http::Version::HTTP_10,
    http::Version::HTTP_09,
    http::Version::HTTP_3,
];
pub const SCHEMES: &[&str] = &["http", "https", "ws", "wss", "ftp", "foo+bar"];
pub const HOSTS: &[&str] = &[
    "a.test", "example.com", "EXAMPLE.com", "127.0.0.1", "[::1]", "[2001:db8::7]", "localhost", "a..b", "ex!ample.com", "a_b.test", "xn--bcher-kva.example", "1.2.3.4.5", "-dash-.test", "x",
];
pub const METHODS: &[&str] = &["GET", "POST", "PUT", "DELETE", "HEAD", "OPTIONS", "CONNECT", "PATCH", "TRACE", "PURGE", "M-SEARCH"];
pub const PATHS: &[&str] = &["", "/", "/a/b", "/a%20b/", "//double", "/~user/;p=1", "/*", "/a/./../b", "/%", "/:@!$&'()+,=", "/index.html"];
pub const QUERIES: &[&str] = &["", "x=1", "a=1&b=2", "?", "q=%20+", "/path?again"];

/// Hosts from the URI grammar rather than the table: reg-names over unreserved / sub-delims /
/// pct-encoded characters, bracketed literals with arbitrary URI characters between the brackets
/// (IPv6, IPvFuture, nonsense, empty), very long names and labels. Only strings the `http` crate
/// accepts as the host of an absolute URI are kept. The alphabet cannot spell a name covered by
/// the fixture certificates.
pub fn generated_host_strategy() -> impl proptest::strategy::Strategy<Value = String> {
    use proptest::prelude::*;
    prop_oneof![
        4 => "[a-c0-2xXzZ._~!$&'()*+,;=-]{1,14}",
        2 => "[a-c0-2._-]{0,6}(%41|%2e|%7E|%zz|%)[a-c0-2._-]{0,6}",
        4 => "\\[[0-9a-fA-Fv:.+$%x!-]{0,14}\\]",
        1 => "\\[(::|::1|fe80::1%25x0|v1\\.fe80::a\\+x1|::ffff:1\\.2\\.3\\.4|1:2:3:4:5:6:7:8:9|[0-9a-f:]{2,30})\\]",
        1 => (1usize..5, 60usize..70).prop_map(|(n, l)| vec!["a".repeat(l); n].join(".")),
        1 => (250usize..300).prop_map(|l| format!("{}.test", "b".repeat(l))),
        1 => "[0-9]{1,3}\\.[0-9]{1,3}\\.[0-9]{1,3}(\\.[0-9]{1,4})?",
    ]
    .prop_filter("host accepted by the http crate", |h| format!("https://{h}/").parse::<http::Uri>().map(|u| u.host().is_some()).unwrap_or(false))
}

#[derive(Clone, Debug, Serialize, Deserialize, PartialEq)]
pub struct ReqCase {
    pub scheme: u8,
    pub host: u8,
    /// a generated host that replaces the table entry
    #[serde(default)]
    pub ghost: Option<String>,
    pub port: Option<u16>,
    pub path: u8,
    pub query: Option<u8>,
    /// 0 absolute, 1 origin (relative), 2 authority-only, 3 asterisk
    pub form: u8,
    pub method: u8,
    pub version: u8,
    pub caller_host: Option<u8>,
    /// bit 0 connection, 1 keep-alive, 2 proxy-connection, 3 transfer-encoding, 4 upgrade, 5 x-custom
    pub preset: u8,
    /// connection protocol reported by the stub connection in the layer leg / ALPN result otherwise
    pub conn_h2: bool,
    pub body: u8,
}

impl ReqCase {
    pub fn path_str(&self) -> &'static str {
        PATHS[self.path as usize % PATHS.len()]
    }
    pub fn query_str(&self) -> Option<&'static str> {
        self.query.map(|q| QUERIES[q as usize % QUERIES.len()])
    }
    pub fn host_str(&self) -> &str {
        match &self.ghost {
            Some(h) => h.as_str(),
            None => HOSTS[self.host as usize % HOSTS.len()],
        }
    }
    pub fn scheme_str(&self) -> &'static str {
        SCHEMES[self.scheme as usize % SCHEMES.len()]
    }
    pub fn method(&self) -> http::Method {
        http::Method::from_bytes(METHODS[self.method as usize % METHODS.len()].as_bytes()).unwrap()
    }
    pub fn version(&self) -> http::Version {
        VERSIONS[self.version as usize % VERSIONS.len()]
    }
    pub fn authority(&self) -> String {
        match self.port {
            Some(p) => format!("{}:{}", self.host_str(), p),
            None => self.host_str().to_string(),
        }
    }
    pub fn uri_string(&self) -> String {
        let pq = match self.query_str() {
            Some(q) => format!("{}?{}", self.path_str(), q),
            None => self.path_str().to_string(),
        };
        match self.form % 4 {
            0 => format!("{}://{}{}", self.scheme_str(), self.authority(), pq),
            1 => {
                if pq.is_empty() || !pq.starts_with('/') {
                    format!("/{}", pq.trim_start_matches('/'))
                } else {
                    pq
                }
            }
            2 => self.authority(),
            _ => "*".to_string(),
        }
    }
    pub fn caller_host_str(&self) -> Option<&'static str> {
        self.caller_host.map(|h| ["other.test", "a.test:99", "EXAMPLE.COM", "[::1]:8", "t\u{e9}st.example (as the single byte 0xE9: opaque header bytes)"][h as usize % 5])
    }
    /// the bytes of the caller's Host header: a header value is opaque bytes, not text
    pub fn caller_host_bytes(&self) -> Option<&'static [u8]> {
        self.caller_host.map(|h| [&b"other.test"[..], &b"a.test:99"[..], &b"EXAMPLE.COM"[..], &b"[::1]:8"[..], &b"t\xe9st.example"[..]][h as usize % 5])
    }
    /// Builds the request; None when the http crate rejects the URI (not a well-typed request).
    pub fn build(&self) -> Option<http::Request<B>> {
        let uri: http::Uri = self.uri_string().parse().ok()?;
        let mut b = http::Request::builder().method(self.method()).version(self.version()).uri(uri);
        if let Some(h) = self.caller_host_bytes() {
            b = b.header(http::header::HOST, http::HeaderValue::from_bytes(h).ok()?);
        }
        if self.preset & 1 != 0 {
            b = b.header(http::header::CONNECTION, "keep-alive, x-custom");
        }
        if self.preset & 2 != 0 {
            b = b.header("keep-alive", "timeout=5");
        }
        if self.preset & 4 != 0 {
            b = b.header("proxy-connection", "keep-alive");
        }
        if self.preset & 8 != 0 {
            b = b.header(http::header::TRANSFER_ENCODING, "chunked");
        }
        if self.preset & 16 != 0 {
            b = b.header(http::header::UPGRADE, "websocket");
        }
        if self.preset & 32 != 0 {
            b = b.header("x-custom", "kept");
        }
        let body: Vec<u8> = (0..self.body as usize).map(|i| b'a' + (i % 26) as u8).collect();
        b.body(Full::new(Bytes::from(body))).ok()
    }
}

// ------------------------------------------------------------------------------------------------
// stub collaborators

#[derive(Debug)]
pub struct StubErr(pub &'static str);
impl std::fmt::Display for StubErr {
    fn fmt(&self, f: &mut std::fmt::Formatter<'_>) -> std::fmt::Result {
        write!(f, "{}", self.0)
    }
}
impl std::error::Error for StubErr {}

#[derive(Debug, Clone, PartialEq, Eq, Hash)]
pub struct StubAddr;
impl std::fmt::Display for StubAddr {
    fn fmt(&self, f: &mut std::fmt::Formatter<'_>) -> std::fmt::Result {
        write!(f, "stub")
    }
}

#[derive(Debug)]
pub struct StubStream {
    alpn_h2: bool,
}
impl HasConnectionInfo for StubStream {
    type Addr = StubAddr;
    fn info(&self) -> ConnectionInfo<StubAddr> {
        ConnectionInfo { local_addr: StubAddr, remote_addr: StubAddr }
    }
}
impl PoolableStream for StubStream {
    fn can_share(&self) -> bool {
        false
    }
}

#[derive(Clone)]
pub struct StubTransport {
    alpn_h2: bool,
    /// the connect attempt fails (after one Pending): the caller must get the error, and nothing may
    /// touch the finished connect future again
    fail: bool,
    /// `poll_ready` answers Pending (with a wake-up) this many times before it is ready - a transport
    /// that limits its dials or warms up, as `tower::Service` allows
    not_ready: u8,
}
impl Service<http::request::Parts> for StubTransport {
    type Response = StubStream;
    type Error = StubErr;
    type Future = Pin<Box<dyn Future<Output = Result<StubStream, StubErr>> + Send>>;
    fn poll_ready(&mut self, cx: &mut Context<'_>) -> Poll<Result<(), StubErr>> {
        if self.not_ready > 0 {
            self.not_ready -= 1;
            cx.waker().wake_by_ref();
            return Poll::Pending;
        }
        Poll::Ready(Ok(()))
    }
    fn call(&mut self, _req: http::request::Parts) -> Self::Future {
        let (alpn_h2, fail) = (self.alpn_h2, self.fail);
        // an `async` block: polling it after completion panics, as most real transports do
        Box::pin(async move {
            if fail {
                tokio::task::yield_now().await;
                return Err(StubErr("scripted connect failure"));
            }
            Ok(StubStream { alpn_h2 })
        })
    }
}

#[derive(Clone)]
pub struct StubProtocol(pub u8);
impl Service<ProtocolRequest<StubStream, B>> for StubProtocol {
    type Response = StubConn;
    type Error = ConnectionError;
    type Future = std::future::Ready<Result<StubConn, ConnectionError>>;
    fn poll_ready(&mut self, cx: &mut Context<'_>) -> Poll<Result<(), ConnectionError>> {
        // not ready for a few polls, as the transport above
        if self.0 > 0 {
            self.0 -= 1;
            cx.waker().wake_by_ref();
            return Poll::Pending;
        }
        Poll::Ready(Ok(()))
    }
    fn call(&mut self, req: ProtocolRequest<StubStream, B>) -> Self::Future {
        // same decision as HttpConnectionBuilder::handshake
        let h2 = req.version == HttpProtocol::Http2 || req.transport.alpn_h2;
        std::future::ready(Ok(StubConn { h2 }))
    }
}

#[derive(Debug, Clone)]
pub struct StubConn {
    pub h2: bool,
}
impl Connection<B> for StubConn {
    type ResBody = B;
    type Error = StubErr;
    type Future = Pin<Box<dyn Future<Output = Result<http::Response<B>, StubErr>> + Send>>;
    fn send_request(&mut self, _request: http::Request<B>) -> Self::Future {
        Box::pin(async { Ok(http::Response::new(Full::new(Bytes::new()))) })
    }
    fn poll_ready(&mut self, _cx: &mut Context<'_>) -> Poll<Result<(), StubErr>> {
        Poll::Ready(Ok(()))
    }
    fn version(&self) -> http::Version {
        if self.h2 {
            http::Version::HTTP_2
        } else {
            http::Version::HTTP_11
        }
    }
}
impl PoolableConnection<B> for StubConn {
    fn is_open(&self) -> bool {
        true
    }
    fn can_share(&self) -> bool {
        self.h2
    }
    fn reuse(&mut self) -> Option<Self> {
        self.h2.then(|| self.clone())
    }
}

/// What reached the innermost service.
#[derive(Debug, Clone)]
pub struct Seen {
    pub conn_h2: bool,
    pub method: http::Method,
    pub target: String,
    pub version: http::Version,
    pub headers: http::HeaderMap,
}

/// The innermost service. Every value (the original and each clone) answers Pending - with a wake-up -
/// from its first `poll_ready`, as a service that warms up may; `call` works either way (the unchanged
/// pooled and connector services call their clone without polling it).
pub struct Recorder(pub Arc<Mutex<Vec<Seen>>>, pub u8);
impl Clone for Recorder {
    fn clone(&self) -> Self {
        Recorder(self.0.clone(), 1)
    }
}

impl<C> Service<ExecuteRequest<C, B>> for Recorder
where
    C: Connection<B>,
{
    type Response = http::Response<B>;
    type Error = hyperdriver::client::Error;
    type Future = std::future::Ready<Result<http::Response<B>, hyperdriver::client::Error>>;
    fn poll_ready(&mut self, cx: &mut Context<'_>) -> Poll<Result<(), Self::Error>> {
        if self.1 > 0 {
            self.1 -= 1;
            cx.waker().wake_by_ref();
            return Poll::Pending;
        }
        Poll::Ready(Ok(()))
    }
    fn call(&mut self, req: ExecuteRequest<C, B>) -> Self::Future {
        let conn_h2 = req.connection().version() == http::Version::HTTP_2;
        let r = req.request();
        self.0.lock().unwrap().push(Seen {
            conn_h2,
            method: r.method().clone(),
            target: r.uri().to_string(),
            version: r.version(),
            headers: r.headers().clone(),
        });
        std::future::ready(Ok(http::Response::new(Full::new(Bytes::new()))))
    }
}

// ------------------------------------------------------------------------------------------------
// the C13 oracle over what the innermost service saw

pub fn default_port(scheme: &str) -> Option<u16> {
    match scheme {
        "http" | "ws" => Some(80),
        "https" | "wss" => Some(443),
        _ => None,
    }
}

pub fn check_seen(c: &ReqCase, seen: &Seen, leg: &str, rep: &mut CaseReport) {
    let desc = format!("[{leg}] request {} {} {:?} (caller Host {:?}, preset {:#x}) on an {} connection reached the wire layer as {} {} {:?} headers {:?}", c.method(), c.uri_string(), c.version(), c.caller_host_str(), c.preset, if seen.conn_h2 { "HTTP/2" } else { "HTTP/1" }, seen.method, seen.target, seen.version, seen.headers);
    if seen.method != c.method() {
        rep.violate("C13/method-changed", desc.clone());
    }
    if c.preset & 32 != 0 && seen.headers.get("x-custom").map(|v| v.as_bytes()) != Some(b"kept") {
        rep.violate("C13/unrelated-header-lost", desc.clone());
    }
    if seen.conn_h2 {
        if seen.version != http::Version::HTTP_2 {
            rep.violate("C13/h2-version-not-set", desc.clone());
        }
        for h in ["connection", "proxy-connection", "keep-alive", "transfer-encoding", "upgrade", "host"] {
            if seen.headers.contains_key(h) {
                rep.violate(format!("C13/h2-forbidden-header-{h}"), desc.clone());
            }
        }
        if c.method() == http::Method::CONNECT {
            rep.violate("C13/h2-connect-not-rejected", desc.clone());
        }
    } else {
        let form = c.form % 4;
        // request target
        if c.method() == http::Method::CONNECT {
            if form == 0 || form == 2 {
                let want = c.authority();
                if !seen.target.eq_ignore_ascii_case(&want) {
                    rep.violate("C13/h1-connect-target-not-authority-form", format!("{desc}; expected target {want}"));
                }
            }
        } else if form == 0 {
            let path = if c.path_str().is_empty() { "/" } else { c.path_str() };
            let want = match c.query_str() {
                Some(q) => format!("{path}?{q}"),
                None => path.to_string(),
            };
            if seen.target != want {
                rep.violate("C13/h1-target-not-origin-form", format!("{desc}; expected target {want}"));
            }
        }
        // Host header
        let hosts: Vec<&http::HeaderValue> = seen.headers.get_all("host").iter().collect();
        match c.caller_host_bytes() {
            // (the wire leg re-parses the captured head as text: opaque bytes are not compared there)
            Some(h) if leg == "wire" && !h.is_ascii() => {
                let _ = h;
            }
            Some(h) => {
                let h = String::from_utf8_lossy(h);
                if hosts.len() != 1 || hosts[0].as_bytes() != c.caller_host_bytes().unwrap_or_default() {
                    rep.violate("C13/h1-caller-host-overridden", format!("{desc}; caller supplied Host {h}"));
                }
            }
            None => {
                // an authority-form string such as "*" parses as another URI form: the expectation only
                // applies when the request's URI really carries this host as its authority
                let has_authority = c.build().map(|r| r.uri().host().map(|h| h.eq_ignore_ascii_case(c.host_str())).unwrap_or(false)).unwrap_or(false);
                if (form == 0 || form == 2) && has_authority {
                    let scheme = if form == 0 { c.scheme_str() } else { "" };
                    let host = c.host_str();
                    let mut allowed: Vec<String> = vec![];
                    match (c.port, default_port(scheme)) {
                        (None, _) => allowed.push(host.to_string()),
                        (Some(p), Some(d)) if p == d => allowed.push(host.to_string()),
                        (Some(p), Some(_)) => allowed.push(format!("{host}:{p}")),
                        // schemes without a known default port (and authority-form): either is accepted
                        (Some(p), None) => {
                            allowed.push(format!("{host}:{p}"));
                            if p == 80 || p == 443 {
                                allowed.push(host.to_string());
                            }
                        }
                    }
                    let ok = hosts.len() == 1 && allowed.iter().any(|a| hosts[0].as_bytes().eq_ignore_ascii_case(a.as_bytes()));
                    if !ok {
                        rep.violate("C13/h1-host-header-wrong", format!("{desc}; expected Host in {allowed:?}"));
                    }
                }
            }
        }
    }
}

// ------------------------------------------------------------------------------------------------
// wire leg: real HttpConnectionBuilder over a captured stream

pub struct WireStream {
    inner: tokio::io::DuplexStream,
    tls: Option<TlsConnectionInfo>,
}
impl HasConnectionInfo for WireStream {
    type Addr = StubAddr;
    fn info(&self) -> ConnectionInfo<StubAddr> {
        ConnectionInfo { local_addr: StubAddr, remote_addr: StubAddr }
    }
}
impl HasTlsConnectionInfo for WireStream {
    fn tls_info(&self) -> Option<&TlsConnectionInfo> {
        self.tls.as_ref()
    }
}
impl AsyncRead for WireStream {
    fn poll_read(mut self: Pin<&mut Self>, cx: &mut Context<'_>, buf: &mut tokio::io::ReadBuf<'_>) -> Poll<std::io::Result<()>> {
        Pin::new(&mut self.inner).poll_read(cx, buf)
    }
}
impl AsyncWrite for WireStream {
    fn poll_write(mut self: Pin<&mut Self>, cx: &mut Context<'_>, buf: &[u8]) -> Poll<std::io::Result<usize>> {
        Pin::new(&mut self.inner).poll_write(cx, buf)
    }
    fn poll_flush(mut self: Pin<&mut Self>, cx: &mut Context<'_>) -> Poll<std::io::Result<()>> {
        Pin::new(&mut self.inner).poll_flush(cx)
    }
    fn poll_shutdown(mut self: Pin<&mut Self>, cx: &mut Context<'_>) -> Poll<std::io::Result<()>> {
        Pin::new(&mut self.inner).poll_shutdown(cx)
    }
}

const H2_PREFACE: &[u8] = b"PRI * HTTP/2.0\r\n\r\nSM\r\n\r\n";

/// Returns (connection version, captured client bytes, result description)
async fn wire_run(c: &ReqCase, req: http::Request<B>) -> Result<(http::Version, Vec<u8>), String> {
    use hyperdriver::client::conn::Protocol as _;
    use tokio::io::{AsyncReadExt, AsyncWriteExt};
    let (client, mut peer) = tokio::io::duplex(1 << 16);
    // without h2: nothing negotiated, http/1.1, or a protocol id that says nothing about HTTP/2 ("h3", a foreign one)
    let alpn = if c.conn_h2 {
        Some(hyperdriver::info::Protocol::Http(http::Version::HTTP_2))
    } else {
        match (c.preset >> 6) & 3 {
            0 => None,
            1 => Some(hyperdriver::info::Protocol::Http(http::Version::HTTP_11)),
            2 => Some(hyperdriver::info::Protocol::Http(http::Version::HTTP_3)),
            _ => Some(hyperdriver::info::Protocol::Other("spdy/3".to_string())),
        }
    };
    let tls = (c.scheme_str() == "https" || c.scheme_str() == "wss" || alpn.is_some()).then(|| TlsConnectionInfo { server_name: None, validated_server_name: false, alpn });
    let stream = WireStream { inner: client, tls };
    let proto: HttpProtocol = std::panic::catch_unwind(|| HttpProtocol::from(c.version())).map_err(|_| "version conversion panicked".to_string())?;
    let mut builder: HttpConnectionBuilder<B> = HttpConnectionBuilder::default();
    // the peer answers an h2 handshake with an empty SETTINGS frame so the client can proceed
    let peer_task = tokio::spawn(async move {
        let mut captured = vec![];
        let mut buf = [0u8; 4096];
        let mut sent_settings = false;
        loop {
            match tokio::time::timeout(std::time::Duration::from_millis(50), peer.read(&mut buf)).await {
                Ok(Ok(0)) | Ok(Err(_)) | Err(_) => break,
                Ok(Ok(n)) => {
                    captured.extend_from_slice(&buf[..n]);
                    if !sent_settings && captured.starts_with(H2_PREFACE) {
                        sent_settings = true;
                        let _ = peer.write_all(&[0, 0, 0, 4, 0, 0, 0, 0, 0]).await;
                    }
                }
            }
        }
        captured
    });
    let conn = builder.connect(stream, proto).await.map_err(|e| format!("handshake: {e}"))?;
    let version = conn.version();
    let stack = tower::ServiceBuilder::new()
        .layer(SetHostHeaderLayer::new())
        .layer(Http2ChecksLayer::new())
        .layer(Http1ChecksLayer::new())
        .service(RequestExecutor::new());
    let fut = stack.oneshot(ExecuteRequest::new(conn, req));
    // the peer never answers: give the request time to be written, then give up
    let _ = tokio::time::timeout(std::time::Duration::from_millis(20), fut).await;
    let captured = peer_task.await.map_err(|e| format!("peer task: {e}"))?;
    Ok((version, captured))
}

// ------------------------------------------------------------------------------------------------
// engine

pub struct ReqEngine {
    /// "C13" or "C17"
    pub prop: &'static str,
}

fn lib_panics(rep: &mut CaseReport, leg: &str, c: &ReqCase) {
    for (loc, msg) in crate::panichook::take_all() {
        if crate::panichook::in_library(&loc) {
            let file = loc.rsplit('/').next().unwrap_or(&loc).split(':').next().unwrap_or("").to_string();
            let words: String = msg.split_whitespace().take(4).collect::<Vec<_>>().join("-").chars().filter(|c| c.is_ascii_alphanumeric() || *c == '-' || *c == '_').collect();
            rep.violate(
                format!("C17/panic-in-{}/{}", file.trim_end_matches(".rs"), words),
                format!("[{leg}] request {} {} {:?} made the client panic at {loc}: {msg}", c.method(), c.uri_string(), c.version()),
            );
        } else {
            rep.internal_error = Some(format!("harness panic at {loc}: {msg}"));
        }
    }
}

impl Engine for ReqEngine {
    type Case = ReqCase;
    fn name(&self) -> &'static str {
        "reqgrammar"
    }
    fn run_case(&self, c: &ReqCase) -> CaseReport {
        let mut rep = CaseReport::default();
        let _ = crate::panichook::take_all();
        let Some(_probe) = c.build() else {
            rep.class("rejected-by-http-crate");
            return rep;
        };
        let rt = tokio::runtime::Builder::new_current_thread().enable_time().start_paused(true).build().unwrap();

        // ---- leg 1: the three public check layers over a stub connection
        {
            let rec = Recorder(Default::default(), 1);
            let stack = tower::ServiceBuilder::new()
                .layer(SetHostHeaderLayer::new())
                .layer(Http2ChecksLayer::new())
                .layer(Http1ChecksLayer::new())
                .service(rec.clone());
            let req = c.build().unwrap();
            let conn = StubConn { h2: c.conn_h2 };
            let res = std::panic::catch_unwind(std::panic::AssertUnwindSafe(|| rt.block_on(stack.oneshot(ExecuteRequest::new(conn, req)))));
            lib_panics(&mut rep, "layers", c);
            if let Ok(res) = res {
                let seen = rec.0.lock().unwrap().clone();
                match (&res, seen.first()) {
                    (Ok(_), Some(s)) => check_seen(c, s, "layers", &mut rep),
                    (Err(e), _) => {
                        let is_connect_h2 = c.conn_h2 && c.method() == http::Method::CONNECT;
                        if is_connect_h2 {
                            if !matches!(e, hyperdriver::client::Error::InvalidMethod(_)) {
                                rep.violate("C13/h2-connect-wrong-error", format!("CONNECT on an HTTP/2 connection failed with {e:?}"));
                            }
                            rep.class("h2-connect-rejected");
                        }
                    }
                    (Ok(_), None) => rep.internal_error = Some("ok without reaching the recorder".into()),
                }
            }
        }

        // ---- leg 2: pooled / unpooled service and connector service with stub transport+protocol
        for (leg, pooled) in [("pool-service", true), ("pool-service-without-pool", false)] {
            let rec = Recorder(Default::default(), 1);
            let inner = tower::ServiceBuilder::new()
                .layer(SetHostHeaderLayer::new())
                .layer(Http2ChecksLayer::new())
                .layer(Http1ChecksLayer::new())
                .service(rec.clone());
            let mut svc: ConnectionPoolService<StubTransport, StubProtocol, _, B> =
                ConnectionPoolService::new(StubTransport { alpn_h2: c.conn_h2, fail: c.body % 7 == 3, not_ready: (c.body / 7) % 3 }, StubProtocol((c.body / 21) % 3), inner, PoolConfig::default());
            if !pooled {
                svc = svc.without_pool();
            }
            let req = c.build().unwrap();
            let res = std::panic::catch_unwind(std::panic::AssertUnwindSafe(|| {
                rt.block_on(async {
                    let r1 = svc.call(req).await;
                    // a second, identical request exercises the reuse path
                    let r2 = svc.call(c.build().unwrap()).await;
                    for _ in 0..3 {
                        tokio::task::yield_now().await;
                    }
                    (r1.is_ok(), r2.is_ok())
                })
            }));
            lib_panics(&mut rep, leg, c);
            if res.is_ok() {
                let expect_h2 = c.version() == http::Version::HTTP_2 || c.conn_h2;
                for s in rec.0.lock().unwrap().iter() {
                    if s.conn_h2 != expect_h2 {
                        rep.violate("C13/wrong-protocol-selected", format!("[{leg}] request version {:?}, ALPN h2 {}: connection is HTTP/{}", c.version(), c.conn_h2, if s.conn_h2 { 2 } else { 1 }));
                    }
                    check_seen(c, s, leg, &mut rep);
                }
            }
        }
        {
            let rec = Recorder(Default::default(), 1);
            let inner = tower::ServiceBuilder::new()
                .layer(SetHostHeaderLayer::new())
                .layer(Http2ChecksLayer::new())
                .layer(Http1ChecksLayer::new())
                .service(rec.clone());
            let mut svc = ConnectorService::new(inner, StubTransport { alpn_h2: c.conn_h2, fail: c.body % 7 == 3, not_ready: (c.body / 7) % 3 }, StubProtocol((c.body / 21) % 3));
            let req = c.build().unwrap();
            let _ = std::panic::catch_unwind(std::panic::AssertUnwindSafe(|| rt.block_on(async { svc.ready().await?.call(req).await })));
            lib_panics(&mut rep, "connector-service", c);
            let expect_h2 = c.version() == http::Version::HTTP_2 || c.conn_h2;
            for s in rec.0.lock().unwrap().iter() {
                if s.conn_h2 != expect_h2 {
                    rep.violate("C13/wrong-protocol-selected", format!("[connector-service] request version {:?}, ALPN h2 {}: connection is HTTP/{}", c.version(), c.conn_h2, if s.conn_h2 { 2 } else { 1 }));
                }
                check_seen(c, s, "connector-service", &mut rep);
            }
        }

        // ---- leg 3: the real HTTP connection builder, bytes captured on the wire
        if self.prop == "C13" || c.body % 4 == 0 {
            let req = c.build().unwrap();
            let res = std::panic::catch_unwind(std::panic::AssertUnwindSafe(|| rt.block_on(wire_run(c, req))));
            lib_panics(&mut rep, "wire", c);
            if let Ok(Ok((version, captured))) = res {
                let want_h2 = c.version() == http::Version::HTTP_2 || c.conn_h2;
                let is_h2 = version == http::Version::HTTP_2;
                let has_preface = captured.starts_with(H2_PREFACE);
                if is_h2 != want_h2 || has_preface != want_h2 {
                    rep.violate(
                        "C13/wire-wrong-protocol",
                        format!("request version {:?}, ALPN h2 {}: connection reports {version:?}, preface on the wire: {has_preface}", c.version(), c.conn_h2),
                    );
                }
                rep.class(if is_h2 { "wire-h2" } else { "wire-h1" });
                if !is_h2 && !captured.is_empty() {
                    // parse the HTTP/1 request head from the wire
                    let text = String::from_utf8_lossy(&captured).to_string();
                    let mut lines = text.split("\r\n");
                    let first = lines.next().unwrap_or("");
                    let mut parts = first.splitn(3, ' ');
                    let m = parts.next().unwrap_or("");
                    let target = parts.next().unwrap_or("").to_string();
                    // "... and HTTP/1.1 otherwise": whatever version label the caller's request carried
                    let proto = parts.next().unwrap_or("");
                    if proto != "HTTP/1.1" {
                        rep.violate("C13/wire-h1-request-line-not-http11", format!("request labelled {:?} on an HTTP/1 connection went out as {first:?}", c.version()));
                    }
                    let mut headers = http::HeaderMap::new();
                    for l in lines {
                        if l.is_empty() {
                            break;
                        }
                        if let Some((k, v)) = l.split_once(':') {
                            if let (Ok(k), Ok(v)) = (http::HeaderName::from_bytes(k.trim().as_bytes()), http::HeaderValue::from_str(v.trim())) {
                                headers.append(k, v);
                            }
                        }
                    }
                    if let Ok(method) = http::Method::from_bytes(m.as_bytes()) {
                        let seen = Seen { conn_h2: false, method, target, version: http::Version::HTTP_11, headers };
                        check_seen(c, &seen, "wire", &mut rep);
                        rep.class("wire-h1-request-parsed");
                    }
                }
            }
        }
        drop(rt);
        lib_panics(&mut rep, "teardown", c);

        // classes
        let plain = c.method() == http::Method::GET && c.form % 4 == 0 && c.scheme_str() == "http" && c.caller_host.is_none() && c.preset == 0 && c.version() == http::Version::HTTP_11 && c.path_str() == "/" && c.query.is_none();
        rep.nontrivial = !plain;
        match c.form % 4 {
            0 => rep.class("absolute-form"),
            1 => rep.class("origin-form"),
            2 => rep.class("authority-form"),
            _ => rep.class("asterisk-form"),
        }
        if c.method() == http::Method::CONNECT {
            rep.class("connect");
        }
        if c.conn_h2 || c.version() == http::Version::HTTP_2 {
            rep.class("h2-connection");
        }
        if matches!(c.version(), http::Version::HTTP_09 | http::Version::HTTP_3) {
            rep.class("unusual-version");
        }
        if c.host_str().starts_with('[') {
            rep.class("ipv6-host");
        }
        rep.total_ops = 1;
        // keep only this property's violations
        let prefix = format!("{}/", self.prop);
        rep.violations.retain(|v| v.sig.starts_with(&prefix));
        rep
    }
}

pub fn strategy() -> impl proptest::strategy::Strategy<Value = ReqCase> {
    use proptest::prelude::*;
    (
        (0u8..6, 0u8..14, prop_oneof![3 => Just(None), 1 => Just(Some(80u16)), 1 => Just(Some(443u16)), 1 => Just(Some(8080u16)), 1 => any::<u16>().prop_map(Some)], prop_oneof![3 => Just(None), 1 => generated_host_strategy().prop_map(Some)]),
        (0u8..11, prop_oneof![2 => Just(None), 3 => (0u8..6).prop_map(Some)]),
        prop_oneof![6 => Just(0u8), 2 => Just(1u8), 1 => Just(2u8), 1 => Just(3u8)],
        prop_oneof![3 => Just(0u8), 2 => 1u8..6, 2 => Just(6u8), 2 => 6u8..11],
        prop_oneof![4 => Just(0u8), 3 => Just(1u8), 1 => Just(2u8), 1 => Just(3u8), 1 => Just(4u8)],
        prop_oneof![3 => Just(None), 1 => (0u8..5).prop_map(Some)],
        prop_oneof![2 => Just(0u8), 3 => any::<u8>()],
        any::<bool>(),
        prop_oneof![2 => Just(0u8), 1 => 1u8..40],
    )
        .prop_map(|((scheme, host, port, ghost), (path, query), form, method, version, caller_host, preset, conn_h2, body)| ReqCase {
            scheme,
            host,
            ghost,
            port,
            path,
            query,
            form,
            method,
            version,
            caller_host,
            preset,
            conn_h2,
            body,
        })
}

// ------------------------------------------------------------------------------------------------
// C17 through the real TCP transports: the request grammar's URIs (and a table of degenerate but
// well-typed ones: empty host, user information only, bare brackets, missing ports, schemes without a
// default port) go into `TcpTransport` and `SimpleTcpTransport` as `tower::Service<Parts>`, and into the
// default client (`Client::build_tcp_http`). The resolver answers with an empty list or with an address
// nobody listens on, so no request leaves the machine: an error is fine, a panic is not.

pub const DEGENERATE_URIS: &[&str] = &[
    "http://:8080/",
    "http://:/",
    "http://user@:80/x",
    "http://user:pw@/",
    "http://[::1]/",
    "http://[::1]:/",
    "https://[::]/",
    "http://a.test:/",
    "http://a.test:0/",
    "http://a.test:65535/",
    "ws://a.test/",
    "custom://a.test/",
    "custom://:1/",
    "//a.test/x",
    "/only/a/path",
    "*",
    "a.test:443",
    ":443",
    "http://%41.test/",
    "http://a..test/",
    "http://-/",
    "http://./",
];

#[derive(Clone, Debug, Serialize, Deserialize, PartialEq)]
pub struct TcpUriCase {
    pub req: ReqCase,
    /// index into DEGENERATE_URIS replacing the generated URI
    pub special: Option<u8>,
    /// 0 TcpTransport, 1 SimpleTcpTransport, 2 Client::build_tcp_http
    pub via: u8,
    /// the resolver answers with nothing (false) or with one loopback address whose port is held closed (true)
    pub answer: bool,
    /// transport configuration: bits 0-1 happy-eyeballs concurrency (None, Some(0), Some(1), Some(2)),
    /// bit 2 no happy-eyeballs timeout, bit 3 no connect timeout
    #[serde(default)]
    pub cfgsel: u8,
}

pub struct TcpUriEngine;

impl Engine for TcpUriEngine {
    type Case = TcpUriCase;
    fn name(&self) -> &'static str {
        "tcpuri"
    }
    fn run_case(&self, c: &TcpUriCase) -> CaseReport {
        use hyperdriver::client::conn::dns::FirstAddrExt;
        use hyperdriver::client::conn::transport::tcp::{SimpleTcpTransport, TcpTransport, TcpTransportConfig};
        use hyperdriver::stream::tcp::TcpStream;
        use tower::ServiceExt;
        let mut rep = CaseReport::default();
        let _ = crate::panichook::take_all();
        let uri_text = match c.special {
            Some(i) => DEGENERATE_URIS[i as usize % DEGENERATE_URIS.len()].to_string(),
            None => c.req.uri_string(),
        };
        let Ok(uri) = uri_text.parse::<http::Uri>() else {
            rep.class("rejected-by-http-crate");
            return rep;
        };
        if c.special.is_some() {
            rep.class("degenerate-uri");
        }
        if uri.host() == Some("") {
            rep.class("empty-host");
        }
        let rt = tokio::runtime::Builder::new_current_thread().enable_all().build().unwrap();
        let via = c.via % 3;
        let answer = c.answer;
        let cfgsel = c.cfgsel;
        let method = c.req.method();
        let version = c.req.version();
        let uri2 = uri.clone();
        let r = std::panic::catch_unwind(std::panic::AssertUnwindSafe(|| {
            rt.block_on(async move {
                // an address nobody can connect to: bound, never listening
                let holder = crate::engines::addrsort::bound_unlistened("127.0.0.1:0".parse().unwrap()).ok();
                let addr = holder.as_ref().and_then(|h| h.local_addr().ok()).and_then(|a| a.as_socket());
                let list = match (answer, addr) {
                    (true, Some(a)) => vec![a],
                    _ => vec![],
                };
                let mut cfg = TcpTransportConfig::default();
                cfg.connect_timeout = if cfgsel & 8 != 0 { None } else { Some(std::time::Duration::from_millis(300)) };
                cfg.happy_eyeballs_timeout = if cfgsel & 4 != 0 { None } else { Some(std::time::Duration::from_millis(300)) };
                cfg.happy_eyeballs_concurrency = [None, Some(0), Some(1), Some(2)][(cfgsel & 3) as usize];
                // (a resolver whose readiness lives in the value that was polled, and which panics when called unready)
                let resolver = crate::engines::addrsort::strict_resolver(list);
                let fut = async {
                    match via {
                        0 => {
                            let t: TcpTransport<_, TcpStream> = TcpTransport::builder().with_config(cfg).with_resolver(resolver).build();
                            let parts = http::Request::builder().method(method).version(version).uri(uri2).body(()).unwrap().into_parts().0;
                            t.oneshot(parts).await.map(|_| ()).map_err(|e| e.to_string())
                        }
                        1 => {
                            let t: SimpleTcpTransport<_, TcpStream> = SimpleTcpTransport::new(cfg, resolver.first_addr());
                            let parts = http::Request::builder().method(method).version(version).uri(uri2).body(()).unwrap().into_parts().0;
                            t.oneshot(parts).await.map(|_| ()).map_err(|e| e.to_string())
                        }
                        _ => {
                            let mut client = hyperdriver::Client::build_tcp_http().with_timeout(std::time::Duration::from_millis(400)).build();
                            let req = http::Request::builder().method(method).version(version).uri(uri2).body(hyperdriver::Body::empty()).unwrap();
                            // the system resolver is only asked for names that cannot exist (.test / degenerate)
                            client.request(req).await.map(|_| ()).map_err(|e| e.to_string())
                        }
                    }
                };
                let out = tokio::time::timeout(std::time::Duration::from_secs(3), fut).await;
                drop(holder);
                out.map_err(|_| ()).ok()
            })
        }));
        drop(rt);
        let desc = format!("{} {uri_text} {:?} through {}", c.req.method(), c.req.version(), ["TcpTransport", "SimpleTcpTransport", "Client::build_tcp_http"][via as usize]);
        let panics: Vec<(String, String)> = crate::panichook::take_all();
        for (loc, msg) in &panics {
            if crate::panichook::in_library(loc) {
                let file = loc.rsplit('/').next().unwrap_or(loc).split(':').next().unwrap_or("").to_string();
                rep.violate(format!("C17/panic-in-{}/tcp-transport-uri-handling", file.trim_end_matches(".rs")), format!("{desc}: panic at {loc}: {msg}"));
            } else if msg.contains(crate::engines::addrsort::OUT_OF_CONTRACT) {
                // the panic is raised by the resolver, as `tower::limit` services do - because the library
                // called a value it had not polled ready; the caller's request panics instead of returning
                rep.violate("C17/collaborator-called-out-of-contract/resolver", format!("{desc}: {msg}"));
            }
        }
        if r.is_err() && rep.violations.is_empty() {
            rep.internal_error = Some(format!("harness panic at {}: {}", crate::panichook::last_location(), crate::panichook::last_message()));
        }
        rep.class(["via-tcp-transport", "via-simple-tcp-transport", "via-default-tcp-client"][via as usize]);
        rep.nontrivial = true;
        rep.total_ops = 1;
        rep
    }
}

pub fn tcpuri_strategy() -> impl proptest::strategy::Strategy<Value = TcpUriCase> {
    use proptest::prelude::*;
    (strategy(), prop_oneof![2 => Just(None), 1 => (0u8..DEGENERATE_URIS.len() as u8).prop_map(Some)], prop_oneof![3 => Just(0u8), 3 => Just(1u8), 1 => Just(2u8)], any::<bool>(), 0u8..16).prop_map(|(req, special, via, answer, cfgsel)| TcpUriCase { req, special, via, answer, cfgsel })
}

// ------------------------------------------------------------------------------------------------
// The pooled service with the crate's own `RequestExecutor` as its inner service and a single-use
// connection that - like the crate's mock connection - always reports itself ready and open: what keeps
// a second request off such a connection is that the first request *holds its handle* until its
// response has arrived. Responses are gated by the case (C02).

#[derive(Clone, Debug, Serialize, Deserialize, PartialEq)]
pub struct ExecCase {
    /// requests issued one after the other while no response has arrived yet
    pub burst: u8,
    /// responses released before the second batch of requests
    pub released: u8,
    /// requests issued after that
    pub later: u8,
}

#[derive(Default)]
pub struct ExecShared {
    dialed: std::sync::atomic::AtomicUsize,
    /// (request, connection, requests in flight on that connection when it was sent - itself included)
    sent: Mutex<Vec<(usize, usize, usize)>>,
}

pub struct GateConn {
    id: usize,
    in_flight: Arc<std::sync::atomic::AtomicUsize>,
    shared: Arc<ExecShared>,
    gate: Arc<tokio::sync::Semaphore>,
}
impl Connection<B> for GateConn {
    type ResBody = B;
    type Error = StubErr;
    type Future = Pin<Box<dyn Future<Output = Result<http::Response<B>, StubErr>> + Send>>;
    fn send_request(&mut self, request: http::Request<B>) -> Self::Future {
        use std::sync::atomic::Ordering;
        let now = self.in_flight.fetch_add(1, Ordering::SeqCst) + 1;
        let rid: usize = request.headers().get("x-rid").and_then(|v| v.to_str().ok()).and_then(|v| v.parse().ok()).unwrap_or(usize::MAX);
        self.shared.sent.lock().unwrap().push((rid, self.id, now));
        let (in_flight, gate) = (self.in_flight.clone(), self.gate.clone());
        Box::pin(async move {
            if let Ok(p) = gate.acquire().await {
                p.forget();
            }
            in_flight.fetch_sub(1, Ordering::SeqCst);
            Ok(http::Response::new(Full::new(Bytes::new())))
        })
    }
    fn poll_ready(&mut self, _cx: &mut Context<'_>) -> Poll<Result<(), StubErr>> {
        Poll::Ready(Ok(()))
    }
    fn version(&self) -> http::Version {
        http::Version::HTTP_11
    }
}
impl PoolableConnection<B> for GateConn {
    fn is_open(&self) -> bool {
        true
    }
    fn can_share(&self) -> bool {
        false
    }
    fn reuse(&mut self) -> Option<Self> {
        None
    }
}

#[derive(Clone)]
pub struct GateProtocol {
    shared: Arc<ExecShared>,
    gate: Arc<tokio::sync::Semaphore>,
}
impl Service<ProtocolRequest<StubStream, B>> for GateProtocol {
    type Response = GateConn;
    type Error = ConnectionError;
    type Future = std::future::Ready<Result<GateConn, ConnectionError>>;
    fn poll_ready(&mut self, _: &mut Context<'_>) -> Poll<Result<(), ConnectionError>> {
        Poll::Ready(Ok(()))
    }
    fn call(&mut self, _req: ProtocolRequest<StubStream, B>) -> Self::Future {
        let id = self.shared.dialed.fetch_add(1, std::sync::atomic::Ordering::SeqCst);
        std::future::ready(Ok(GateConn { id, in_flight: Default::default(), shared: self.shared.clone(), gate: self.gate.clone() }))
    }
}

pub struct ExecHeldEngine;

impl Engine for ExecHeldEngine {
    type Case = ExecCase;
    fn name(&self) -> &'static str {
        "execheld"
    }
    fn run_case(&self, c: &ExecCase) -> CaseReport {
        let mut rep = CaseReport::default();
        let _ = crate::panichook::take_all();
        let rt = tokio::runtime::Builder::new_current_thread().enable_time().start_paused(true).build().unwrap();
        let shared: Arc<ExecShared> = Default::default();
        let shared2 = shared.clone();
        let c2 = c.clone();
        let res = std::panic::catch_unwind(std::panic::AssertUnwindSafe(|| {
            rt.block_on(async move {
                let gate = Arc::new(tokio::sync::Semaphore::new(0));
                let svc: ConnectionPoolService<StubTransport, GateProtocol, RequestExecutor<_, B>, B> =
                    ConnectionPoolService::new(StubTransport { alpn_h2: false, fail: false, not_ready: 0 }, GateProtocol { shared: shared2, gate: gate.clone() }, RequestExecutor::new(), PoolConfig::default());
                let settle = || async {
                    for _ in 0..40 {
                        tokio::task::yield_now().await;
                    }
                };
                let mut tasks = vec![];
                let mut rid = 0usize;
                let burst = (c2.burst as usize).clamp(1, 4);
                let later = (c2.later as usize).min(3);
                for _ in 0..burst {
                    let req = http::Request::builder().uri("http://exec.test/").header("x-rid", rid).body(Full::new(Bytes::new())).unwrap();
                    rid += 1;
                    tasks.push(tokio::spawn(svc.clone().oneshot(req)));
                    settle().await;
                }
                gate.add_permits((c2.released as usize).min(burst));
                settle().await;
                for _ in 0..later {
                    let req = http::Request::builder().uri("http://exec.test/").header("x-rid", rid).body(Full::new(Bytes::new())).unwrap();
                    rid += 1;
                    tasks.push(tokio::spawn(svc.clone().oneshot(req)));
                    settle().await;
                }
                gate.add_permits(64);
                let mut failed = vec![];
                for (i, t) in tasks.into_iter().enumerate() {
                    match tokio::time::timeout(std::time::Duration::from_secs(5), t).await {
                        Ok(Ok(Ok(_))) => {}
                        Ok(Ok(Err(e))) => failed.push(format!("request {i} failed: {e}")),
                        Ok(Err(e)) => failed.push(format!("request {i}: task ended: {e}")),
                        Err(_) => failed.push(format!("request {i}: no response within 5 virtual seconds after every response had been released")),
                    }
                }
                failed
            })
        }));
        drop(rt);
        for (loc, msg) in crate::panichook::take_all() {
            if crate::panichook::in_library(&loc) {
                rep.violate("C02/executor/panic-in-library", format!("{c:?}: panic at {loc}: {msg}"));
            }
        }
        match res {
            Err(_) => {
                if rep.violations.is_empty() {
                    rep.internal_error = Some(format!("harness panic at {}: {}", crate::panichook::last_location(), crate::panichook::last_message()));
                }
            }
            Ok(failed) => {
                let sent = shared.sent.lock().unwrap().clone();
                if let Some((rid, conn, n)) = sent.iter().find(|(_, _, n)| *n > 1) {
                    rep.violate(
                        "C02/executor/second-request-on-a-connection-still-serving-the-first",
                        format!("{c:?}: request {rid} was sent on single-use connection {conn} while {} other request(s) were still waiting for their responses on it; (request, connection, in flight) in sending order: {sent:?}", n - 1),
                    );
                }
                if !failed.is_empty() {
                    rep.violate("C02/executor/request-did-not-complete", format!("{c:?}: {failed:?}"));
                }
                if sent.len() >= 2 {
                    rep.class("overlapping-requests-same-origin");
                }
                let conns: std::collections::BTreeSet<usize> = sent.iter().map(|s| s.1).collect();
                if conns.len() < sent.len() {
                    rep.class("connection-carried-2+-requests");
                }
            }
        }
        rep.class("request-executor-holds-the-handle");
        rep.nontrivial = c.burst >= 2 || c.later >= 1;
        rep.total_ops = (c.burst + c.later) as u64;
        rep
    }
}

pub fn exec_strategy() -> impl proptest::strategy::Strategy<Value = ExecCase> {
    use proptest::prelude::*;
    (1u8..5, 0u8..5, 0u8..4).prop_map(|(burst, released, later)| ExecCase { burst, released, later })
}
