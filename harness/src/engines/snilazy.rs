//! SNI validation on a connection whose TLS handshake is still in flight when requests reach its
//! service (C20), through the low-level public layers: `Acceptor::with_tls` (the server side of the
//! handshake is lazy), `TlsConnectionInfoLayer` around a shared `ValidateSNI` service, no `Server`.
//!
//! History: the per-connection service is made right after accept; a generated list of *early*
//! requests is handed to it before the handshake completes - each polled once or twice and then
//! either abandoned (dropped, as a timeout or a reset does) or kept and awaited later; then the
//! handshake completes and a generated list of *later* requests follows. Whatever happened to earlier
//! requests, every request that completes is judged by the statement: forwarded and marked validated
//! iff its host equals the connection's server name, rejected otherwise - the application never sees
//! a request of another host, and never one without the mark.

use crate::common::{CaseReport, Engine};
use crate::engines::tlswire::{client_config, install_provider, server_config};
use hyperdriver::client::conn::transport::duplex::DuplexTransport;
use hyperdriver::client::conn::transport::TransportExt as _;
use hyperdriver::client::conn::Transport as _;
use hyperdriver::info::TlsConnectionInfo;
use hyperdriver::server::conn::tls::sni::{SNIMiddlewareError, ValidateSNI};
use hyperdriver::server::conn::tls::TlsConnectionInfoLayer;
use hyperdriver::server::conn::AcceptExt as _;
use hyperdriver::stream::tls::TlsHandshakeStream as _;
use hyperdriver::{Body, IntoRequestParts as _};
use serde::{Deserialize, Serialize};
use std::future::Future;
use std::sync::{Arc, Mutex};
use std::time::Duration;
use tower::make::Shared;
use tower::{Layer as _, Service};

/// names the fixture certificate covers
pub const NAMES: &[&str] = &["example.com", "a.test", "sub.wild.test", "localhost"];

#[derive(Clone, Debug, Serialize, Deserialize, PartialEq)]
pub struct LazyCase {
    pub sni: u8,
    /// requests before the handshake completes: (host variant, fate) - fate 0 polled once and
    /// dropped, 1 polled once, kept, awaited after the handshake, 2 polled twice and dropped
    pub early: Vec<(u8, u8)>,
    /// requests after the handshake: host variants
    pub later: Vec<u8>,
    /// the client sends no server name (and, as always here, no ALPN): the connection's TLS
    /// information is all-default, yet it is a TLS connection without a server name - nothing is forwarded
    #[serde(default)]
    pub no_sni: bool,
}

/// (Host header, URI, HTTP version) of variant `v` for server name `name`; and whether the host equals the name
fn variant(name: &str, v: u8) -> (Option<String>, String, http::Version, bool) {
    let other = if name == "a.test" { "example.com" } else { "a.test" };
    match v % 6 {
        0 => (Some(name.to_string()), "/".into(), http::Version::HTTP_11, true),
        1 => (Some(format!("{}:8443", name.to_ascii_uppercase())), "/x?y=1".into(), http::Version::HTTP_11, true),
        // another name the same certificate covers: still another host
        2 => (Some(other.to_string()), "/".into(), http::Version::HTTP_11, false),
        3 => (Some("evil.test".to_string()), "/".into(), http::Version::HTTP_11, false),
        // HTTP/2: no Host header, the authority of the URI names the host
        4 => (None, format!("https://{name}/h2"), http::Version::HTTP_2, true),
        _ => (None, format!("https://{other}/h2"), http::Version::HTTP_2, false),
    }
}

fn request(name: &str, v: u8, tag: usize) -> http::Request<Body> {
    let (host, uri, version, _) = variant(name, v);
    let mut b = http::Request::builder().uri(uri).version(version).header("x-tag", tag);
    if let Some(h) = host {
        b = b.header(http::header::HOST, h);
    }
    b.body(Body::empty()).unwrap()
}

pub struct LazySniEngine;

impl Engine for LazySniEngine {
    type Case = LazyCase;
    fn name(&self) -> &'static str {
        "snilazy"
    }
    fn run_case(&self, c: &LazyCase) -> CaseReport {
        let mut rep = CaseReport::default();
        install_provider();
        let _ = crate::panichook::take_all();
        let name = NAMES[c.sni as usize % NAMES.len()];
        let rt = tokio::runtime::Builder::new_current_thread().enable_time().start_paused(true).build().unwrap();
        // what the application saw: (tag, validated mark)
        let seen: Arc<Mutex<Vec<(usize, Option<bool>)>>> = Default::default();
        let c2 = c.clone();
        let seen2 = seen.clone();
        // outcome per request tag: Ok(forwarded) / Err(rejected as SNI mismatch) / other error text
        type Out = Vec<(usize, u8, Result<(), String>)>;
        let res = std::panic::catch_unwind(std::panic::AssertUnwindSafe(|| {
            rt.block_on(async move {
                let app = tower::service_fn(move |req: http::Request<Body>| {
                    let tag: usize = req.headers().get("x-tag").and_then(|v| v.to_str().ok()).and_then(|s| s.parse().ok()).unwrap_or(usize::MAX);
                    let mark = req.extensions().get::<TlsConnectionInfo>().map(|t| t.validated_server_name);
                    seen2.lock().unwrap().push((tag, mark));
                    async move { Ok::<_, std::convert::Infallible>(http::Response::new(Body::empty())) }
                });
                let (client, incoming) = hyperdriver::stream::duplex::pair();
                let acceptor = hyperdriver::server::conn::Acceptor::from(incoming).with_tls(Arc::new(server_config(0, 0, Default::default())));
                let mut ccfg = client_config(0);
                ccfg.enable_sni = !c2.no_sni;
                let mut transport = DuplexTransport::new(64 * 1024, client).with_tls(Arc::new(ccfg));
                let uri = format!("https://{name}");
                let client = tokio::spawn(async move { transport.connect(uri.as_str().into_request_parts()).await.map_err(|e| e.to_string()) });
                let mut conn = match tokio::time::timeout(Duration::from_secs(5), acceptor.accept()).await {
                    Ok(Ok(c)) => c,
                    Ok(Err(e)) => return Err(format!("accept failed: {e}")),
                    Err(_) => return Err("accept never completed".to_string()),
                };
                let mut make = TlsConnectionInfoLayer::new().layer(Shared::new(ValidateSNI.layer(app)));
                let mut svc = match Service::call(&mut make, &conn).await {
                    Ok(s) => s,
                    Err(_) => return Err("make-service failed".to_string()),
                };
                let mut out: Out = vec![];
                let mut kept = vec![];
                let waker = futures_util::task::noop_waker();
                let mut tag = 0usize;
                for (v, fate) in c2.early.iter().copied() {
                    let mut cx = std::task::Context::from_waker(&waker);
                    if std::future::poll_fn(|cx| Service::poll_ready(&mut svc, cx)).await.is_err() {
                        return Err("service not ready".to_string());
                    }
                    let mut fut = Box::pin(Service::call(&mut svc, request(name, v, tag)));
                    let polls = if fate % 3 == 2 { 2 } else { 1 };
                    let mut done = None;
                    for _ in 0..polls {
                        if let std::task::Poll::Ready(r) = fut.as_mut().poll(&mut cx) {
                            done = Some(r);
                            break;
                        }
                    }
                    match done {
                        Some(r) => out.push((tag, v, classify(r))),
                        None if fate % 3 == 1 => kept.push((tag, v, fut)),
                        None => drop(fut),
                    }
                    tag += 1;
                }
                match tokio::time::timeout(Duration::from_secs(5), conn.finish_handshake()).await {
                    Ok(Ok(())) => {}
                    Ok(Err(e)) => return Err(format!("handshake failed: {e}")),
                    Err(_) => return Err("handshake never completed".to_string()),
                }
                let stream = match tokio::time::timeout(Duration::from_secs(5), client).await {
                    Ok(Ok(Ok(s))) => s,
                    _ => return Err("client connect failed".to_string()),
                };
                for (t, v, fut) in kept {
                    match tokio::time::timeout(Duration::from_secs(5), fut).await {
                        Ok(r) => out.push((t, v, classify(r))),
                        Err(_) => out.push((t, v, Err("never-completes".to_string()))),
                    }
                }
                for v in c2.later.iter().copied() {
                    if std::future::poll_fn(|cx| Service::poll_ready(&mut svc, cx)).await.is_err() {
                        return Err("service not ready".to_string());
                    }
                    match tokio::time::timeout(Duration::from_secs(5), Service::call(&mut svc, request(name, v, tag))).await {
                        Ok(r) => out.push((tag, v, classify(r))),
                        Err(_) => out.push((tag, v, Err("never-completes".to_string()))),
                    }
                    tag += 1;
                }
                drop((stream, conn));
                Ok(out)
            })
        }));
        drop(rt);
        for (loc, msg) in crate::panichook::take_all() {
            if crate::panichook::in_library(&loc) {
                rep.violate("C20/lazy-handshake/panic-in-library", format!("{c:?}: panic at {loc}: {msg}"));
            }
        }
        let out = match res {
            Ok(Ok(o)) => o,
            Ok(Err(e)) => {
                // the fixture itself (accept, handshake of a covered name) must work
                rep.internal_error = Some(format!("{c:?}: {e}"));
                return rep;
            }
            Err(_) => {
                if rep.violations.is_empty() {
                    rep.internal_error = Some(format!("harness panic at {}: {}", crate::panichook::last_location(), crate::panichook::last_message()));
                }
                return rep;
            }
        };
        let seen = seen.lock().unwrap().clone();
        for (tag, v, r) in &out {
            let (host, uri, _, equal) = variant(name, *v);
            let equal = equal && !c.no_sni;
            let desc = format!("{c:?}: request #{tag} (Host {host:?}, URI {uri}) on a connection whose server name is {}", if c.no_sni { "absent".to_string() } else { format!("{name:?}") });
            let app = seen.iter().find(|(t, _)| t == tag).map(|(_, m)| *m);
            match (equal, r) {
                (true, Ok(())) => match app {
                    Some(Some(true)) => {}
                    other => rep.violate("C20/lazy-handshake/forwarded-but-not-marked-validated", format!("{desc}: the application saw mark {other:?}")),
                },
                (true, Err(e)) if e == "sni-mismatch" => rep.violate("C20/lazy-handshake/rejected-although-host-equals-server-name", desc),
                (false, Ok(())) => rep.violate("C20/lazy-handshake/forwarded-despite-mismatch", format!("{desc}: the application saw mark {app:?}")),
                (false, Err(e)) if e == "sni-mismatch" => {
                    if app.is_some() {
                        rep.violate("C20/lazy-handshake/forwarded-despite-mismatch", format!("{desc}: rejected, yet the application saw it"));
                    }
                }
                (_, Err(e)) => rep.violate("C20/lazy-handshake/request-failed-otherwise", format!("{desc}: {e}")),
            }
        }
        // abandoned requests: the application may or may not have seen them, but never a foreign host
        for (t, mark) in &seen {
            let v = if *t < c.early.len() { c.early[*t].0 } else { c.later.get(*t - c.early.len()).copied().unwrap_or(0) };
            let (_, _, _, equal) = variant(name, v);
            let equal = equal && !c.no_sni;
            if !equal {
                rep.violate("C20/lazy-handshake/forwarded-despite-mismatch", format!("{c:?}: the application saw request #{t} of another host (mark {mark:?}) on a connection whose server name is {name:?}"));
            } else if *mark != Some(true) {
                rep.violate("C20/lazy-handshake/forwarded-but-not-marked-validated", format!("{c:?}: the application saw request #{t} with mark {mark:?}"));
            }
        }
        rep.class("lazy-handshake");
        let abandoned = c.early.iter().any(|(_, f)| f % 3 != 1);
        if abandoned {
            rep.class("request-abandoned-before-handshake");
        }
        if c.early.iter().any(|(_, f)| f % 3 == 1) {
            rep.class("request-waits-for-handshake");
        }
        if out.iter().any(|(_, v, _)| !variant(name, *v).3 || c.no_sni) {
            rep.class("expect-reject");
        }
        if out.iter().any(|(_, v, _)| variant(name, *v).3 && !c.no_sni) {
            rep.class("expect-forward");
        }
        if c.no_sni {
            rep.class("tls-connection-without-server-name");
        }
        rep.nontrivial = abandoned && !c.later.is_empty();
        rep.total_ops = (c.early.len() + c.later.len()) as u64;
        rep
    }
}

fn classify<R, E>(r: Result<R, SNIMiddlewareError<E>>) -> Result<(), String>
where
    E: std::error::Error,
{
    match r {
        Ok(_) => Ok(()),
        Err(SNIMiddlewareError::SNI(_)) => Err("sni-mismatch".to_string()),
        Err(SNIMiddlewareError::Inner(e)) => Err(format!("inner: {e}")),
        Err(e) => Err(format!("other: {e}")),
    }
}

pub fn strategy() -> impl proptest::strategy::Strategy<Value = LazyCase> {
    use proptest::prelude::*;
    (0u8..NAMES.len() as u8, proptest::collection::vec((0u8..6, 0u8..3), 0..4), proptest::collection::vec(0u8..6, 0..5), prop_oneof![4 => Just(false), 1 => Just(true)]).prop_map(|(sni, early, later, no_sni)| LazyCase { sni, early, later, no_sni })
}
