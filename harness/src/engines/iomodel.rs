//! E8 `iomodel` (C18): stream adapters vs a reference FIFO.
//!
//! Wrapper leg: programs of read/write/write_vectored/flush/shutdown are applied to the outward
//! interface of an adapter placed over a scripted inner stream which returns short reads/writes,
//! Pending, errors and EOF at generated points. Pair leg: the same programs over connected stream
//! pairs (in-process duplex, TCP, Unix), wrapped in the dispatch types.
#![allow(dead_code)]

use std::collections::VecDeque;
use std::io;
use std::pin::Pin;
use std::sync::{Arc, Mutex};
use std::task::{Context, Poll, Wake, Waker};

use hyperdriver::bridge::io::TokioIo;
use hyperdriver::info::{ConnectionInfo, HasConnectionInfo};
use hyperdriver::verif_hooks::Rewind;
use serde::{Deserialize, Serialize};
use tokio::io::{AsyncRead, AsyncWrite, ReadBuf};

use crate::common::{CaseReport, Engine};

// ------------------------------------------------------------------------------------------------
// program

#[derive(Clone, Debug, Serialize, Deserialize, PartialEq)]
pub enum IoOp {
    Read { cap: u16, prefill: u8 },
    Write { len: u16 },
    WriteVectored { lens: Vec<u16> },
    Flush,
    Shutdown,
}

#[derive(Clone, Debug, Serialize, Deserialize, PartialEq)]
pub enum REv {
    Data(u16),
    Pending,
    Err(u8),
    Eof,
}

#[derive(Clone, Debug, Serialize, Deserialize, PartialEq)]
pub enum WEv {
    Accept(u16),
    Pending,
    Err(u8),
}

#[derive(Clone, Debug, Serialize, Deserialize, PartialEq)]
pub struct IoCase {
    /// 0 TokioIo tokio→hyper, 1 TokioIo hyper→tokio, 2 TokioIo round trip, 3 Rewind, 4 client Stream,
    /// 5 server Stream, 6 TlsBraid::NoTls
    pub adapter: u8,
    pub prefix: u16,
    pub ops: Vec<IoOp>,
    pub rscript: Vec<REv>,
    pub wscript: Vec<WEv>,
    pub inner_vectored: bool,
}

pub const ADAPTERS: &[&str] = &["tokioio-to-hyper", "tokioio-to-tokio", "tokioio-roundtrip", "rewind", "client-stream", "server-stream", "tlsbraid-notls"];

fn kind(k: u8) -> io::ErrorKind {
    match k % 4 {
        0 => io::ErrorKind::ConnectionReset,
        1 => io::ErrorKind::BrokenPipe,
        2 => io::ErrorKind::UnexpectedEof,
        _ => io::ErrorKind::Other,
    }
}

pub fn rbyte(i: usize) -> u8 {
    ((i * 7 + 3) % 251) as u8
}
pub fn wbyte(i: usize) -> u8 {
    ((i * 13 + 5) % 241) as u8
}

// ------------------------------------------------------------------------------------------------
// scripted inner stream

#[derive(Debug, Clone, PartialEq)]
pub enum InnerRes {
    Data(usize),
    Pending,
    Err(io::ErrorKind),
    Eof,
    Wrote(usize),
    Flushed,
    Shutdown,
}

#[derive(Default)]
pub struct InnerState {
    rscript: VecDeque<REv>,
    wscript: VecDeque<WEv>,
    rpos: usize,
    written: Vec<u8>,
    flushes: usize,
    shutdowns: usize,
    /// what the inner returned during the current outward call
    trace: Vec<InnerRes>,
    vectored: bool,
}

#[derive(Clone)]
pub struct Inner(Arc<Mutex<InnerState>>);

impl Inner {
    fn read_into(&self, cap: usize, put: &mut dyn FnMut(&[u8])) -> Poll<io::Result<()>> {
        let mut s = self.0.lock().unwrap();
        let ev = s.rscript.front().cloned();
        match ev {
            None | Some(REv::Eof) => {
                if ev.is_some() {
                    s.rscript.pop_front();
                }
                s.trace.push(InnerRes::Eof);
                Poll::Ready(Ok(()))
            }
            Some(REv::Pending) => {
                s.rscript.pop_front();
                s.trace.push(InnerRes::Pending);
                Poll::Pending
            }
            Some(REv::Err(k)) => {
                s.rscript.pop_front();
                s.trace.push(InnerRes::Err(kind(k)));
                Poll::Ready(Err(kind(k).into()))
            }
            Some(REv::Data(len)) => {
                let len = len as usize;
                let n = len.min(cap);
                if len == 0 {
                    // an empty data event is an EOF indication
                    s.rscript.pop_front();
                    s.trace.push(InnerRes::Eof);
                    return Poll::Ready(Ok(()));
                }
                let data: Vec<u8> = (s.rpos..s.rpos + n).map(rbyte).collect();
                put(&data);
                s.rpos += n;
                if n == len {
                    s.rscript.pop_front();
                } else if let Some(REv::Data(l)) = s.rscript.front_mut() {
                    *l = (len - n) as u16;
                }
                s.trace.push(InnerRes::Data(n));
                Poll::Ready(Ok(()))
            }
        }
    }

    fn write_from(&self, bufs: &[&[u8]]) -> Poll<io::Result<usize>> {
        let mut s = self.0.lock().unwrap();
        let total: usize = bufs.iter().map(|b| b.len()).sum();
        let ev = s.wscript.pop_front();
        match ev {
            Some(WEv::Pending) => {
                s.trace.push(InnerRes::Pending);
                Poll::Pending
            }
            Some(WEv::Err(k)) => {
                s.trace.push(InnerRes::Err(kind(k)));
                Poll::Ready(Err(kind(k).into()))
            }
            other => {
                let max = match other {
                    Some(WEv::Accept(m)) => (m as usize).max(1),
                    _ => usize::MAX,
                };
                let n = total.min(max);
                let mut left = n;
                for b in bufs {
                    let k = b.len().min(left);
                    s.written.extend_from_slice(&b[..k]);
                    left -= k;
                    if left == 0 {
                        break;
                    }
                }
                s.trace.push(InnerRes::Wrote(n));
                Poll::Ready(Ok(n))
            }
        }
    }
}

impl AsyncRead for Inner {
    fn poll_read(self: Pin<&mut Self>, _cx: &mut Context<'_>, buf: &mut ReadBuf<'_>) -> Poll<io::Result<()>> {
        let cap = buf.remaining();
        self.read_into(cap, &mut |d| buf.put_slice(d))
    }
}
impl AsyncWrite for Inner {
    fn poll_write(self: Pin<&mut Self>, _cx: &mut Context<'_>, buf: &[u8]) -> Poll<io::Result<usize>> {
        self.write_from(&[buf])
    }
    fn poll_write_vectored(self: Pin<&mut Self>, _cx: &mut Context<'_>, bufs: &[io::IoSlice<'_>]) -> Poll<io::Result<usize>> {
        let vectored = self.0.lock().unwrap().vectored;
        if vectored {
            let v: Vec<&[u8]> = bufs.iter().map(|b| &**b).collect();
            self.write_from(&v)
        } else {
            let first = bufs.iter().find(|b| !b.is_empty()).map(|b| &**b).unwrap_or(&[]);
            self.write_from(&[first])
        }
    }
    fn is_write_vectored(&self) -> bool {
        self.0.lock().unwrap().vectored
    }
    fn poll_flush(self: Pin<&mut Self>, _cx: &mut Context<'_>) -> Poll<io::Result<()>> {
        let mut s = self.0.lock().unwrap();
        s.flushes += 1;
        s.trace.push(InnerRes::Flushed);
        Poll::Ready(Ok(()))
    }
    fn poll_shutdown(self: Pin<&mut Self>, _cx: &mut Context<'_>) -> Poll<io::Result<()>> {
        let mut s = self.0.lock().unwrap();
        s.shutdowns += 1;
        s.trace.push(InnerRes::Shutdown);
        Poll::Ready(Ok(()))
    }
}

impl hyper::rt::Read for Inner {
    fn poll_read(self: Pin<&mut Self>, _cx: &mut Context<'_>, mut buf: hyper::rt::ReadBufCursor<'_>) -> Poll<io::Result<()>> {
        let cap = buf.remaining();
        self.read_into(cap, &mut |d| buf.put_slice(d))
    }
}
impl hyper::rt::Write for Inner {
    fn poll_write(self: Pin<&mut Self>, _cx: &mut Context<'_>, buf: &[u8]) -> Poll<io::Result<usize>> {
        self.write_from(&[buf])
    }
    fn poll_write_vectored(self: Pin<&mut Self>, _cx: &mut Context<'_>, bufs: &[io::IoSlice<'_>]) -> Poll<io::Result<usize>> {
        let vectored = self.0.lock().unwrap().vectored;
        if vectored {
            let v: Vec<&[u8]> = bufs.iter().map(|b| &**b).collect();
            self.write_from(&v)
        } else {
            let first = bufs.iter().find(|b| !b.is_empty()).map(|b| &**b).unwrap_or(&[]);
            self.write_from(&[first])
        }
    }
    fn is_write_vectored(&self) -> bool {
        self.0.lock().unwrap().vectored
    }
    fn poll_flush(self: Pin<&mut Self>, _cx: &mut Context<'_>) -> Poll<io::Result<()>> {
        let mut s = self.0.lock().unwrap();
        s.flushes += 1;
        s.trace.push(InnerRes::Flushed);
        Poll::Ready(Ok(()))
    }
    fn poll_shutdown(self: Pin<&mut Self>, _cx: &mut Context<'_>) -> Poll<io::Result<()>> {
        let mut s = self.0.lock().unwrap();
        s.shutdowns += 1;
        s.trace.push(InnerRes::Shutdown);
        Poll::Ready(Ok(()))
    }
}

#[derive(Debug, Clone, PartialEq, Eq, Hash)]
pub struct NoAddr;
impl std::fmt::Display for NoAddr {
    fn fmt(&self, f: &mut std::fmt::Formatter<'_>) -> std::fmt::Result {
        write!(f, "noaddr")
    }
}
impl HasConnectionInfo for Inner {
    type Addr = NoAddr;
    fn info(&self) -> ConnectionInfo<NoAddr> {
        ConnectionInfo { local_addr: NoAddr, remote_addr: NoAddr }
    }
}

// ------------------------------------------------------------------------------------------------
// outward ports

#[derive(Debug, Clone, PartialEq)]
pub enum Outward {
    /// read returned these bytes (possibly none); second field: pre-filled region left intact
    Read(Vec<u8>, bool),
    Wrote(usize),
    Done,
    Pending,
    Err(io::ErrorKind),
}

pub trait Port {
    fn read(&mut self, cx: &mut Context<'_>, cap: usize, prefill: usize) -> Outward;
    fn write(&mut self, cx: &mut Context<'_>, data: &[u8]) -> Outward;
    fn write_vectored(&mut self, cx: &mut Context<'_>, bufs: &[Vec<u8>]) -> Outward;
    fn flush(&mut self, cx: &mut Context<'_>) -> Outward;
    fn shutdown(&mut self, cx: &mut Context<'_>) -> Outward;
}

pub struct TokioPort<T>(pub T);
impl<T: AsyncRead + AsyncWrite + Unpin> Port for TokioPort<T> {
    fn read(&mut self, cx: &mut Context<'_>, cap: usize, prefill: usize) -> Outward {
        let mut storage = vec![0xAAu8; cap + prefill];
        for (i, b) in storage.iter_mut().take(prefill).enumerate() {
            *b = 0x50 ^ (i as u8);
        }
        let mut rb = ReadBuf::new(&mut storage);
        rb.set_filled(prefill);
        match Pin::new(&mut self.0).poll_read(cx, &mut rb) {
            Poll::Pending => Outward::Pending,
            Poll::Ready(Err(e)) => Outward::Err(e.kind()),
            Poll::Ready(Ok(())) => {
                let filled = rb.filled().to_vec();
                let intact = filled.len() >= prefill && filled[..prefill].iter().enumerate().all(|(i, b)| *b == 0x50 ^ (i as u8));
                Outward::Read(filled[prefill.min(filled.len())..].to_vec(), intact)
            }
        }
    }
    fn write(&mut self, cx: &mut Context<'_>, data: &[u8]) -> Outward {
        match Pin::new(&mut self.0).poll_write(cx, data) {
            Poll::Pending => Outward::Pending,
            Poll::Ready(Err(e)) => Outward::Err(e.kind()),
            Poll::Ready(Ok(n)) => Outward::Wrote(n),
        }
    }
    fn write_vectored(&mut self, cx: &mut Context<'_>, bufs: &[Vec<u8>]) -> Outward {
        let slices: Vec<io::IoSlice<'_>> = bufs.iter().map(|b| io::IoSlice::new(b)).collect();
        match Pin::new(&mut self.0).poll_write_vectored(cx, &slices) {
            Poll::Pending => Outward::Pending,
            Poll::Ready(Err(e)) => Outward::Err(e.kind()),
            Poll::Ready(Ok(n)) => Outward::Wrote(n),
        }
    }
    fn flush(&mut self, cx: &mut Context<'_>) -> Outward {
        match Pin::new(&mut self.0).poll_flush(cx) {
            Poll::Pending => Outward::Pending,
            Poll::Ready(Err(e)) => Outward::Err(e.kind()),
            Poll::Ready(Ok(())) => Outward::Done,
        }
    }
    fn shutdown(&mut self, cx: &mut Context<'_>) -> Outward {
        match Pin::new(&mut self.0).poll_shutdown(cx) {
            Poll::Pending => Outward::Pending,
            Poll::Ready(Err(e)) => Outward::Err(e.kind()),
            Poll::Ready(Ok(())) => Outward::Done,
        }
    }
}

pub struct HyperPort<T>(pub T);
impl<T: hyper::rt::Read + hyper::rt::Write + Unpin> Port for HyperPort<T> {
    fn read(&mut self, cx: &mut Context<'_>, cap: usize, prefill: usize) -> Outward {
        let mut storage = vec![0xAAu8; cap + prefill];
        let pre: Vec<u8> = (0..prefill).map(|i| 0x50 ^ (i as u8)).collect();
        let mut rb = hyper::rt::ReadBuf::new(&mut storage);
        rb.unfilled().put_slice(&pre);
        match Pin::new(&mut self.0).poll_read(cx, rb.unfilled()) {
            Poll::Pending => Outward::Pending,
            Poll::Ready(Err(e)) => Outward::Err(e.kind()),
            Poll::Ready(Ok(())) => {
                let filled = rb.filled().to_vec();
                let intact = filled.len() >= prefill && filled[..prefill] == pre[..];
                Outward::Read(filled[prefill.min(filled.len())..].to_vec(), intact)
            }
        }
    }
    fn write(&mut self, cx: &mut Context<'_>, data: &[u8]) -> Outward {
        match Pin::new(&mut self.0).poll_write(cx, data) {
            Poll::Pending => Outward::Pending,
            Poll::Ready(Err(e)) => Outward::Err(e.kind()),
            Poll::Ready(Ok(n)) => Outward::Wrote(n),
        }
    }
    fn write_vectored(&mut self, cx: &mut Context<'_>, bufs: &[Vec<u8>]) -> Outward {
        let slices: Vec<io::IoSlice<'_>> = bufs.iter().map(|b| io::IoSlice::new(b)).collect();
        match Pin::new(&mut self.0).poll_write_vectored(cx, &slices) {
            Poll::Pending => Outward::Pending,
            Poll::Ready(Err(e)) => Outward::Err(e.kind()),
            Poll::Ready(Ok(n)) => Outward::Wrote(n),
        }
    }
    fn flush(&mut self, cx: &mut Context<'_>) -> Outward {
        match Pin::new(&mut self.0).poll_flush(cx) {
            Poll::Pending => Outward::Pending,
            Poll::Ready(Err(e)) => Outward::Err(e.kind()),
            Poll::Ready(Ok(())) => Outward::Done,
        }
    }
    fn shutdown(&mut self, cx: &mut Context<'_>) -> Outward {
        match Pin::new(&mut self.0).poll_shutdown(cx) {
            Poll::Pending => Outward::Pending,
            Poll::Ready(Err(e)) => Outward::Err(e.kind()),
            Poll::Ready(Ok(())) => Outward::Done,
        }
    }
}

struct Noop;
impl Wake for Noop {
    fn wake(self: Arc<Self>) {}
}

pub struct IoEngine;

impl Engine for IoEngine {
    type Case = IoCase;
    fn name(&self) -> &'static str {
        "iomodel"
    }
    fn run_case(&self, c: &IoCase) -> CaseReport {
        let adapter = c.adapter as usize % ADAPTERS.len();
        match std::panic::catch_unwind(std::panic::AssertUnwindSafe(|| self.run_inner(c))) {
            Ok(rep) => rep,
            Err(_) => {
                let loc = crate::panichook::last_location();
                let msg = crate::panichook::last_message();
                let mut rep = CaseReport::default();
                if crate::panichook::in_library(&loc) {
                    rep.violate(format!("C18/{}/panic", ADAPTERS[adapter]), format!("adapter panicked at {loc}: {msg}"));
                } else {
                    rep.internal_error = Some(format!("harness panic at {loc}: {msg}"));
                }
                rep
            }
        }
    }
}

impl IoEngine {
    fn run_inner(&self, c: &IoCase) -> CaseReport {
        let mut rep = CaseReport::default();
        let adapter = c.adapter as usize % ADAPTERS.len();
        let state = Arc::new(Mutex::new(InnerState {
            rscript: c.rscript.iter().cloned().collect(),
            wscript: c.wscript.iter().cloned().collect(),
            vectored: c.inner_vectored,
            ..Default::default()
        }));
        let inner = Inner(state.clone());
        // the prefix of the rewind adapter uses its own byte pattern
        let prefix: Vec<u8> = (0..c.prefix as usize).map(|i| 0xC0 ^ (i as u8 & 0x3f)).collect();
        let mut port: Box<dyn Port> = match adapter {
            0 => Box::new(HyperPort(TokioIo::new(inner))),
            1 => Box::new(TokioPort(TokioIo::new(inner))),
            2 => Box::new(TokioPort(TokioIo::new(TokioIo::new(inner)))),
            3 => Box::new(HyperPort(Rewind::new(TokioIo::new(inner), prefix.clone()))),
            4 => Box::new(TokioPort(hyperdriver::client::conn::Stream::new(inner))),
            5 => Box::new(TokioPort(hyperdriver::server::conn::Stream::new(inner))),
            _ => Box::new(TokioPort(hyperdriver::stream::TlsBraid::<Inner, Inner>::NoTls(inner))),
        };
        let name = ADAPTERS[adapter];
        let waker = Waker::from(Arc::new(Noop));
        let mut cx = Context::from_waker(&waker);

        // reference FIFO
        let mut expect_read: Vec<u8> = if adapter == 3 { prefix.clone() } else { vec![] }; // bytes that must have been delivered so far
        let mut got_read: Vec<u8> = vec![];
        let mut accepted: Vec<u8> = vec![];
        let mut wpos = 0usize;
        let mut flushes = 0usize;
        let mut shutdowns = 0usize;
        let mut prefix_left = if adapter == 3 { prefix.len() } else { 0 };
        let mut partial_reads = 0;
        let mut pendings = 0;
        let mut errors = 0;

        for (step, op) in c.ops.iter().enumerate() {
            state.lock().unwrap().trace.clear();
            let rpos_before = state.lock().unwrap().rpos;
            let out = match op {
                IoOp::Read { cap, prefill } => port.read(&mut cx, *cap as usize, *prefill as usize),
                IoOp::Write { len } => {
                    let data: Vec<u8> = (wpos..wpos + *len as usize).map(wbyte).collect();
                    let o = port.write(&mut cx, &data);
                    if let Outward::Wrote(n) = &o {
                        if *n > data.len() {
                            rep.violate(format!("C18/{name}/write-reports-more-than-given"), format!("step {step}: write of {} bytes reported {n} accepted", data.len()));
                        } else {
                            accepted.extend_from_slice(&data[..*n]);
                            wpos += n;
                        }
                    }
                    o
                }
                IoOp::WriteVectored { lens } => {
                    let mut p = wpos;
                    let bufs: Vec<Vec<u8>> = lens
                        .iter()
                        .map(|l| {
                            let v: Vec<u8> = (p..p + *l as usize).map(wbyte).collect();
                            p += *l as usize;
                            v
                        })
                        .collect();
                    let flat: Vec<u8> = bufs.iter().flatten().copied().collect();
                    let o = port.write_vectored(&mut cx, &bufs);
                    if let Outward::Wrote(n) = &o {
                        if *n > flat.len() {
                            rep.violate(format!("C18/{name}/write-reports-more-than-given"), format!("step {step}: vectored write of {} bytes reported {n} accepted", flat.len()));
                        } else {
                            accepted.extend_from_slice(&flat[..*n]);
                            wpos += n;
                        }
                    }
                    o
                }
                IoOp::Flush => port.flush(&mut cx),
                IoOp::Shutdown => port.shutdown(&mut cx),
            };
            let trace = state.lock().unwrap().trace.clone();
            let rpos_after = state.lock().unwrap().rpos;
            // bytes the inner delivered during this call join the expected stream
            expect_read.extend((rpos_before..rpos_after).map(rbyte));
            let desc = || format!("adapter {name}, step {step} {op:?}: outward {out:?}, inner returned {trace:?}");

            match op {
                IoOp::Read { cap, prefill: _ } => {
                    match &out {
                        Outward::Read(data, intact) => {
                            if !intact {
                                rep.violate(format!("C18/{name}/read-clobbers-filled-region"), desc());
                            }
                            if data.len() > *cap as usize {
                                rep.violate(format!("C18/{name}/read-overflows-capacity"), desc());
                            }
                            got_read.extend_from_slice(data);
                            if prefix_left > 0 {
                                prefix_left -= data.len().min(prefix_left);
                            }
                            if data.len() < *cap as usize && !data.is_empty() {
                                partial_reads += 1;
                            }
                            // EOF indication: zero bytes on a non-empty buffer must come from the inner's EOF
                            if data.is_empty() && *cap > 0 && !trace.contains(&InnerRes::Eof) {
                                rep.violate(format!("C18/{name}/invented-eof"), desc());
                            }
                            if trace.contains(&InnerRes::Eof) && !data.is_empty() {
                                rep.violate(format!("C18/{name}/eof-swallowed"), desc());
                            }
                            if trace.iter().any(|t| matches!(t, InnerRes::Err(_))) {
                                rep.violate(format!("C18/{name}/read-error-swallowed"), desc());
                            }
                        }
                        Outward::Pending => {
                            pendings += 1;
                            if !trace.contains(&InnerRes::Pending) {
                                rep.violate(format!("C18/{name}/invented-pending"), desc());
                            }
                        }
                        Outward::Err(k) => {
                            errors += 1;
                            if !trace.contains(&InnerRes::Err(*k)) {
                                rep.violate(format!("C18/{name}/invented-or-altered-error"), desc());
                            }
                        }
                        _ => {}
                    }
                    // no buffering in these adapters: everything the inner handed out (and the
                    // rewind prefix, in order) has been delivered, nothing else
                    let n = got_read.len();
                    if n > expect_read.len() || got_read[..] != expect_read[..n] {
                        rep.violate(format!("C18/{name}/read-bytes-differ"), format!("{}; delivered so far {} bytes, reference {} bytes; first difference at {:?}", desc(), n, expect_read.len(), got_read.iter().zip(expect_read.iter()).position(|(a, b)| a != b)));
                    } else if prefix_left == 0 && n != expect_read.len() {
                        rep.violate(format!("C18/{name}/read-bytes-lost"), format!("{}; inner handed out {} bytes in total but only {} were delivered", desc(), expect_read.len(), n));
                    }
                }
                IoOp::Write { .. } | IoOp::WriteVectored { .. } => {
                    match &out {
                        Outward::Pending => {
                            pendings += 1;
                            if !trace.contains(&InnerRes::Pending) {
                                rep.violate(format!("C18/{name}/invented-pending"), desc());
                            }
                        }
                        Outward::Err(k) => {
                            errors += 1;
                            if !trace.contains(&InnerRes::Err(*k)) {
                                rep.violate(format!("C18/{name}/invented-or-altered-error"), desc());
                            }
                        }
                        Outward::Wrote(_) => {
                            if trace.iter().any(|t| matches!(t, InnerRes::Err(_))) {
                                rep.violate(format!("C18/{name}/write-error-swallowed"), desc());
                            }
                        }
                        _ => {}
                    }
                    let w = state.lock().unwrap().written.clone();
                    if w != accepted {
                        rep.violate(
                            format!("C18/{name}/written-bytes-differ"),
                            format!("{}; adapter accepted {} bytes, inner received {} bytes, first difference at {:?}", desc(), accepted.len(), w.len(), w.iter().zip(accepted.iter()).position(|(a, b)| a != b)),
                        );
                    }
                }
                IoOp::Flush => {
                    if out == Outward::Done {
                        flushes += 1;
                        if state.lock().unwrap().flushes != flushes {
                            rep.violate(format!("C18/{name}/flush-not-propagated"), desc());
                        }
                    }
                }
                IoOp::Shutdown => {
                    if out == Outward::Done {
                        shutdowns += 1;
                        if state.lock().unwrap().shutdowns != shutdowns {
                            rep.violate(format!("C18/{name}/shutdown-not-propagated"), desc());
                        }
                    }
                }
            }
        }
        rep.class(name);
        if partial_reads > 0 {
            rep.class("partial-read");
        }
        if pendings > 0 {
            rep.class("pending-result");
        }
        if errors > 0 {
            rep.class("error-result");
        }
        if adapter == 3 && c.prefix > 0 && c.ops.iter().any(|o| matches!(o, IoOp::Read { cap, .. } if (*cap as usize) < c.prefix as usize && *cap > 0)) {
            rep.class("rewind-prefix-split-across-reads");
        }
        if c.ops.iter().any(|o| matches!(o, IoOp::WriteVectored { .. })) {
            rep.class("vectored-write");
        }
        rep.nontrivial = (partial_reads > 0 || pendings > 0) && got_read.len() + accepted.len() > 0;
        rep.total_ops = c.ops.len() as u64;
        rep
    }
}

pub fn strategy() -> impl proptest::strategy::Strategy<Value = IoCase> {
    use proptest::prelude::*;
    let cap = prop_oneof![1 => Just(0u16), 2 => Just(1u16), 3 => 2u16..16, 2 => 16u16..300, 1 => Just(8192u16)];
    let len = prop_oneof![1 => Just(0u16), 2 => Just(1u16), 3 => 2u16..40, 1 => 40u16..2000];
    let op = prop_oneof![
        6 => (cap, prop_oneof![3 => Just(0u8), 1 => 1u8..20]).prop_map(|(cap, prefill)| IoOp::Read { cap, prefill }),
        4 => len.clone().prop_map(|len| IoOp::Write { len }),
        2 => proptest::collection::vec(len, 0..5).prop_map(|lens| IoOp::WriteVectored { lens }),
        1 => Just(IoOp::Flush),
        1 => Just(IoOp::Shutdown),
    ];
    let rev = prop_oneof![
        6 => prop_oneof![Just(1u16), 2u16..30, 30u16..600].prop_map(REv::Data),
        2 => Just(REv::Pending),
        1 => any::<u8>().prop_map(REv::Err),
        1 => Just(REv::Eof),
    ];
    let wev = prop_oneof![
        5 => prop_oneof![Just(1u16), 2u16..20, 20u16..5000].prop_map(WEv::Accept),
        2 => Just(WEv::Pending),
        1 => any::<u8>().prop_map(WEv::Err),
    ];
    (
        0u8..7,
        prop_oneof![1 => Just(0u16), 1 => 1u16..4, 2 => 4u16..40],
        proptest::collection::vec(op, 1..40),
        proptest::collection::vec(rev, 0..30),
        proptest::collection::vec(wev, 0..30),
        any::<bool>(),
    )
        .prop_map(|(adapter, prefix, ops, rscript, wscript, inner_vectored)| IoCase { adapter, prefix, ops, rscript, wscript, inner_vectored })
}

// ------------------------------------------------------------------------------------------------
// pair leg: connected streams wrapped in the dispatch types

#[derive(Clone, Debug, Serialize, Deserialize, PartialEq)]
pub enum PairOp {
    /// side 0 writes towards side 1 (or the reverse)
    Write { from: bool, len: u16 },
    Read { at: bool, cap: u16 },
    Flush { at: bool },
    Shutdown { at: bool },
    /// one vectored write; slices may be empty, also the first one
    WriteV { from: bool, lens: Vec<u16> },
}

#[derive(Clone, Debug, Serialize, Deserialize, PartialEq)]
pub struct PairCase {
    /// 0 duplex raw, 1 duplex in Braid+client/server Stream, 2 TCP in Braid+Stream, 3 Unix in Braid+Stream
    pub kind: u8,
    pub buf: u16,
    pub ops: Vec<PairOp>,
}

pub const PAIR_KINDS: &[&str] = &["duplex", "duplex-braid-stream", "tcp-braid-stream", "unix-braid-stream"];

type DynIo = Pin<Box<dyn AsyncRw>>;
pub trait AsyncRw: AsyncRead + AsyncWrite + Send {}
impl<T: AsyncRead + AsyncWrite + Send> AsyncRw for T {}

async fn make_pair(kind: u8, buf: usize) -> io::Result<(DynIo, DynIo)> {
    use hyperdriver::stream::duplex::DuplexStream;
    use hyperdriver::stream::Braid;
    match kind % 4 {
        0 => {
            let (a, b) = DuplexStream::new(buf.max(1));
            Ok((Box::pin(a), Box::pin(b)))
        }
        1 => {
            let (a, b) = DuplexStream::new(buf.max(1));
            let a: hyperdriver::client::conn::Stream = a.into();
            let b: hyperdriver::server::conn::Stream = Braid::from(b).into();
            Ok((Box::pin(a), Box::pin(b)))
        }
        2 => {
            let l = tokio::net::TcpListener::bind("127.0.0.1:0").await?;
            let addr = l.local_addr()?;
            let (c, s) = tokio::try_join!(tokio::net::TcpStream::connect(addr), async { l.accept().await.map(|(s, _)| s) })?;
            let peer = c.local_addr()?;
            let a: hyperdriver::client::conn::Stream = hyperdriver::stream::TcpStream::client(c).into();
            let b: hyperdriver::server::conn::Stream = Braid::from(hyperdriver::stream::TcpStream::server(s, peer)).into();
            Ok((Box::pin(a), Box::pin(b)))
        }
        _ => {
            let (c, s) = hyperdriver::stream::UnixStream::pair()?;
            let a: hyperdriver::client::conn::Stream = c.into();
            let b: hyperdriver::server::conn::Stream = Braid::from(s).into();
            Ok((Box::pin(a), Box::pin(b)))
        }
    }
}

pub struct PairEngine;

impl Engine for PairEngine {
    type Case = PairCase;
    fn name(&self) -> &'static str {
        "iomodel-pair"
    }
    fn real_time(&self) -> bool {
        true
    }
    fn run_case(&self, c: &PairCase) -> CaseReport {
        // Over real sockets a read that stays pending for 2 s although bytes are outstanding may be
        // the machine; the case is repeated and the same stall three times in a row is a loss.
        let rep = self.run_once(c);
        if !rep.classes.contains(&"socket-read-guard-expired-inconclusive") {
            return rep;
        }
        let rep2 = self.run_once(c);
        if !rep2.classes.contains(&"socket-read-guard-expired-inconclusive") {
            return rep2;
        }
        let mut rep3 = self.run_once(c);
        if rep3.classes.contains(&"socket-read-guard-expired-inconclusive") {
            let name = PAIR_KINDS[c.kind as usize % 4];
            rep3.violate(format!("C18/{name}/bytes-or-eof-never-arrive-repeatedly"), format!("{c:?}: in three runs in a row a read stayed pending for 2 s although written bytes (or the end of stream) were outstanding"));
        }
        rep3
    }
}

impl PairEngine {
    fn run_once(&self, c: &PairCase) -> CaseReport {
        use tokio::io::{AsyncReadExt, AsyncWriteExt};
        let mut rep = CaseReport::default();
        let name = PAIR_KINDS[c.kind as usize % 4];
        let rt = tokio::runtime::Builder::new_current_thread().enable_all().build().unwrap();
        let res: Result<(), String> = rt.block_on(async {
            let (mut a, mut b) = make_pair(c.kind, c.buf as usize).await.map_err(|e| format!("pair setup: {e}"))?;
            let in_memory = c.kind % 4 < 2;
            // direction 0: a→b, direction 1: b→a
            let mut sent: [Vec<u8>; 2] = [vec![], vec![]];
            let mut recv: [usize; 2] = [0, 0];
            let mut shut: [bool; 2] = [false, false];
            let mut partial = false;
            for (step, op) in c.ops.iter().enumerate() {
                match op {
                    PairOp::Write { from, len } => {
                        let dir = *from as usize;
                        if shut[dir] {
                            continue;
                        }
                        let start = sent[dir].len();
                        let data: Vec<u8> = (start..start + *len as usize).map(|i| wbyte(i + dir * 17)).collect();
                        let w = if dir == 0 { &mut a } else { &mut b };
                        // one poll_write; Pending (full buffer) accepts nothing
                        let r = futures_util::FutureExt::now_or_never(w.write(&data));
                        match r {
                            Some(Ok(n)) => {
                                if n > data.len() {
                                    rep.violate(format!("C18/{name}/write-reports-more-than-given"), format!("step {step}"));
                                } else {
                                    if n < data.len() {
                                        partial = true;
                                    }
                                    sent[dir].extend_from_slice(&data[..n]);
                                }
                            }
                            Some(Err(e)) => {
                                rep.violate(format!("C18/{name}/write-failed-on-healthy-pair"), format!("step {step}: write of {} bytes failed with {e} although neither side closed this direction", data.len()));
                                return Ok(());
                            }
                            None => {
                                partial = true;
                            }
                        }
                    }
                    PairOp::WriteV { from, lens } => {
                        let dir = *from as usize;
                        if shut[dir] {
                            continue;
                        }
                        let mut start = sent[dir].len();
                        let bufs: Vec<Vec<u8>> = lens
                            .iter()
                            .map(|l| {
                                let v: Vec<u8> = (start..start + *l as usize).map(|i| wbyte(i + dir * 17)).collect();
                                start += *l as usize;
                                v
                            })
                            .collect();
                        let flat: Vec<u8> = bufs.concat();
                        let slices: Vec<io::IoSlice<'_>> = bufs.iter().map(|b| io::IoSlice::new(b)).collect();
                        let w = if dir == 0 { &mut a } else { &mut b };
                        rep.class("vectored-write");
                        if lens.first() == Some(&0) && !flat.is_empty() {
                            rep.class("vectored-write-with-empty-first-slice");
                        }
                        match futures_util::FutureExt::now_or_never(w.write_vectored(&slices)) {
                            Some(Ok(n)) if n > flat.len() => rep.violate(format!("C18/{name}/write-reports-more-than-given"), format!("step {step}: vectored write")),
                            Some(Ok(0)) if !flat.is_empty() => {
                                // "no more bytes can be written": a closed stream invented
                                rep.violate(format!("C18/{name}/vectored-write-accepts-nothing"), format!("step {step}: vectored write of slices {lens:?} returned Ok(0) on a healthy pair"));
                                return Ok(());
                            }
                            Some(Ok(n)) => {
                                if n < flat.len() {
                                    partial = true;
                                }
                                sent[dir].extend_from_slice(&flat[..n]);
                            }
                            Some(Err(e)) => {
                                rep.violate(format!("C18/{name}/write-failed-on-healthy-pair"), format!("step {step}: vectored write failed with {e}"));
                                return Ok(());
                            }
                            None => partial = true,
                        }
                    }
                    PairOp::Read { at, cap } => {
                        // `at` reads the direction that flows towards it
                        let dir = if *at { 0 } else { 1 };
                        let outstanding = sent[dir].len() - recv[dir];
                        if *cap == 0 || (outstanding == 0 && !shut[dir]) {
                            continue; // would block forever / carries no information
                        }
                        let r = if dir == 0 { &mut b } else { &mut a };
                        let mut buf = vec![0u8; *cap as usize];
                        let got = if in_memory {
                            // in-process pipes are deterministic: outstanding data (or EOF) is there now
                            match futures_util::FutureExt::now_or_never(r.read(&mut buf)) {
                                Some(x) => Ok(x),
                                None => Err(()),
                            }
                        } else {
                            tokio::time::timeout(std::time::Duration::from_secs(2), r.read(&mut buf)).await.map_err(|_| ())
                        };
                        match got {
                            Err(_) if in_memory => {
                                let sig = if outstanding > 0 { "bytes-lost" } else { "eof-not-propagated" };
                                rep.violate(format!("C18/{name}/{sig}"), format!("step {step}: read is pending although {outstanding} bytes are outstanding (writer shut down: {})", shut[dir]));
                                return Ok(());
                            }
                            Err(_) => {
                                rep.class("socket-read-guard-expired-inconclusive");
                                return Ok(());
                            }
                            Ok(Err(e)) => {
                                rep.violate(format!("C18/{name}/read-failed-on-healthy-pair"), format!("step {step}: read failed with {e}"));
                                return Ok(());
                            }
                            Ok(Ok(n)) => {
                                if n == 0 {
                                    if outstanding > 0 {
                                        rep.violate(format!("C18/{name}/early-eof"), format!("step {step}: end of stream with {outstanding} bytes outstanding"));
                                    }
                                } else {
                                    let want = &sent[dir][recv[dir]..(recv[dir] + n).min(sent[dir].len())];
                                    if n > outstanding || &buf[..n] != want {
                                        rep.violate(format!("C18/{name}/read-bytes-differ"), format!("step {step}: read {n} bytes at offset {} which differ from what was written (outstanding {outstanding})", recv[dir]));
                                    }
                                    if n < outstanding.min(*cap as usize) {
                                        partial = true;
                                    }
                                    recv[dir] += n.min(outstanding);
                                }
                            }
                        }
                    }
                    PairOp::Flush { at } => {
                        let w = if *at { &mut b } else { &mut a };
                        let _ = tokio::time::timeout(std::time::Duration::from_secs(2), w.flush()).await;
                    }
                    PairOp::Shutdown { at } => {
                        let dir = if *at { 1 } else { 0 };
                        if shut[dir] {
                            continue; // a second shutdown of a socket is not part of the property
                        }
                        let w = if *at { &mut b } else { &mut a };
                        match tokio::time::timeout(std::time::Duration::from_secs(2), w.shutdown()).await {
                            Ok(Ok(())) => shut[dir] = true,
                            Ok(Err(e)) => {
                                rep.violate(format!("C18/{name}/shutdown-failed-on-healthy-pair"), format!("step {step}: shutdown failed with {e}"));
                                return Ok(());
                            }
                            Err(_) => return Err(format!("step {step}: shutdown timed out")),
                        }
                    }
                }
            }
            // drain: everything written must arrive, then EOF after shutdown
            for dir in 0..2 {
                let r = if dir == 0 { &mut b } else { &mut a };
                while recv[dir] < sent[dir].len() {
                    let mut buf = vec![0u8; 4096];
                    let got = if in_memory {
                        futures_util::FutureExt::now_or_never(r.read(&mut buf)).ok_or(())
                    } else {
                        tokio::time::timeout(std::time::Duration::from_secs(2), r.read(&mut buf)).await.map_err(|_| ())
                    };
                    match got {
                        Ok(Ok(0)) => {
                            rep.violate(format!("C18/{name}/bytes-lost"), format!("drain: end of stream with {} bytes outstanding", sent[dir].len() - recv[dir]));
                            break;
                        }
                        Ok(Ok(n)) => {
                            let end = (recv[dir] + n).min(sent[dir].len());
                            if recv[dir] + n > sent[dir].len() || buf[..n] != sent[dir][recv[dir]..end] {
                                rep.violate(format!("C18/{name}/read-bytes-differ"), format!("drain: bytes at offset {} differ", recv[dir]));
                                break;
                            }
                            recv[dir] += n;
                        }
                        Ok(Err(e)) => {
                            rep.violate(format!("C18/{name}/read-failed-on-healthy-pair"), format!("drain: read failed with {e}"));
                            break;
                        }
                        Err(_) if in_memory => {
                            rep.violate(format!("C18/{name}/bytes-lost"), format!("drain: {} written bytes never arrived", sent[dir].len() - recv[dir]));
                            break;
                        }
                        Err(_) => {
                            rep.class("socket-read-guard-expired-inconclusive");
                            break;
                        }
                    }
                }
                if shut[dir] {
                    let mut buf = [0u8; 16];
                    let got = if in_memory {
                        futures_util::FutureExt::now_or_never(r.read(&mut buf)).ok_or(())
                    } else {
                        tokio::time::timeout(std::time::Duration::from_secs(2), r.read(&mut buf)).await.map_err(|_| ())
                    };
                    match got {
                        Ok(Ok(0)) => {}
                        Ok(Ok(n)) => rep.violate(format!("C18/{name}/bytes-invented"), format!("{n} bytes arrived after everything written had been read and the writer shut down")),
                        Ok(Err(_)) => {}
                        Err(_) if in_memory => rep.violate(format!("C18/{name}/eof-not-propagated"), "writer shut down but the reader never sees end of stream".to_string()),
                        Err(_) => rep.class("socket-read-guard-expired-inconclusive"),
                    }
                }
            }
            rep.class(name);
            if partial {
                rep.class("partial-transfer");
            }
            rep.nontrivial = sent[0].len() + sent[1].len() > 0 && partial;
            Ok(())
        });
        if let Err(e) = res {
            rep.internal_error = Some(format!("{name}: {e}"));
        }
        rep.total_ops = c.ops.len() as u64;
        rep
    }
}

pub fn pair_strategy(kinds: std::ops::Range<u8>) -> impl proptest::strategy::Strategy<Value = PairCase> {
    use proptest::prelude::*;
    let op = prop_oneof![
        5 => (any::<bool>(), prop_oneof![Just(1u16), 2u16..64, 64u16..3000]).prop_map(|(from, len)| PairOp::Write { from, len }),
        5 => (any::<bool>(), prop_oneof![Just(0u16), Just(1u16), 2u16..64, 64u16..3000]).prop_map(|(at, cap)| PairOp::Read { at, cap }),
        1 => any::<bool>().prop_map(|at| PairOp::Flush { at }),
        1 => any::<bool>().prop_map(|at| PairOp::Shutdown { at }),
        2 => (any::<bool>(), proptest::collection::vec(prop_oneof![2 => Just(0u16), 2 => 1u16..64, 1 => 64u16..2000], 0..5)).prop_map(|(from, lens)| PairOp::WriteV { from, lens }),
    ];
    (kinds, prop_oneof![Just(1u16), 2u16..32, 32u16..4096], proptest::collection::vec(op, 1..40)).prop_map(|(kind, buf, ops)| PairCase { kind, buf, ops })
}

// ------------------------------------------------------------------------------------------------
// TLS pair leg: client Stream (TLS over duplex, lazy handshake) <-> server Stream (TLS accept over
// Braid). Both ends are driven concurrently (reader tasks with scripted buffer sizes, writer ops
// from the script) on a paused-clock runtime; the decrypted byte streams are compared with the
// reference FIFO, and end-of-stream must follow a shutdown (close_notify).

#[derive(Clone, Debug, Serialize, Deserialize, PartialEq)]
pub struct TlsPairCase {
    pub buf: u16,
    pub ops: Vec<PairOp>,
    /// read buffer sizes cycled through by the reader of each end (0 is replaced by 1)
    pub caps: Vec<u16>,
    /// after the script: this end (false client, true server) goes away without shutting down; the
    /// peer must be told by an error, a truncated stream is not a clean end of stream
    #[serde(default)]
    pub abort: Option<bool>,
}

pub struct TlsPairEngine;

impl Engine for TlsPairEngine {
    type Case = TlsPairCase;
    fn name(&self) -> &'static str {
        "iomodel-tlspair"
    }
    fn run_case(&self, c: &TlsPairCase) -> CaseReport {
        use crate::engines::tlswire::{client_config, install_provider, server_config};
        use hyperdriver::stream::duplex::DuplexStream;
        use hyperdriver::stream::Braid;
        use tokio::io::{AsyncReadExt, AsyncWriteExt};
        install_provider();
        let mut rep = CaseReport::default();
        let name = "tls-duplex-stream";
        let rt = tokio::runtime::Builder::new_current_thread().enable_time().start_paused(true).build().unwrap();
        let c = c.clone();
        let nops = c.ops.len() as u64;
        #[derive(Default)]
        struct Got {
            data: Vec<u8>,
            eof: bool,
            err: Option<String>,
        }
        let out: Vec<(String, String)> = rt.block_on(async move {
            let mut v: Vec<(String, String)> = vec![];
            let (da, db) = DuplexStream::new((c.buf as usize).max(1));
            let raw = std::env::var_os("VERIF_TLSPAIR_RAW").is_some();
            let (a, b): (DynIo, DynIo) = if raw {
                // reference experiment: plain tokio-rustls over tokio's duplex, no hyperdriver wrapper
                let (ta, tb) = tokio::io::duplex((c.buf as usize).max(1));
                let sname = rustls::pki_types::ServerName::try_from("example.com").unwrap();
                let connect = tokio_rustls::TlsConnector::from(Arc::new(client_config(0))).connect(sname, ta);
                let accept = tokio_rustls::TlsAcceptor::from(Arc::new(server_config(0, 0, Default::default()))).accept(tb);
                drop((da, db));
                match tokio::time::timeout(std::time::Duration::from_secs(30), async { tokio::join!(connect, accept) }).await {
                    Ok((Ok(ca), Ok(sb))) => (Box::pin(ca), Box::pin(sb)),
                    other => {
                        v.push((format!("C18/{name}/reference-handshake-stalls"), format!("plain tokio-rustls over a {}-byte pipe: {}", c.buf, if other.is_err() { "no progress for 30 virtual seconds" } else { "handshake error" })));
                        return v;
                    }
                }
            } else {
                let a: hyperdriver::client::conn::Stream = da.into();
                let a = a.tls("example.com", Arc::new(client_config(0)));
                let accept = tokio_rustls::TlsAcceptor::from(Arc::new(server_config(0, 0, Default::default()))).accept(Braid::from(db));
                let b: hyperdriver::server::conn::Stream = hyperdriver::server::conn::tls::TlsStream::new(accept).into();
                (Box::pin(a), Box::pin(b))
            };
            let caps: Vec<usize> = if c.caps.is_empty() { vec![4096] } else { c.caps.iter().map(|x| (*x as usize).max(1)).collect() };
            // Both ends are polled from this one task (one waker): a lazily-handshaking stream shared
            // between a reading and a writing task would depend on which task polled it last.
            struct End<S> {
                s: S,
                got: Got,
                caps: Vec<usize>,
                ci: usize,
            }
            fn pump<S: AsyncRead + Unpin>(e: &mut End<S>, cx: &mut Context<'_>) {
                while !e.got.eof && e.got.err.is_none() {
                    let mut buf = vec![0u8; e.caps[e.ci % e.caps.len()]];
                    let mut rb = ReadBuf::new(&mut buf);
                    match Pin::new(&mut e.s).poll_read(cx, &mut rb) {
                        Poll::Ready(Ok(())) => {
                            e.ci += 1;
                            if rb.filled().is_empty() {
                                e.got.eof = true;
                            } else {
                                e.got.data.extend_from_slice(rb.filled());
                            }
                        }
                        Poll::Ready(Err(err)) => e.got.err = Some(err.to_string()),
                        Poll::Pending => break,
                    }
                }
            }
            // end 0 = client (reads direction 1), end 1 = server (reads direction 0)
            let mut ea = End { s: a, got: Got::default(), caps: caps.iter().rev().cloned().collect(), ci: 0 };
            let mut eb = End { s: b, got: Got::default(), caps: caps.clone(), ci: 0 };
            let mut sent: [Vec<u8>; 2] = [vec![], vec![]];
            let mut shut = [false, false];
            let mut idx = 0usize;
            let mut flushed = [false, false];
            let mut failure: Option<(String, String)> = None;
            let mut aborted: Option<usize> = None;
            let ops = c.ops.clone();
            let mut pending_data: Option<Vec<u8>> = None;
            let fut = std::future::poll_fn(|cx| {
                loop {
                    pump(&mut ea, cx);
                    pump(&mut eb, cx);
                    if idx < ops.len() {
                        let step = idx;
                        match &ops[idx] {
                            PairOp::Write { from, len } => {
                                let dir = *from as usize;
                                if shut[dir] || *len == 0 {
                                    idx += 1;
                                    continue;
                                }
                                let data = pending_data.get_or_insert_with(|| {
                                    let start = sent[dir].len();
                                    (start..start + *len as usize).map(|i| wbyte(i + dir * 17)).collect()
                                });
                                let r = if dir == 0 { Pin::new(&mut ea.s).poll_write(cx, data) } else { Pin::new(&mut eb.s).poll_write(cx, data) };
                                match r {
                                    Poll::Ready(Ok(n)) if n <= data.len() => {
                                        sent[dir].extend_from_slice(&data[..n]);
                                        pending_data = None;
                                        idx += 1;
                                    }
                                    Poll::Ready(Ok(n)) => {
                                        failure = Some((format!("C18/{name}/write-reports-more-than-given"), format!("step {step}: {n} of {}", data.len())));
                                        return Poll::Ready(());
                                    }
                                    Poll::Ready(Err(e)) => {
                                        failure = Some((format!("C18/{name}/write-failed-on-healthy-pair"), format!("step {step}: {e}")));
                                        return Poll::Ready(());
                                    }
                                    Poll::Pending => return Poll::Pending,
                                }
                            }
                            PairOp::Read { .. } => idx += 1,
                            PairOp::Flush { at } => {
                                let r = if *at { Pin::new(&mut eb.s).poll_flush(cx) } else { Pin::new(&mut ea.s).poll_flush(cx) };
                                match r {
                                    Poll::Ready(Ok(())) => idx += 1,
                                    Poll::Ready(Err(e)) => {
                                        if shut[*at as usize] {
                                            idx += 1;
                                        } else {
                                            failure = Some((format!("C18/{name}/flush-failed-on-healthy-pair"), format!("step {step}: {e}")));
                                            return Poll::Ready(());
                                        }
                                    }
                                    Poll::Pending => return Poll::Pending,
                                }
                            }
                            PairOp::WriteV { .. } => {
                                // (the TLS pair leg does not generate vectored writes)
                                idx += 1;
                                continue;
                            }
                            PairOp::Shutdown { at } => {
                                let dir = *at as usize;
                                if shut[dir] {
                                    idx += 1;
                                    continue;
                                }
                                let r = if *at { Pin::new(&mut eb.s).poll_shutdown(cx) } else { Pin::new(&mut ea.s).poll_shutdown(cx) };
                                match r {
                                    Poll::Ready(Ok(())) => {
                                        shut[dir] = true;
                                        idx += 1;
                                        // A shutdown by an end that has neither written nor received anything
                                        // may precede the end of its (lazy) handshake: no TLS session exists
                                        // that could be half-closed, the connection is simply given up. From
                                        // here on only "the peer learns about it" and "nothing invented" hold.
                                        let me = if dir == 0 { &ea.got } else { &eb.got };
                                        if sent[dir].is_empty() && me.data.is_empty() {
                                            aborted = Some(dir);
                                            idx = ops.len();
                                        }
                                    }
                                    Poll::Ready(Err(e)) => {
                                        failure = Some((format!("C18/{name}/shutdown-failed-on-healthy-pair"), format!("step {step}: {e}")));
                                        return Poll::Ready(());
                                    }
                                    Poll::Pending => return Poll::Pending,
                                }
                            }
                        }
                        continue;
                    }
                    // script finished: flush what was written, then wait for it to arrive
                    let mut blocked = false;
                    for d in 0..2 {
                        if !flushed[d] && !shut[d] {
                            let r = if d == 0 { Pin::new(&mut ea.s).poll_flush(cx) } else { Pin::new(&mut eb.s).poll_flush(cx) };
                            match r {
                                Poll::Ready(_) => flushed[d] = true,
                                Poll::Pending => blocked = true,
                            }
                        }
                    }
                    if blocked {
                        return Poll::Pending;
                    }
                    pump(&mut ea, cx);
                    pump(&mut eb, cx);
                    if let Some(d) = aborted {
                        let peer = if d == 0 { &eb.got } else { &ea.got };
                        return if peer.eof || peer.err.is_some() { Poll::Ready(()) } else { Poll::Pending };
                    }
                    let done = |g: &Got, d: usize| g.err.is_some() || (g.data.len() >= sent[d].len() && (!shut[d] || g.eof));
                    if done(&eb.got, 0) && done(&ea.got, 1) {
                        return Poll::Ready(());
                    }
                    return Poll::Pending;
                }
            });
            let timed_out = tokio::time::timeout(std::time::Duration::from_secs(30), fut).await.is_err();
            if let Some(f) = failure {
                v.push(f);
                return v;
            }
            if timed_out && idx < ops.len() {
                v.push((format!("C18/{name}/operation-never-completes"), format!("step {idx} ({:?}) made no progress for 30 virtual seconds although the peer keeps reading", ops[idx])));
                return v;
            }
            if let Some(d) = aborted {
                let (peer, dn) = if d == 0 { (&eb.got, "client") } else { (&ea.got, "server") };
                if !(peer.eof || peer.err.is_some()) {
                    v.push((format!("C18/{name}/eof-not-propagated"), format!("the {dn} shut its stream down before exchanging any data (shutdown reported success) but its peer sees neither end of stream nor an error")));
                }
                for (g, dd) in [(&eb.got, 0usize), (&ea.got, 1usize)] {
                    if g.data.len() > sent[dd].len() || g.data[..] != sent[dd][..g.data.len()] {
                        v.push((format!("C18/{name}/bytes-invented"), format!("direction {dd}: received bytes are not a prefix of what was written")));
                    }
                }
                v.push(("class".into(), format!("{}", sent[0].len() + sent[1].len())));
                v.push(("shut".into(), "9".into()));
                return v;
            }
            for d in 0..2 {
                let g = if d == 0 { &eb.got } else { &ea.got };
                let dn = if d == 0 { "client->server" } else { "server->client" };
                if let Some(e) = &g.err {
                    v.push((format!("C18/{name}/read-failed-on-healthy-pair"), format!("{dn}: {e} after {} of {} bytes", g.data.len(), sent[d].len())));
                    continue;
                }
                let n = g.data.len().min(sent[d].len());
                if g.data[..n] != sent[d][..n] {
                    let at = (0..n).find(|i| g.data[*i] != sent[d][*i]).unwrap_or(0);
                    v.push((format!("C18/{name}/read-bytes-differ"), format!("{dn}: byte {at} differs from what was written")));
                } else if g.data.len() > sent[d].len() {
                    v.push((format!("C18/{name}/bytes-invented"), format!("{dn}: {} bytes arrived, {} were written", g.data.len(), sent[d].len())));
                } else if g.data.len() < sent[d].len() {
                    let sig = if g.eof { "early-eof" } else { "bytes-lost" };
                    v.push((format!("C18/{name}/{sig}"), format!("{dn}: {} of {} written (and flushed) bytes arrived (eof {})", g.data.len(), sent[d].len(), g.eof)));
                } else if shut[d] && !g.eof {
                    v.push((format!("C18/{name}/eof-not-propagated"), format!("{dn}: the writer shut down but the reader never sees end of stream")));
                } else if !shut[d] && g.eof {
                    v.push((format!("C18/{name}/early-eof"), format!("{dn}: end of stream although the writer did not shut down")));
                }
            }
            // ---- abrupt end: one end is dropped without shutdown; its peer must see an error
            if let (Some(x), true) = (c.abort, v.is_empty()) {
                let x = x as usize;
                if !shut[x] && !raw && sent[0].len() + sent[1].len() > 0 {
                    let (gone, mut stay) = if x == 0 { (ea, eb) } else { (eb, ea) };
                    drop(gone);
                    stay.got.eof = false;
                    let wait = std::future::poll_fn(|cx| {
                        pump(&mut stay, cx);
                        if stay.got.eof || stay.got.err.is_some() {
                            Poll::Ready(())
                        } else {
                            Poll::Pending
                        }
                    });
                    let _ = tokio::time::timeout(std::time::Duration::from_secs(30), wait).await;
                    let dn = if x == 0 { "client" } else { "server" };
                    if stay.got.eof && stay.got.err.is_none() {
                        v.push((format!("C18/{name}/truncation-reported-as-clean-eof"), format!("the {dn} went away without shutting its TLS stream down; its peer read a clean end of stream instead of an error")));
                    } else if stay.got.err.is_none() {
                        v.push((format!("C18/{name}/eof-not-propagated"), format!("the {dn} went away; its peer sees neither an error nor the end of the stream")));
                    }
                    v.push(("abort".into(), "1".into()));
                }
            }
            v.push(("class".into(), format!("{}", sent[0].len() + sent[1].len())));
            v.push(("shut".into(), format!("{}", shut[0] as u8 + shut[1] as u8)));
            v
        });
        drop(rt);
        let mut moved = 0usize;
        let mut shuts = 0;
        for (sig, msg) in out {
            match sig.as_str() {
                "class" => moved = msg.parse().unwrap_or(0),
                "shut" => shuts = msg.parse().unwrap_or(0),
                "abort" => {
                    rep.class("tls-abrupt-end-without-close-notify");
                }
                _ => rep.violate(sig, msg),
            }
        }
        rep.class(name);
        if shuts == 9 {
            rep.class("tls-shutdown-before-any-data");
        } else if shuts > 0 {
            rep.class("tls-half-close");
        }
        if c.buf < 64 {
            rep.class("tls-over-tiny-pipe");
        }
        rep.nontrivial = moved > 0;
        rep.total_ops = nops;
        rep
    }
}

pub fn tls_pair_strategy() -> impl proptest::strategy::Strategy<Value = TlsPairCase> {
    use proptest::prelude::*;
    let op = prop_oneof![
        6 => (any::<bool>(), prop_oneof![Just(1u16), 2u16..64, 64u16..3000, 3000u16..40000]).prop_map(|(from, len)| PairOp::Write { from, len }),
        2 => (any::<bool>(), Just(1u16)).prop_map(|(at, cap)| PairOp::Read { at, cap }),
        2 => any::<bool>().prop_map(|at| PairOp::Flush { at }),
        1 => any::<bool>().prop_map(|at| PairOp::Shutdown { at }),
    ];
    (
        // below 6 bytes (a TLS record header is 5) the TLS stack itself stalls over an in-process pipe,
        // with or without hyperdriver's wrappers (VERIF_TLSPAIR_RAW=1 runs plain tokio-rustls)
        prop_oneof![Just(16u16), 16u16..64, 64u16..4096, Just(65535u16)],
        proptest::collection::vec(op, 1..24),
        proptest::collection::vec(prop_oneof![Just(1u16), 2u16..64, 64u16..20000], 1..4),
        prop_oneof![2 => Just(None), 1 => any::<bool>().prop_map(Some)],
    )
        .prop_map(|(buf, ops, caps, abort)| TlsPairCase { buf, ops, caps, abort })
}

// ------------------------------------------------------------------------------------------------
// An aborted TCP connection is not an orderly end of the stream: one end writes some bytes, the
// other reads them all, then the first end is dropped with SO_LINGER 0 (the kernel sends RST, as a
// crashed peer or a middlebox does). The reader's next read has to fail - `Ok(0)` would invent an end
// of stream and let a truncated message pass for a complete one.

#[derive(Clone, Debug, Serialize, Deserialize, PartialEq)]
pub struct ResetCase {
    pub pre: u16,
    /// the reading end is the client-side wrapper (else the server-side one)
    pub reader_is_client: bool,
    pub cap: u16,
}

pub struct TcpResetEngine;

impl Engine for TcpResetEngine {
    type Case = ResetCase;
    fn name(&self) -> &'static str {
        "tcpreset"
    }
    fn real_time(&self) -> bool {
        true
    }
    fn run_case(&self, c: &ResetCase) -> CaseReport {
        use hyperdriver::stream::Braid;
        use tokio::io::{AsyncReadExt, AsyncWriteExt};
        let mut rep = CaseReport::default();
        let rt = tokio::runtime::Builder::new_current_thread().enable_all().build().unwrap();
        let res: Result<(), String> = rt.block_on(async {
            let l = tokio::net::TcpListener::bind("127.0.0.1:0").await.map_err(|e| e.to_string())?;
            let addr = l.local_addr().map_err(|e| e.to_string())?;
            let (cl, sv) = tokio::try_join!(tokio::net::TcpStream::connect(addr), async { l.accept().await.map(|(s, _)| s) }).map_err(|e| e.to_string())?;
            let peer = cl.local_addr().map_err(|e| e.to_string())?;
            // the writer is the end that will be aborted
            let (mut writer, mut reader): (DynIo, DynIo) = if c.reader_is_client {
                sv.set_linger(Some(std::time::Duration::ZERO)).map_err(|e| e.to_string())?;
                let w: hyperdriver::server::conn::Stream = Braid::from(hyperdriver::stream::TcpStream::server(sv, peer)).into();
                let r: hyperdriver::client::conn::Stream = hyperdriver::stream::TcpStream::client(cl).into();
                (Box::pin(w), Box::pin(r))
            } else {
                cl.set_linger(Some(std::time::Duration::ZERO)).map_err(|e| e.to_string())?;
                let w: hyperdriver::client::conn::Stream = hyperdriver::stream::TcpStream::client(cl).into();
                let r: hyperdriver::server::conn::Stream = Braid::from(hyperdriver::stream::TcpStream::server(sv, peer)).into();
                (Box::pin(w), Box::pin(r))
            };
            let data: Vec<u8> = (0..c.pre as usize).map(wbyte).collect();
            if !data.is_empty() {
                writer.write_all(&data).await.map_err(|e| format!("write: {e}"))?;
                let mut got = vec![0u8; data.len()];
                match tokio::time::timeout(std::time::Duration::from_secs(3), reader.read_exact(&mut got)).await {
                    Ok(Ok(_)) if got == data => {}
                    Ok(Ok(_)) => {
                        rep.violate("C18/tcp-braid-stream/read-bytes-differ", "bytes before the abort differ".to_string());
                        return Ok(());
                    }
                    Ok(Err(e)) => {
                        rep.violate("C18/tcp-braid-stream/read-failed-on-healthy-pair", format!("reading the {} bytes written before the abort failed: {e}", data.len()));
                        return Ok(());
                    }
                    Err(_) => {
                        rep.class("socket-read-guard-expired-inconclusive");
                        return Ok(());
                    }
                }
            }
            drop(writer); // SO_LINGER 0: the kernel resets the connection
            let mut buf = vec![0u8; (c.cap as usize).max(1)];
            match tokio::time::timeout(std::time::Duration::from_secs(3), reader.read(&mut buf)).await {
                Ok(Err(_)) => {}
                Ok(Ok(0)) => rep.violate("C18/tcp-braid-stream/reset-reported-as-end-of-stream", format!("{c:?}: the peer aborted the connection (RST) after {} bytes; the next read returned Ok(0) - an orderly end of stream that never happened", data.len())),
                Ok(Ok(n)) => rep.violate("C18/tcp-braid-stream/bytes-invented", format!("{c:?}: {n} bytes arrived after everything written had been read and the peer aborted")),
                Err(_) => rep.class("socket-read-guard-expired-inconclusive"),
            }
            rep.class("tcp-connection-aborted-by-peer");
            Ok(())
        });
        if let Err(e) = res {
            rep.internal_error = Some(format!("tcpreset: {e}"));
        }
        rep.nontrivial = c.pre > 0;
        rep.total_ops = 2;
        rep
    }
}

pub fn reset_strategy() -> impl proptest::strategy::Strategy<Value = ResetCase> {
    use proptest::prelude::*;
    (prop_oneof![1 => Just(0u16), 3 => 1u16..64, 2 => 64u16..5000], any::<bool>(), prop_oneof![Just(1u16), 2u16..64, 64u16..4096]).prop_map(|(pre, reader_is_client, cap)| ResetCase { pre, reader_is_client, cap })
}
