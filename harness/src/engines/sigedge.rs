//! Graceful shutdown with the signal landing *exactly* on an event of a connection (C07): raw clients
//! on in-memory duplex streams connect at one virtual instant and write their complete request at
//! another; the signal resolves at a third. Because the clock is virtual, "the same millisecond" is
//! the same scheduler turn: the connection task learns of the request bytes and of the shutdown in
//! one poll - a position of the signal ("protocol detection", "request head") that a sweep over
//! client stacks with their own task hops reaches only by luck.
//!
//! Clients speak HTTP/1.1 (one `write` with the whole request) or HTTP/2 (hand-encoded preface,
//! SETTINGS and one HEADERS frame; the reader acknowledges SETTINGS and PING as a real peer does).
//!
//! Oracle (from the statement): a connection that was accepted before the signal and whose complete
//! request had been written by the instant of the signal is an exchange the server had started to
//! handle (written in the very instant of the signal: iff the server has read from it - the accepted
//! streams count what the server reads): the full response arrives, then the connection is closed. Connections accepted before
//! the signal with nothing in flight are closed. The serving future resolves `Ok` at the signal.

use crate::common::{CaseReport, Engine};
use serde::{Deserialize, Serialize};
use std::sync::atomic::{AtomicUsize, Ordering};
use std::sync::{Arc, Mutex};
use std::time::Duration;

#[derive(Clone, Debug, Serialize, Deserialize, PartialEq)]
pub struct SigClient {
    pub connect_ms: u8,
    /// the request is written this long after the connect
    pub write_after_ms: u8,
    /// only meaningful with the auto-detecting server: speak HTTP/2
    pub h2: bool,
    /// HTTP/1.1 only: the request asks to keep the connection alive
    pub keep_alive: bool,
}

#[derive(Clone, Debug, Serialize, Deserialize, PartialEq)]
pub struct SigCase {
    /// 0 `with_http1`, 1 `with_auto_http`, 2 `with_http2`
    pub proto: u8,
    pub clients: Vec<SigClient>,
    pub signal_ms: u8,
    pub handler_ms: u8,
}

const MARK: &str = "sig-edge-response-body-0123456789";
const H2_PREFACE: &[u8] = b"PRI * HTTP/2.0\r\n\r\nSM\r\n\r\n";

fn h2_request() -> Vec<u8> {
    let mut v = H2_PREFACE.to_vec();
    // SETTINGS, empty
    v.extend_from_slice(&[0, 0, 0, 4, 0, 0, 0, 0, 0]);
    // HEADERS on stream 1, END_STREAM | END_HEADERS: :method GET, :scheme http, :path /
    v.extend_from_slice(&[0, 0, 3, 1, 5, 0, 0, 0, 1, 0x82, 0x86, 0x84]);
    v
}

/// The accepted stream counts the bytes the server has read from it: "the server consumed the
/// request" is what the oracle needs to know for a request written in the instant of the signal.
pub struct CountIo {
    inner: hyperdriver::stream::duplex::DuplexStream,
    read: Arc<AtomicUsize>,
}
impl std::fmt::Debug for CountIo {
    fn fmt(&self, f: &mut std::fmt::Formatter<'_>) -> std::fmt::Result {
        write!(f, "CountIo")
    }
}
impl hyperdriver::info::HasConnectionInfo for CountIo {
    type Addr = hyperdriver::info::DuplexAddr;
    fn info(&self) -> hyperdriver::info::ConnectionInfo<Self::Addr> {
        self.inner.info()
    }
}
impl tokio::io::AsyncRead for CountIo {
    fn poll_read(mut self: std::pin::Pin<&mut Self>, cx: &mut std::task::Context<'_>, buf: &mut tokio::io::ReadBuf<'_>) -> std::task::Poll<std::io::Result<()>> {
        let before = buf.filled().len();
        let r = std::pin::Pin::new(&mut self.inner).poll_read(cx, buf);
        if let std::task::Poll::Ready(Ok(())) = &r {
            self.read.fetch_add(buf.filled().len() - before, Ordering::SeqCst);
        }
        r
    }
}
impl tokio::io::AsyncWrite for CountIo {
    fn poll_write(mut self: std::pin::Pin<&mut Self>, cx: &mut std::task::Context<'_>, buf: &[u8]) -> std::task::Poll<std::io::Result<usize>> {
        std::pin::Pin::new(&mut self.inner).poll_write(cx, buf)
    }
    fn poll_flush(mut self: std::pin::Pin<&mut Self>, cx: &mut std::task::Context<'_>) -> std::task::Poll<std::io::Result<()>> {
        std::pin::Pin::new(&mut self.inner).poll_flush(cx)
    }
    fn poll_shutdown(mut self: std::pin::Pin<&mut Self>, cx: &mut std::task::Context<'_>) -> std::task::Poll<std::io::Result<()>> {
        std::pin::Pin::new(&mut self.inner).poll_shutdown(cx)
    }
}

pub struct CountAcceptor {
    inner: hyperdriver::stream::duplex::DuplexIncoming,
    /// one counter per accepted connection, in accept order
    counters: Arc<Mutex<Vec<Arc<AtomicUsize>>>>,
}
impl hyperdriver::server::conn::Accept for CountAcceptor {
    type Conn = CountIo;
    type Error = std::io::Error;
    fn poll_accept(mut self: std::pin::Pin<&mut Self>, cx: &mut std::task::Context<'_>) -> std::task::Poll<Result<Self::Conn, Self::Error>> {
        match hyperdriver::server::conn::Accept::poll_accept(std::pin::Pin::new(&mut self.inner), cx) {
            std::task::Poll::Ready(Ok(s)) => {
                let read = Arc::new(AtomicUsize::new(0));
                self.counters.lock().unwrap().push(read.clone());
                std::task::Poll::Ready(Ok(CountIo { inner: s, read }))
            }
            std::task::Poll::Ready(Err(e)) => std::task::Poll::Ready(Err(e)),
            std::task::Poll::Pending => std::task::Poll::Pending,
        }
    }
}

#[derive(Default, Clone, Debug)]
struct ClientOut {
    connected_at: Option<u64>,
    written_at: Option<u64>,
    write_failed: bool,
    bytes: Vec<u8>,
    eof_at: Option<u64>,
    /// HTTP/2: (saw response HEADERS on stream 1, DATA bytes of stream 1, END_STREAM seen)
    h2_headers: bool,
    h2_data: Vec<u8>,
    h2_end: bool,
}

pub struct SigEdgeEngine;

impl Engine for SigEdgeEngine {
    type Case = SigCase;
    fn name(&self) -> &'static str {
        "sigedge"
    }
    fn run_case(&self, c: &SigCase) -> CaseReport {
        use tokio::io::{AsyncReadExt, AsyncWriteExt};
        let mut rep = CaseReport::default();
        let _ = crate::panichook::take_all();
        let rt = tokio::runtime::Builder::new_current_thread().enable_time().start_paused(true).build().unwrap();
        let c2 = c.clone();
        let proto = c.proto % 3;
        let res = std::panic::catch_unwind(std::panic::AssertUnwindSafe(|| {
            rt.block_on(async move {
                let t0 = tokio::time::Instant::now();
                let now = move || t0.elapsed().as_millis() as u64;
                let (client, incoming) = hyperdriver::stream::duplex::pair();
                let handler_ms = c2.handler_ms as u64;
                let started: Arc<Mutex<Vec<u64>>> = Default::default();
                let started2 = started.clone();
                let handler = tower::service_fn(move |_req: http::Request<hyperdriver::Body>| {
                    started2.lock().unwrap().push(t0.elapsed().as_millis() as u64);
                    async move {
                        if handler_ms > 0 {
                            tokio::time::sleep(Duration::from_millis(handler_ms)).await;
                        }
                        Ok::<_, std::io::Error>(http::Response::new(hyperdriver::Body::from(MARK.to_string())))
                    }
                });
                let sig = Duration::from_millis(c2.signal_ms as u64);
                let done: Arc<Mutex<Option<(Result<(), String>, u64)>>> = Default::default();
                let done2 = done.clone();
                let counters: Arc<Mutex<Vec<Arc<AtomicUsize>>>> = Default::default();
                let base = hyperdriver::Server::builder::<hyperdriver::Body>().with_acceptor(hyperdriver::server::conn::Acceptor::new(CountAcceptor { inner: incoming, counters: counters.clone() }));
                macro_rules! serve {
                    ($s:expr) => {{
                        let s = $s.with_shared_service(handler).with_tokio().with_graceful_shutdown(tokio::time::sleep(sig));
                        tokio::spawn(async move {
                            let r = s.await.map_err(|e| e.to_string());
                            *done2.lock().unwrap() = Some((r, t0.elapsed().as_millis() as u64));
                        })
                    }};
                }
                let server = match proto {
                    0 => serve!(base.with_http1()),
                    1 => serve!(base.with_auto_http()),
                    _ => serve!(base.with_http2()),
                };
                let mut tasks = vec![];
                for (i, cl) in c2.clients.iter().cloned().enumerate() {
                    let client = client.clone();
                    let h2 = match proto {
                        0 => false,
                        1 => cl.h2,
                        _ => true,
                    };
                    tasks.push(tokio::spawn(async move {
                        let mut out = ClientOut::default();
                        tokio::time::sleep(Duration::from_millis(cl.connect_ms as u64)).await;
                        let Ok(Ok(mut s)) = tokio::time::timeout(Duration::from_secs(2), client.connect(16384)).await else {
                            return (i, out);
                        };
                        out.connected_at = Some(now());
                        if cl.write_after_ms > 0 {
                            tokio::time::sleep(Duration::from_millis(cl.write_after_ms as u64)).await;
                        }
                        let req: Vec<u8> = if h2 {
                            h2_request()
                        } else if cl.keep_alive {
                            b"GET /edge HTTP/1.1\r\nhost: edge.test\r\n\r\n".to_vec()
                        } else {
                            b"GET /edge HTTP/1.1\r\nhost: edge.test\r\nconnection: close\r\n\r\n".to_vec()
                        };
                        match s.write_all(&req).await {
                            Ok(()) => out.written_at = Some(now()),
                            Err(_) => out.write_failed = true,
                        }
                        let mut b = [0u8; 1024];
                        let mut parsed = 0usize;
                        loop {
                            match tokio::time::timeout(Duration::from_secs(5), s.read(&mut b)).await {
                                Ok(Ok(0)) | Ok(Err(_)) => {
                                    out.eof_at = Some(now());
                                    break;
                                }
                                Ok(Ok(n)) => out.bytes.extend_from_slice(&b[..n]),
                                Err(_) => break,
                            }
                            if h2 {
                                // frames: acknowledge SETTINGS and PING, collect the response of stream 1
                                while out.bytes.len() >= parsed + 9 {
                                    let f = &out.bytes[parsed..];
                                    let len = ((f[0] as usize) << 16) | ((f[1] as usize) << 8) | f[2] as usize;
                                    if out.bytes.len() < parsed + 9 + len {
                                        break;
                                    }
                                    let (ty, flags) = (f[3], f[4]);
                                    let stream = u32::from_be_bytes([f[5] & 0x7f, f[6], f[7], f[8]]);
                                    let payload = f[9..9 + len].to_vec();
                                    parsed += 9 + len;
                                    match ty {
                                        4 if flags & 1 == 0 => {
                                            let _ = s.write_all(&[0, 0, 0, 4, 1, 0, 0, 0, 0]).await;
                                        }
                                        6 if flags & 1 == 0 && payload.len() == 8 => {
                                            let mut ack = vec![0, 0, 8, 6, 1, 0, 0, 0, 0];
                                            ack.extend_from_slice(&payload);
                                            let _ = s.write_all(&ack).await;
                                        }
                                        1 if stream == 1 => {
                                            out.h2_headers = true;
                                            if flags & 1 != 0 {
                                                out.h2_end = true;
                                            }
                                        }
                                        0 if stream == 1 => {
                                            out.h2_data.extend_from_slice(&payload);
                                            if flags & 1 != 0 {
                                                out.h2_end = true;
                                            }
                                        }
                                        _ => {}
                                    }
                                }
                            }
                        }
                        (i, out)
                    }));
                }
                let mut outs: Vec<(usize, ClientOut)> = vec![];
                for t in tasks {
                    if let Ok(Ok(o)) = tokio::time::timeout(Duration::from_secs(30), t).await {
                        outs.push(o);
                    }
                }
                tokio::time::sleep(Duration::from_millis(50)).await;
                server.abort();
                let d = done.lock().unwrap().clone();
                let st = started.lock().unwrap().clone();
                let consumed: Vec<usize> = counters.lock().unwrap().iter().map(|c| c.load(Ordering::SeqCst)).collect();
                (outs, d, st, consumed)
            })
        }));
        drop(rt);
        for (loc, msg) in crate::panichook::take_all() {
            if crate::panichook::in_library(&loc) {
                rep.violate("C07/panic-in-library-task", format!("{c:?}: panic at {loc}: {msg}"));
            }
        }
        let Ok((outs, done, started, consumed)) = res else {
            if rep.violations.is_empty() {
                rep.internal_error = Some(format!("harness panic at {}: {}", crate::panichook::last_location(), crate::panichook::last_message()));
            }
            return rep;
        };
        let sig = c.signal_ms as u64;
        let desc = format!("{c:?}: handlers started at {started:?} ms; serving future {done:?}");
        match &done {
            Some((Ok(()), t)) if *t == sig => {}
            Some((Ok(()), t)) => rep.violate("C07/server-future-not-resolved-at-signal", format!("{desc}: resolved at {t} ms, the signal fired at {sig} ms")),
            Some((Err(e), _)) => rep.violate("C07/server-future-failed", format!("{desc}: {e}")),
            None => rep.violate("C07/server-future-not-resolved-at-signal", format!("{desc}: still pending long after the signal at {sig} ms")),
        }
        // connect requests queue up in the order they are made (connect instant, then spawn order) and are
        // accepted in that order: the k-th accepted connection belongs to the k-th client of that order
        let mut order: Vec<(u8, usize)> = c.clients.iter().enumerate().map(|(k, cl)| (cl.connect_ms, k)).collect();
        order.sort();
        for (i, o) in &outs {
            let cl = &c.clients[*i];
            let server_read = order.iter().position(|(_, k)| k == i).and_then(|k| consumed.get(k)).copied().unwrap_or(0);
            let _req_len = if match proto { 0 => false, 1 => cl.h2, _ => true } { h2_request().len() } else if cl.keep_alive { 39 } else { 58 };
            let h2 = match proto {
                0 => false,
                1 => cl.h2,
                _ => true,
            };
            let Some(connected) = o.connected_at else { continue };
            let answered = if h2 {
                o.h2_headers && o.h2_end && o.h2_data == MARK.as_bytes()
            } else {
                let text = String::from_utf8_lossy(&o.bytes);
                text.starts_with("HTTP/1.1 200") && text.ends_with(MARK)
            };
            let partial = !answered && !o.bytes.is_empty() && (!h2 || o.h2_headers || !o.h2_data.is_empty());
            let what = format!(
                "client {i} ({}) connected at {connected} ms, wrote its request at {:?} ms (the server read {server_read} bytes of the connection), received {} bytes{}, end of stream at {:?} ms",
                if h2 { "HTTP/2" } else { "HTTP/1.1" },
                o.written_at,
                o.bytes.len(),
                if h2 { format!(" (response head {}, {} body bytes, end {})", o.h2_headers, o.h2_data.len(), o.h2_end) } else { String::new() },
                o.eof_at
            );
            if connected < sig {
                if let Some(w) = o.written_at {
                    // written before the signal: the connection task has run since. Written in its very
                    // instant: an exchange the server had started to handle iff it has read (any of) the request -
                    // the sniffer reads no more than a preface's length, hyper treats bytes seen as in flight.
                    if w < sig || (w == sig && server_read > 0) {
                        if w == sig {
                            rep.class("request-written-in-the-instant-of-the-signal");
                        } else if w + c.handler_ms as u64 >= sig {
                            rep.class("signal-while-handler-executing");
                        }
                        if !answered {
                            let sig_name = if w == sig { "C07/in-flight-request-lost/request-arrived-with-the-signal" } else { "C07/in-flight-request-lost/raw-client" };
                            rep.violate(sig_name, format!("{desc}: {what}"));
                        }
                    }
                }
                // whatever was in flight: the connection is closed in the end
                if o.eof_at.is_none() {
                    rep.violate("C07/connection-not-closed-after-signal", format!("{desc}: {what}"));
                } else if o.written_at.map(|w| w > sig).unwrap_or(true) {
                    rep.class("idle-connection-open-at-signal");
                }
            }
            if partial && !h2 {
                rep.violate("C07/response-cut-short", format!("{desc}: {what}"));
            }
            if connected > sig && answered {
                rep.violate("C07/connection-served-after-signal", format!("{desc}: {what}"));
            }
        }
        rep.class("signal-edge");
        rep.nontrivial = rep.classes.contains(&"request-written-in-the-instant-of-the-signal");
        rep.total_ops = c.clients.len() as u64;
        rep
    }
}

pub fn strategy() -> impl proptest::strategy::Strategy<Value = SigCase> {
    use proptest::prelude::*;
    (0u8..3, 1u8..40, prop_oneof![2 => Just(0u8), 2 => 1u8..20]).prop_flat_map(|(proto, signal_ms, handler_ms)| {
        // clients are placed relative to the signal: many of them write in its very instant
        let cl = (0u8..signal_ms.max(1), prop_oneof![1 => Just(0u8), 3 => Just(1u8), 2 => Just(2u8), 2 => 3u8..12], any::<bool>(), any::<bool>()).prop_map(move |(connect_ms, back, h2, keep_alive)| {
            // write instant = signal + 1 - back (0: just after the signal, 1: in its instant, 2..: before), never before the connect
            let target = (signal_ms as i16 + 1 - back as i16).max(0) as u8;
            let write_after_ms = target.saturating_sub(connect_ms);
            SigClient { connect_ms, write_after_ms, h2, keep_alive }
        });
        proptest::collection::vec(cl, 1..5).prop_map(move |clients| SigCase { proto, clients, signal_ms, handler_ms })
    })
}
