//! Full-stack TLS leg (serves C12, C13, C20, C09): a real `Server` with TLS (fixture certificate), TLS
//! connection info and the SNI-validation middleware on a duplex acceptor, and the real client stack
//! (`Client` builder with a TLS configuration) whose wire is recorded.
#![allow(dead_code)]

use std::future::Future;
use std::pin::Pin;
use std::sync::{Arc, Mutex};
use std::task::{Context, Poll};
use std::time::Duration;

use http_body_util::BodyExt;
use hyperdriver::client::pool::PoolableStream;
use hyperdriver::info::{ConnectionInfo, HasConnectionInfo, TlsConnectionInfo};
use hyperdriver::stream::duplex::{DuplexClient, DuplexStream};
use serde::{Deserialize, Serialize};
use tokio::io::{AsyncRead, AsyncWrite, AsyncWriteExt, ReadBuf};
use tower::{Layer, ServiceExt};

use crate::common::{CaseReport, Engine};
use crate::engines::tlswire::{client_config, install_provider, is_tls_record_stream, server_config, SECRET};

/// marker carried by requests over plain schemes (their bytes may be on the wire in the clear)
pub const PUBLIC: &[u8] = b"PUBL1C-mark3r-0f-th3-cl13nt";

pub const HOSTS: &[(&str, bool)] = &[
    ("example.com", true),
    ("a.test", true),
    ("EXAMPLE.com", true),
    ("sub.wild.test", true),
    ("localhost", true),
    ("127.0.0.1", true),
    ("[::1]", true),
    ("notinsan.test", false),
];

#[derive(Clone, Debug, Serialize, Deserialize, PartialEq)]
pub struct StackCase {
    pub host: u8,
    pub port: Option<u16>,
    /// request version HTTP/2 (prior knowledge inside TLS) instead of HTTP/1.1
    pub h2: bool,
    /// bit0 client offers h2, bit1 client offers http/1.1, bit2 server offers h2, bit3 server offers http/1.1
    pub alpn: u8,
    /// caller-supplied Host header: 0 none, 1 same host other case, 2 a different host, 3 same host with port,
    /// 4 a different host that the server's certificate covers as well
    pub host_header: u8,
    /// 0 https request; 1 plaintext (http scheme) to the TLS listener; 2 truncated ClientHello then close;
    /// 3 connect and stay silent during the handshake
    pub mode: u8,
    pub body: u16,
    pub second_request: bool,
    /// Host-header variants (as `host_header`) of further requests sent one after the other through
    /// the same client: with keep-alive / HTTP/2 they travel on the connection of the first one
    #[serde(default)]
    pub extra: Vec<u8>,
    /// order of the client builder calls: 0 = transport, protocol, then TLS and pool; 1 = TLS and pool
    /// first, then every call that rebuilds the builder - the TLS setting must survive all of them
    #[serde(default)]
    pub builder_order: u8,
    /// scheme of each request of the sequence (cycled): 0 https, 1 wss, 2 http, 3 ws; empty = all https.
    /// Plain schemes are routed to a plaintext server that answers for the same authority, so that
    /// pooled connections of both kinds exist side by side.
    #[serde(default)]
    pub schemes: Vec<u8>,
}

impl StackCase {
    /// Host-header variant of every request of the case, in order
    /// (scheme, secure?) of request `i`
    pub fn scheme_of(&self, i: usize) -> (&'static str, bool) {
        if self.schemes.is_empty() {
            return ("https", true);
        }
        [("https", true), ("wss", true), ("http", false), ("ws", false)][self.schemes[i % self.schemes.len()] as usize % 4]
    }
    pub fn variants(&self) -> Vec<u8> {
        let mut v = vec![self.host_header % 5];
        if self.second_request {
            v.push(self.host_header % 5);
        }
        v.extend(self.extra.iter().map(|x| x % 5));
        v
    }
}

/// Records what the client writes to the network.
pub struct RecDuplex {
    inner: DuplexStream,
    wire: Arc<Mutex<Vec<u8>>>,
}
impl std::fmt::Debug for RecDuplex {
    fn fmt(&self, f: &mut std::fmt::Formatter<'_>) -> std::fmt::Result {
        write!(f, "RecDuplex")
    }
}
impl HasConnectionInfo for RecDuplex {
    type Addr = hyperdriver::info::DuplexAddr;
    fn info(&self) -> ConnectionInfo<Self::Addr> {
        self.inner.info()
    }
}
impl PoolableStream for RecDuplex {
    fn can_share(&self) -> bool {
        false
    }
}
impl AsyncRead for RecDuplex {
    fn poll_read(mut self: Pin<&mut Self>, cx: &mut Context<'_>, buf: &mut ReadBuf<'_>) -> Poll<std::io::Result<()>> {
        Pin::new(&mut self.inner).poll_read(cx, buf)
    }
}
impl AsyncWrite for RecDuplex {
    fn poll_write(mut self: Pin<&mut Self>, cx: &mut Context<'_>, buf: &[u8]) -> Poll<std::io::Result<usize>> {
        match Pin::new(&mut self.inner).poll_write(cx, buf) {
            Poll::Ready(Ok(n)) => {
                self.wire.lock().unwrap().extend_from_slice(&buf[..n]);
                Poll::Ready(Ok(n))
            }
            o => o,
        }
    }
    fn poll_flush(mut self: Pin<&mut Self>, cx: &mut Context<'_>) -> Poll<std::io::Result<()>> {
        Pin::new(&mut self.inner).poll_flush(cx)
    }
    fn poll_shutdown(mut self: Pin<&mut Self>, cx: &mut Context<'_>) -> Poll<std::io::Result<()>> {
        Pin::new(&mut self.inner).poll_shutdown(cx)
    }
}

#[derive(Clone)]
pub struct RecTransport {
    client: DuplexClient,
    wire: Arc<Mutex<Vec<u8>>>,
    /// plaintext listener for http / ws requests and what was written on connections opened for them
    plain: Option<(DuplexClient, Arc<Mutex<Vec<u8>>>)>,
}
impl tower::Service<http::request::Parts> for RecTransport {
    type Response = RecDuplex;
    type Error = std::io::Error;
    type Future = Pin<Box<dyn Future<Output = Result<RecDuplex, std::io::Error>> + Send>>;
    fn poll_ready(&mut self, _cx: &mut Context<'_>) -> Poll<Result<(), Self::Error>> {
        Poll::Ready(Ok(()))
    }
    fn call(&mut self, req: http::request::Parts) -> Self::Future {
        let is_plain = matches!(req.uri.scheme_str(), Some("http") | Some("ws"));
        let (client, wire) = match (&self.plain, is_plain) {
            (Some((pc, pw)), true) => (pc.clone(), pw.clone()),
            _ => (self.client.clone(), self.wire.clone()),
        };
        Box::pin(async move {
            let s = client.connect(1 << 16).await?;
            Ok(RecDuplex { inner: s, wire })
        })
    }
}

#[derive(Debug, Clone, Default)]
pub struct SeenEntry {
    pub seq: usize,
    pub version: Option<http::Version>,
    pub host: Option<String>,
    pub tls: Option<TlsConnectionInfo>,
    pub body_ok: bool,
}

/// What the application behind the SNI middleware saw, one entry per request that reached it
#[derive(Debug, Clone, Default)]
pub struct Seen {
    pub entries: Vec<SeenEntry>,
}

type BoxError = Box<dyn std::error::Error + Send + Sync>;

pub struct StackEngine {
    /// "C12" | "C13" | "C20" | "C09"
    pub prop: &'static str,
}

impl Engine for StackEngine {
    type Case = StackCase;
    fn name(&self) -> &'static str {
        "tlsstack"
    }
    fn run_case(&self, c: &StackCase) -> CaseReport {
        install_provider();
        let mut rep = CaseReport::default();
        let _ = crate::panichook::take_all();
        let (host, in_san) = HOSTS[c.host as usize % HOSTS.len()];
        let authority = match c.port {
            Some(p) => format!("{host}:{p}"),
            None => host.to_string(),
        };
        let seen: Arc<Mutex<Seen>> = Default::default();
        let wire: Arc<Mutex<Vec<u8>>> = Default::default();
        let plain_wire: Arc<Mutex<Vec<u8>>> = Default::default();
        let sni_seen: Arc<Mutex<Vec<Option<String>>>> = Default::default();
        let rt = tokio::runtime::Builder::new_current_thread().enable_time().start_paused(true).build().unwrap();
        let c2 = c.clone();
        let seen2 = seen.clone();
        let wire2 = wire.clone();
        let plain_wire2 = plain_wire.clone();
        let sni2 = sni_seen.clone();
        let auth2 = authority.clone();
        type Out = (Vec<Result<(u16, bool), String>>, bool, Option<Result<u16, String>>);
        let res: Result<Out, ()> = (std::panic::catch_unwind(std::panic::AssertUnwindSafe(|| {
            rt.block_on(async move {
                let (client, incoming) = hyperdriver::stream::duplex::pair();
                let body_len = c2.body as usize;
                let handler = tower::service_fn(move |req: http::Request<hyperdriver::Body>| {
                    let seen = seen2.clone();
                    async move {
                        let (parts, body) = req.into_parts();
                        let b = body.collect().await.map(|c| c.to_bytes()).unwrap_or_default();
                        if parts.uri.path() == "/probe" {
                            return Ok::<_, std::io::Error>(http::Response::new(hyperdriver::Body::from("served".to_string())));
                        }
                        let entry = SeenEntry {
                            seq: parts.headers.get("x-seq").and_then(|h| h.to_str().ok()).and_then(|h| h.parse().ok()).unwrap_or(usize::MAX),
                            version: Some(parts.version),
                            host: parts.headers.get("host").and_then(|h| h.to_str().ok()).map(String::from).or_else(|| parts.uri.authority().map(|a| a.to_string())),
                            tls: parts.extensions.get::<TlsConnectionInfo>().cloned(),
                            body_ok: (b.len() == body_len + SECRET.len() && b.ends_with(SECRET)) || (b.len() == body_len + PUBLIC.len() && b.ends_with(PUBLIC)),
                        };
                        seen.lock().unwrap().entries.push(entry);
                        Ok::<_, std::io::Error>(http::Response::new(hyperdriver::Body::from("served".to_string())))
                    }
                });
                let svc = hyperdriver::server::conn::tls::sni::ValidateSNI.layer(handler);
                let svc2 = svc.clone();
                let scfg = server_config(0, c2.alpn, sni2.clone());
                let server = hyperdriver::Server::builder::<hyperdriver::Body>()
                    .with_incoming(incoming)
                    .with_auto_http()
                    .with_shared_service(svc)
                    .with_tls_connection_info()
                    .with_tls(scfg)
                    .with_tokio();
                let server = tokio::spawn(async move { server.await.map_err(|e| e.to_string()) });
                // the plaintext twin: same application behind the same middleware, no TLS
                let (plain_client, plain_incoming) = hyperdriver::stream::duplex::pair();
                let plain_server = hyperdriver::Server::builder::<hyperdriver::Body>().with_incoming(plain_incoming).with_auto_http().with_shared_service(svc2).with_tokio();
                let plain_server = tokio::spawn(async move { plain_server.await.map_err(|e| e.to_string()) });
                let route_plain = c2.mode % 4 == 0 && !c2.schemes.is_empty();

                let make_client = |wire: Arc<Mutex<Vec<u8>>>| {
                    let plain = route_plain.then(|| (plain_client.clone(), plain_wire2.clone()));
                    if c2.builder_order % 2 == 1 {
                        return hyperdriver::Client::builder()
                            .with_tls(client_config(c2.alpn))
                            .with_default_pool()
                            .with_body::<hyperdriver::Body, hyperdriver::Body>()
                            .with_transport(RecTransport { client: client.clone(), wire, plain })
                            .with_auto_http()
                            .without_redirects()
                            .build_service();
                    }
                    hyperdriver::Client::builder()
                        .with_transport(RecTransport { client: client.clone(), wire, plain })
                        .with_auto_http()
                        .with_tls(client_config(c2.alpn))
                        .with_default_pool()
                        .without_redirects()
                        .build_service()
                };
                let request = |scheme: &str, seq: usize, variant: u8| {
                    // requests over a secure scheme carry the secret marker, the others a public one
                    let marker: &[u8] = if scheme == "https" || scheme == "wss" { SECRET } else { PUBLIC };
                    let mut body: Vec<u8> = (0..body_len).map(|i| b'a' + (i % 26) as u8).collect();
                    body.extend_from_slice(marker);
                    let mut b = http::Request::builder()
                        .method("POST")
                        .version(if c2.h2 { http::Version::HTTP_2 } else { http::Version::HTTP_11 })
                        .uri(format!("{scheme}://{auth2}/{}?t={}", String::from_utf8_lossy(marker), String::from_utf8_lossy(marker)))
                        .header("x-seq", seq)
                        .header("x-secret", std::str::from_utf8(marker).unwrap());
                    match variant % 5 {
                        1 => b = b.header("host", HOSTS[c2.host as usize % HOSTS.len()].0.to_ascii_uppercase()),
                        2 => b = b.header("host", "evil.test"),
                        3 => b = b.header("host", format!("{}:8443", HOSTS[c2.host as usize % HOSTS.len()].0)),
                        4 => b = b.header("host", if HOSTS[c2.host as usize % HOSTS.len()].0.eq_ignore_ascii_case("a.test") { "example.com" } else { "a.test" }),
                        _ => {}
                    }
                    b.body(hyperdriver::Body::from(body)).unwrap()
                };
                async fn send(svc: hyperdriver::client::SharedClientService<hyperdriver::Body, hyperdriver::Body>, req: http::Request<hyperdriver::Body>) -> Result<(u16, bool), String> {
                    match tokio::time::timeout(Duration::from_secs(5), svc.oneshot(req)).await {
                        Err(_) => Err("timed out (virtual 5 s)".into()),
                        Ok(Err(e)) => Err(format!("{e}")),
                        Ok(Ok(resp)) => {
                            let st = resp.status().as_u16();
                            let b = resp.into_body().collect().await.map(|c| c.to_bytes()).unwrap_or_default();
                            Ok((st, &b[..] == b"served"))
                        }
                    }
                }
                let svc = make_client(wire2.clone());
                let mut results = vec![];
                match c2.mode % 4 {
                    0 => {
                        for (seq, variant) in c2.variants().into_iter().enumerate() {
                            results.push(send(svc.clone(), request(c2.scheme_of(seq).0, seq, variant)).await);
                        }
                    }
                    1 => {
                        // plaintext to the TLS listener through the real client (scheme http is not wrapped)
                        results.push(send(svc.clone(), request("http", 0, c2.host_header)).await);
                    }
                    2 => {
                        if let Ok(Ok(mut s)) = tokio::time::timeout(Duration::from_secs(5), client.connect(1024)).await {
                            let _ = s.write_all(&[0x16, 0x03, 0x01, 0x00, 0xe9, 0x01, 0x00, 0x00]).await;
                            tokio::time::sleep(Duration::from_millis(5)).await;
                        }
                    }
                    _ => {
                        if let Ok(Ok(s)) = tokio::time::timeout(Duration::from_secs(5), client.connect(1024)).await {
                            tokio::time::sleep(Duration::from_millis(50)).await;
                            drop(s);
                        }
                    }
                }
                for _ in 0..5 {
                    tokio::task::yield_now().await;
                }
                let server_alive = !server.is_finished();
                // probe: a fresh well-behaved https client for a host the certificate covers
                let probe_wire: Arc<Mutex<Vec<u8>>> = Default::default();
                let probe_svc = make_client(probe_wire);
                let probe_req = http::Request::builder().method("POST").uri("https://example.com/probe").body(hyperdriver::Body::from(SECRET.to_vec())).unwrap();
                // the probe's body must match what the handler expects for body_ok bookkeeping only
                let probe = if crate::engines::tlswire::alpn_outcome(c2.alpn) == crate::engines::tlswire::AlpnOutcome::Conflict {
                    None // ALPN offers without overlap: rustls refuses every handshake
                } else {
                    Some(send(probe_svc, probe_req).await.map(|r| r.0))
                };
                drop(svc);
                plain_server.abort();
                server.abort();
                (results, server_alive, probe)
            })
        })))
        .map_err(|_| ());
        drop(rt);
        let panics: Vec<(String, String)> = crate::panichook::take_all().into_iter().filter(|(l, _)| crate::panichook::in_library(l)).collect();
        for (loc, msg) in &panics {
            rep.violate("C09/tls-panic-in-library", format!("panic at {loc}: {msg}"));
            rep.violate("C12/tls-panic-in-library", format!("panic at {loc}: {msg}"));
        }
        let Ok((results, server_alive, probe)) = res else {
            if panics.is_empty() {
                rep.internal_error = Some(format!("harness panic at {}: {}", crate::panichook::last_location(), crate::panichook::last_message()));
            }
            return self.filter(rep);
        };
        let wire = wire.lock().unwrap().clone();
        let seen = seen.lock().unwrap().clone();
        let sni = sni_seen.lock().unwrap().clone();
        use crate::engines::tlswire::{alpn_outcome, AlpnOutcome};
        let outcome = alpn_outcome(c.alpn);
        let alpn_conflict = outcome == AlpnOutcome::Conflict;
        let negotiated_h2 = outcome == AlpnOutcome::Proto(b"h2");
        let negotiated_h1_only = outcome == AlpnOutcome::Proto(b"http/1.1");
        // a protocol id that is neither h2 nor http/1.1 (here "h3"): says nothing about HTTP/2
        let negotiated_other = matches!(outcome, AlpnOutcome::Proto(p) if p != b"h2" && p != b"http/1.1");
        if negotiated_other {
            rep.class("alpn-negotiated-other-protocol");
        }
        let desc = format!("{c:?} (authority {authority}): results {results:?}, handler saw {seen:?}, SNI {sni:?}, {} bytes on the wire, server alive {server_alive}, probe {probe:?}", wire.len());

        // ---- C09: the TLS listener survives every per-connection fault
        if !server_alive {
            rep.violate("C09/tls-server-stopped", desc.clone());
        }
        if let Some(p) = &probe {
            if !matches!(p, Ok(200)) {
                rep.violate("C09/tls-probe-not-served", desc.clone());
                // the probe is another connection with its own server name (example.com) naming that host
                if c.mode % 4 == 0 && server_alive {
                    rep.violate("C20/fullstack-other-connection-rejected", format!("a second TLS connection with server name and Host example.com was not served after the first one: {desc}"));
                }
            }
        }
        match c.mode % 4 {
            0 => {
                // ---- C12: never in the clear, names checked
                if let Err(e) = is_tls_record_stream(&wire) {
                    rep.violate("C12/fullstack-non-tls-bytes-on-the-wire", format!("{desc}: {e}"));
                }
                if wire.windows(SECRET.len()).any(|w| w == SECRET) {
                    rep.violate("C12/fullstack-secret-in-the-clear", desc.clone());
                }
                // connections opened for http / ws carry their own requests in the clear, never those of
                // https / wss requests to the same authority
                let plain_bytes = plain_wire.lock().unwrap().clone();
                if plain_bytes.windows(SECRET.len()).any(|w| w == SECRET) {
                    rep.violate("C12/fullstack-secret-in-the-clear", format!("a request over a secure scheme was written on a plaintext connection opened for http/ws to the same authority; {desc}"));
                }
                let is_ip = host.starts_with('[') || host.parse::<std::net::Ipv4Addr>().is_ok();
                // an HTTP/2 request over a connection that negotiated http/1.1 only is refused by the peer
                let proto_conflict = c.h2 && negotiated_h1_only;
                let mut served_on_first_connection = 0;
                let mut connection_unbroken = true;
                for (seq, (variant, result)) in c.variants().into_iter().zip(results.iter()).enumerate() {
                    // on an HTTP/2 connection the client removes a caller-supplied Host header (C13), so
                    // only HTTP/1 connections carry the foreign Host to the server
                    let host_hdr_mismatch = (variant == 2 || variant == 4) && !(c.h2 || negotiated_h2);
                    let reached: Option<&SeenEntry> = seen.entries.iter().find(|e| e.seq == seq);
                    let (scheme, secure) = c.scheme_of(seq);
                    let rdesc = format!("request {seq} ({scheme}, Host variant {variant}) -> {result:?}; {desc}");
                    if !secure {
                        // plain scheme: must not be wrapped; nothing else is asserted for it here
                        if reached.map(|e| e.tls.is_some()).unwrap_or(false) {
                            rep.violate("C12/fullstack-plain-scheme-wrapped", rdesc.clone());
                        }
                        rep.class("plain-scheme-request-in-sequence");
                        if !(matches!(result, Ok((200, true))) && reached.is_some()) {
                            connection_unbroken = false;
                        }
                        continue;
                    }
                    if reached.map(|e| e.tls.is_none()).unwrap_or(false) {
                        rep.violate("C12/fullstack-secure-request-not-wrapped", rdesc.clone());
                    }
                    if reached.is_some() && !in_san {
                        rep.violate("C12/fullstack-served-despite-certificate-mismatch", rdesc.clone());
                    }
                    if reached.is_some() && host_hdr_mismatch && !is_ip {
                        rep.violate("C20/fullstack-forwarded-despite-host-mismatch", rdesc.clone());
                    }
                    if let Some(e) = reached {
                        // ---- C20 integration: the application sees the server name and the flag
                        if !is_ip {
                            let want = host.to_ascii_lowercase();
                            let got = e.tls.as_ref().and_then(|t| t.server_name.clone()).map(|s| s.to_ascii_lowercase());
                            if got.as_deref() != Some(want.as_str()) {
                                rep.violate("C20/fullstack-server-name-not-visible", format!("{rdesc}: expected server name {want}"));
                            }
                            if !e.tls.as_ref().map(|t| t.validated_server_name).unwrap_or(false) {
                                rep.violate("C20/fullstack-not-marked-validated", rdesc.clone());
                            }
                            // every handshake of the case offered the URI host (the last entry may be the probe's, for example.com)
                            let n = sni.len();
                            if sni.iter().enumerate().any(|(i, s)| {
                                let s = s.clone().map(|s| s.to_ascii_lowercase());
                                s.as_deref() != Some(want.as_str()) && !(i + 1 == n && i > 0 && s.as_deref() == Some("example.com"))
                            }) {
                                rep.violate("C12/fullstack-wrong-server-name-offered", rdesc.clone());
                            }
                        } else {
                            // an address is never offered as a server name, whatever the Host header says
                            let n = sni.len();
                            if sni.iter().enumerate().any(|(i, s)| s.is_some() && !(i + 1 == n && i > 0 && s.as_deref() == Some("example.com"))) {
                                rep.violate("C12/fullstack-wrong-server-name-offered", format!("{rdesc}: expected no server name for an address literal"));
                            }
                        }
                        // ---- C13: protocol = HTTP/2 iff requested or negotiated
                        let want_h2 = c.h2 || negotiated_h2;
                        let got_h2 = e.version == Some(http::Version::HTTP_2);
                        if want_h2 != got_h2 {
                            rep.violate("C13/fullstack-wrong-protocol", format!("{rdesc}: expected HTTP/{}", if want_h2 { 2 } else { 1 }));
                        }
                        if !e.body_ok {
                            rep.violate("C12/fullstack-body-altered", rdesc.clone());
                        }
                        rep.class("served-over-tls");
                        rep.class(if got_h2 { "served-h2" } else { "served-h1" });
                        if connection_unbroken {
                            served_on_first_connection += 1;
                        }
                    }
                    let fine = matches!(result, Ok((200, true))) && reached.is_some();
                    if !fine {
                        connection_unbroken = false;
                        // an HTTP/2 request on a connection that negotiated some other protocol id: unconstrained
                        let must_succeed = in_san && !alpn_conflict && !proto_conflict && !host_hdr_mismatch && !(c.h2 && negotiated_other);
                        // IP-literal hosts carry no server name: the SNI middleware rejects them (missing SNI)
                        if must_succeed && !is_ip {
                            rep.violate("C20/fullstack-rejected-although-host-matches", rdesc.clone());
                        }
                        if host_hdr_mismatch {
                            rep.class("rejected-host-mismatch");
                        }
                        if !in_san {
                            rep.class("rejected-certificate");
                        }
                    }
                }
                if served_on_first_connection >= 3 {
                    rep.class("3+-requests-served-in-a-row");
                }
                if c.variants().len() >= 3 && c.variants()[2..].contains(&2) {
                    rep.class("foreign-host-on-3rd-or-later-request");
                }
            }
            1 => {
                rep.class("plaintext-to-tls-listener");
                if matches!(results.first(), Some(Ok(_))) {
                    rep.violate("C09/tls-listener-served-plaintext", desc.clone());
                }
            }
            2 => rep.class("truncated-client-hello"),
            _ => rep.class("silent-during-handshake"),
        }
        rep.nontrivial = true;
        rep.total_ops = 1;
        self.filter(rep)
    }
}

impl StackEngine {
    fn filter(&self, mut rep: CaseReport) -> CaseReport {
        let prefix = format!("{}/", self.prop);
        rep.violations.retain(|v| v.sig.starts_with(&prefix));
        rep
    }
}

pub fn strategy() -> impl proptest::strategy::Strategy<Value = StackCase> {
    use proptest::prelude::*;
    (
        0u8..8,
        prop_oneof![2 => Just(None), 1 => Just(Some(443u16)), 1 => Just(Some(8443u16))],
        any::<bool>(),
        prop_oneof![3 => 0u8..16, 2 => 16u8..64],
        prop_oneof![4 => Just(0u8), 1 => Just(1u8), 2 => Just(2u8), 1 => Just(3u8), 1 => Just(4u8)],
        prop_oneof![6 => Just(0u8), 1 => Just(1u8), 1 => Just(2u8), 1 => Just(3u8)],
        prop_oneof![Just(0u16), 1u16..200, 200u16..20000],
        any::<bool>(),
        prop_oneof![2 => Just(vec![]), 3 => proptest::collection::vec(prop_oneof![3 => Just(0u8), 1 => Just(1u8), 2 => Just(2u8), 1 => Just(3u8), 1 => Just(4u8)], 1..5)],
        0u8..2,
        prop_oneof![2 => Just(vec![]), 1 => proptest::collection::vec(0u8..4, 1..5)],
    )
        .prop_map(|(host, port, h2, alpn, host_header, mode, body, second_request, extra, builder_order, schemes)| StackCase { host, port, h2, alpn, host_header, mode, body, second_request, extra, builder_order, schemes })
}
