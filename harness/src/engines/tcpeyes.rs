//! Engine tcpeyes: C10/C11 at the level of the real `TcpTransport` (src/client/conn/transport/tcp.rs):
//! the plumbing from `TcpTransportConfig` (overall timeout, stagger delay = timeout / number of
//! addresses, initial concurrency) into the happy-eyeballs procedure, and the mapping of its outcome
//! to the transport's result. Real loopback sockets, real clock:
//!
//! * live candidate  = a listener that accepts,
//! * dead candidate  = a port nobody listens on (refused at once),
//! * hanging candidate = a listener whose accept queue is full (SYNs are dropped: the connect stays
//!   in progress for seconds).
//!
//! The expected outcome and completion time come from the reference simulation of the eyeballs
//! engine (written from the statements of C10/C11). Timing assertions are one-sided or banded:
//! "not earlier than expected" cannot be caused by load; a case that completes much later than
//! expected is inconclusive.
use std::net::SocketAddr;
use std::time::{Duration, Instant};

use serde::{Deserialize, Serialize};

use crate::common::{CaseReport, Engine};
use crate::engines::eyeballs::{reference, EyeCase, Out, Res};

#[derive(Clone, Debug, Serialize, Deserialize, PartialEq)]
pub struct TcpEyesCase {
    /// 0 live, 1 dead, 2 hanging
    pub cands: Vec<u8>,
    /// overall timeout in units of 100 ms (None: no happy-eyeballs timeout)
    pub timeout: Option<u8>,
    pub conc: Option<u8>,
}

pub struct TcpEyesEngine {
    pub prop: &'static str,
}

struct Fixture {
    live: std::net::TcpListener,
    hang: std::net::TcpListener,
    _fill: Vec<std::net::TcpStream>,
    dead_port: u16,
    /// bound, never listening: refuses connections and keeps the port from being handed out again
    _dead: socket2::Socket,
}

fn fixture() -> std::io::Result<Fixture> {
    let live = std::net::TcpListener::bind("127.0.0.1:0")?;
    live.set_nonblocking(true)?;
    // hanging: backlog 0 and never accepted; fill the queue
    let sock = socket2::Socket::new(socket2::Domain::IPV4, socket2::Type::STREAM, None)?;
    sock.bind(&"127.0.0.1:0".parse::<SocketAddr>().unwrap().into())?;
    sock.listen(0)?;
    let hang: std::net::TcpListener = sock.into();
    let haddr = hang.local_addr()?;
    let mut fill = vec![];
    for _ in 0..4 {
        let s = socket2::Socket::new(socket2::Domain::IPV4, socket2::Type::STREAM, None)?;
        s.set_nonblocking(true)?;
        let _ = s.connect(&haddr.into());
        fill.push(s.into());
    }
    let d = super::addrsort::bound_unlistened("127.0.0.1:0".parse().unwrap())?;
    let dead_port = d.local_addr()?.as_socket().map(|a| a.port()).unwrap_or(0);
    Ok(Fixture { live, hang, _fill: fill, dead_port, _dead: d })
}

impl Engine for TcpEyesEngine {
    type Case = TcpEyesCase;
    fn name(&self) -> &'static str {
        "tcpeyes"
    }
    fn real_time(&self) -> bool {
        true
    }
    fn run_case(&self, c: &TcpEyesCase) -> CaseReport {
        // A deviation that lies within what machine load could explain (0.4-3 s late) is not judged on
        // one run: the case is repeated, and only the same deviation three times in a row counts.
        let (rep, slow) = self.run_once(c);
        let Some((key, _)) = slow else { return rep };
        let (rep2, slow2) = self.run_once(c);
        if slow2.as_ref().map(|k| &k.0) != Some(&key) {
            return rep2;
        }
        let (mut rep3, slow3) = self.run_once(c);
        if let Some((k3, desc)) = slow3 {
            if k3 == key {
                rep3.violate(format!("{}/tcp-transport-deviates-repeatedly", self.prop), format!("three runs in a row: {key}; last run: {desc}"));
            }
        }
        rep3
    }
}

impl TcpEyesEngine {
    fn run_once(&self, c: &TcpEyesCase) -> (CaseReport, Option<(String, String)>) {
        let mut rep = CaseReport::default();
        let mut slow_key: Option<(String, String)> = None;
        let p = self.prop;
        let fx = match fixture() {
            Ok(f) => f,
            Err(e) => {
                rep.internal_error = Some(format!("fixture: {e}"));
                return (rep, None);
            }
        };
        std::thread::sleep(Duration::from_millis(20));
        let live_port = fx.live.local_addr().unwrap().port();
        let hang_port = fx.hang.local_addr().unwrap().port();
        let addrs: Vec<SocketAddr> = c
            .cands
            .iter()
            .map(|k| match *k as usize % 4 {
                // an IPv6 candidate while the configured local IPv6 address cannot be assigned: the attempt
                // fails while its socket is prepared - one failed candidate like any other
                3 => SocketAddr::from((std::net::Ipv6Addr::LOCALHOST, live_port)),
                i => SocketAddr::from(([127, 0, 0, 1], [live_port, fx.dead_port, hang_port][i])),
            })
            .collect();
        let n = addrs.len();
        let timeout_ms = c.timeout.map(|t| t as u64 * 100);
        // what the statements imply for this configuration
        let model = EyeCase {
            atts: c.cands.iter().map(|k| ([Out::Ok, Out::Err, Out::Never, Out::Err][*k as usize % 4], 0)).collect(),
            delay: if n == 0 { timeout_ms } else { timeout_ms.map(|t| t / n as u64) },
            timeout: timeout_ms,
            conc: c.conc.map(|x| x as usize),
            reuse: None,
            feed: 0,
        };
        let want = reference(&model);
        let rt = tokio::runtime::Builder::new_current_thread().enable_all().build().unwrap();
        if want.res == Res::Hang {
            // nothing allows progress here (no stagger delay, no deadline, the running attempts neither
            // fail nor succeed, the others may not be started yet): the operation must still be pending
            // after half a second. Load can only make it later, never produce an outcome.
            let early = rt.block_on(async {
                use hyperdriver::client::conn::transport::tcp::{TcpTransport, TcpTransportConfig};
                use hyperdriver::stream::tcp::TcpStream;
                let mut cfg = TcpTransportConfig::default();
                cfg.happy_eyeballs_timeout = timeout_ms.map(Duration::from_millis);
                cfg.happy_eyeballs_concurrency = c.conc.map(|x| x as usize);
                cfg.connect_timeout = Some(Duration::from_secs(20));
                cfg.local_address_ipv6 = Some("2001:db8::1".parse().unwrap());
                let transport: TcpTransport<crate::engines::addrsort::ListResolver, TcpStream> =
                    TcpTransport::builder().with_config(cfg).with_resolver(crate::engines::addrsort::ListResolver(vec![])).build();
                tokio::time::timeout(Duration::from_millis(500), transport.connect_to_addrs(addrs.clone())).await.ok().map(|r| match r {
                    Ok(s) => (true, format!("connection to {:?}", s.peer_addr().ok())),
                    Err(e) => (false, format!("error `{e}`")),
                })
            });
            rep.class("expected-still-pending");
            if let Some((connected, what)) = early {
                let desc = format!("candidates {:?} (0 live, 1 dead, 2 hanging) without happy-eyeballs timeout, concurrency {:?}: no stagger delay, no failure and no deadline allows progress, yet the operation ended within 500 ms with {what}", c.cands, c.conc);
                // a connection means a later candidate was started without cause (pacing, C11); an error
                // means failure was reported before every candidate had failed (C10)
                if connected == (p == "C11") {
                    rep.violate(format!("{p}/tcp-transport-progress-without-cause"), desc);
                }
            }
            rep.nontrivial = n >= 2;
            rep.total_ops = n as u64;
            return (rep, None);
        }
        let (res, elapsed) = rt.block_on(async {
            use hyperdriver::client::conn::transport::tcp::{TcpTransport, TcpTransportConfig};
            use hyperdriver::stream::tcp::TcpStream;
            let mut cfg = TcpTransportConfig::default();
            cfg.happy_eyeballs_timeout = timeout_ms.map(Duration::from_millis);
            cfg.happy_eyeballs_concurrency = c.conc.map(|x| x as usize);
            cfg.connect_timeout = Some(Duration::from_secs(20));
            cfg.local_address_ipv6 = Some("2001:db8::1".parse().unwrap());
            let transport: TcpTransport<crate::engines::addrsort::ListResolver, TcpStream> =
                TcpTransport::builder().with_config(cfg).with_resolver(crate::engines::addrsort::ListResolver(vec![])).build();
            let t0 = Instant::now();
            let r = tokio::time::timeout(Duration::from_secs(8), transport.connect_to_addrs(addrs.clone())).await;
            (r, t0.elapsed())
        });
        let ms = elapsed.as_millis() as u64;
        let desc = format!("candidates {:?} (0 live, 1 dead, 2 hanging) timeout {timeout_ms:?} ms (stagger {:?} ms) concurrency {:?}: expected {:?} at {:?} ms, got {} after {ms} ms", c.cands, model.delay, c.conc, want.res, want.at, match &res {
            Err(_) => "nothing within 8 s".to_string(),
            Ok(Ok(s)) => format!("connection to {:?}", s.peer_addr().ok()),
            Ok(Err(e)) => format!("error `{e}`"),
        });
        let want_at = want.at.unwrap_or(0);
        // a run that took much longer than the reference says was disturbed by the machine
        // ... unless it is seconds late: no scheduling delay explains that
        let slow = ms > want_at + 400 && ms <= want_at + 3000;
        let far_too_late = ms > want_at + 3000;
        let got: Res = match &res {
            Err(_) => Res::Hang,
            Ok(Ok(s)) => {
                let port = s.peer_addr().map(|a| a.port()).unwrap_or(0);
                if port == live_port {
                    // which live candidate: the reference's winner if it is live, else the first live one
                    match &want.res {
                        Res::Ok(i) => Res::Ok(*i),
                        _ => Res::Ok(c.cands.iter().position(|k| k % 4 == 0).unwrap_or(0)),
                    }
                } else {
                    Res::Ok(usize::MAX)
                }
            }
            Ok(Err(e)) => {
                let m = e.to_string();
                if m.contains("timed out after") {
                    Res::Timeout
                } else if m.contains("Exhausted connection candidates") {
                    Res::NoProgress
                } else {
                    match &want.res {
                        Res::Err(i) => Res::Err(*i),
                        _ => Res::Err(usize::MAX),
                    }
                }
            }
        };
        rep.class(match &want.res {
            Res::Ok(_) => "expected-connection",
            Res::Err(_) => "expected-first-failure",
            Res::Timeout => "expected-timeout",
            Res::NoProgress => "expected-no-progress",
            Res::Hang => "expected-hang",
        });
        if c.cands.iter().any(|k| k % 4 == 2) {
            rep.class("hanging-candidate");
        }
        if c.cands.iter().any(|k| k % 4 == 3) {
            rep.class("candidate-failing-while-its-socket-is-prepared");
        }
        if far_too_late {
            rep.violate(format!("{p}/tcp-transport-completed-far-too-late"), desc.clone());
        } else if got != want.res {
            if slow {
                rep.class("slow-run-inconclusive");
                slow_key = Some((format!("outcome {got:?} where {:?} is expected", want.res), desc.clone()));
            } else {
                rep.violate(format!("{p}/tcp-transport-outcome-differs"), desc.clone());
            }
        } else if ms + 40 < want_at {
            // earlier than the pacing allows: cannot be caused by load
            rep.violate(format!("{p}/tcp-transport-completed-too-early"), desc.clone());
        } else if slow {
            rep.class("slow-run-inconclusive");
            slow_key = Some(("right outcome, but more than 400 ms later than the pacing allows".to_string(), desc.clone()));
        } else if ms > want_at + 250 {
            rep.violate(format!("{p}/tcp-transport-completed-too-late"), desc.clone());
        }
        rep.nontrivial = n >= 2 && want_at >= 100;
        rep.total_ops = n as u64;
        (rep, slow_key)
    }
}

pub fn strategy() -> impl proptest::strategy::Strategy<Value = TcpEyesCase> {
    use proptest::prelude::*;
    (
        proptest::collection::vec(prop_oneof![2 => Just(0u8), 2 => Just(1u8), 2 => Just(2u8), 1 => Just(3u8)], 0..=4),
        prop_oneof![1 => Just(None), 4 => prop_oneof![Just(12u8), Just(16u8), Just(24u8)].prop_map(Some)],
        prop_oneof![Just(None), Just(Some(0u8)), Just(Some(1u8)), Just(Some(2u8)), Just(Some(3u8))],
    )
        .prop_map(|(cands, timeout, conc)| TcpEyesCase { cands, timeout, conc })
}

/// Cases in which the outcome hinges on the pacing: one to three candidates that hang (or one that is
/// refused among them), then a live one, with room for one or two attempts at a time - the live
/// candidate is reached only by the stagger timer, and whether that happens before the deadline
/// depends on the delay being `timeout / n`.
pub fn pacing_strategy() -> impl proptest::strategy::Strategy<Value = TcpEyesCase> {
    use proptest::prelude::*;
    (proptest::collection::vec(prop_oneof![4 => Just(2u8), 1 => Just(1u8)], 1..=3), prop_oneof![Just(12u8), Just(16u8)], prop_oneof![3 => Just(Some(1u8)), 1 => Just(Some(2u8)), 1 => Just(Some(0u8))]).prop_map(|(mut cands, timeout, conc)| {
        cands.push(0);
        TcpEyesCase { cands, timeout: Some(timeout), conc }
    })
}
