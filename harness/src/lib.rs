//! hdv: verification harness for alexrudy/hyperdriver (library part, shared with the fuzz targets).
pub mod common;
pub mod engines;
pub mod fuzzdecode;
pub mod panichook;
pub mod props;
