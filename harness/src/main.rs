//! hdv: dispatcher for the hyperdriver verification checks.
//!
//! usage: hdv <Cnn> [--tier quick|thorough] [--replay FILE] [--trace]
//! env: VERIF_SEED, VERIF_TIER, VERIF_SCALE, VERIF_THREADS

use hdv::common::{self, Ctx, Tier, DEFAULT_SEED};
use hdv::{panichook, props};

fn main() {
    if std::env::var_os("VERIF_TRACE_LOG").is_some() {
        // debugging aid: RUST_LOG-style filter in VERIF_TRACE_LOG, output on stderr
        let _ = tracing_subscriber::fmt().with_env_filter(tracing_subscriber::EnvFilter::new(std::env::var("VERIF_TRACE_LOG").unwrap())).with_writer(std::io::stderr).without_time().try_init();
    }
    let args: Vec<String> = std::env::args().skip(1).collect();
    if args.is_empty() {
        eprintln!("usage: hdv <Cnn> [--tier quick|thorough] [--replay FILE]");
        std::process::exit(2);
    }
    let prop = args[0].clone();
    let mut tier = match std::env::var("VERIF_TIER").ok().as_deref() {
        Some("thorough") => Tier::Thorough,
        _ => Tier::Quick,
    };
    let mut replay = None;
    let mut verbose = false;
    let mut i = 1;
    while i < args.len() {
        match args[i].as_str() {
            "--tier" => {
                i += 1;
                tier = match args.get(i).map(|s| s.as_str()) {
                    Some("thorough") => Tier::Thorough,
                    Some("quick") => Tier::Quick,
                    other => {
                        eprintln!("bad tier {other:?}");
                        std::process::exit(2);
                    }
                };
            }
            "--replay" => {
                i += 1;
                replay = args.get(i).map(std::path::PathBuf::from);
                if replay.is_none() {
                    eprintln!("--replay needs a file");
                    std::process::exit(2);
                }
            }
            "--trace" => std::env::set_var("VERIF_TRACE", "1"),
            "-v" | "--verbose" => verbose = true,
            other => {
                eprintln!("unknown argument {other}");
                std::process::exit(2);
            }
        }
        i += 1;
    }
    let seed = std::env::var("VERIF_SEED")
        .ok()
        .and_then(|s| s.trim().parse::<i128>().ok())
        .map(|v| v as u64)
        .unwrap_or(DEFAULT_SEED);
    let scale = std::env::var("VERIF_SCALE").ok().and_then(|s| s.parse::<f64>().ok()).unwrap_or(1.0);
    let threads = std::env::var("VERIF_THREADS")
        .ok()
        .and_then(|s| s.parse::<usize>().ok())
        .unwrap_or(16);
    let ctx = Ctx { prop: prop.clone(), tier, seed, replay, scale, threads, verbose };
    panichook::install();
    common::start_watchdog();
    let code = match prop.as_str() {
        "C02" | "C03" | "C04" | "C05" | "C06" | "C14" | "C15" => props::pool::run(&ctx),
        "C16" => props::c16::run(&ctx),
        "C12" => props::c12::run(&ctx),
        "C01" | "C07" | "C09" => props::net::run(&ctx),
        "C13" | "C17" => props::reqs::run(&ctx),
        "C19" => props::c19::run(&ctx),
        "C18" => props::c18::run(&ctx),
        "C08" => props::c08::run(&ctx),
        "C20" => props::c20::run(&ctx),
        "C10" | "C11" => props::eyes::run(&ctx),
        other => {
            eprintln!("unknown property {other}");
            2
        }
    };
    std::process::exit(code);
}
