#![no_main]
//! libFuzzer target for engine E8 (iomodel): adapter program + inner scripts against the C18 oracles.
use hdv::common::Engine;
use hdv::engines::iomodel::IoEngine;
use libfuzzer_sys::fuzz_target;

fuzz_target!(|data: &[u8]| {
    let Some(case) = hdv::fuzzdecode::io_case(data) else { return };
    let rep = IoEngine.run_case(&case);
    if let Some(e) = rep.internal_error {
        panic!("harness internal error: {e}");
    }
    if let Some(v) = rep.violations.first() {
        eprintln!("FUZZ-VIOLATION sig={} msg={}", v.sig, v.msg);
        eprintln!("FUZZ-CASE {}", hdv::common::to_json(&case));
        panic!("property violated: {}", v.sig);
    }
});
