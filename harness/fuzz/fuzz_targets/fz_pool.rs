#![no_main]
//! libFuzzer target for engine E1 (poolsim): the input decodes to a pool history; all pool monitors run.
//! Env FZ_PROP (e.g. C04) restricts the violations that count; known findings (KNOWN_FINDINGS.txt)
//! are tolerated so that a campaign does not rediscover one crash forever. A counted violation aborts.
use std::sync::OnceLock;

use hdv::common::{load_known, KnownFinding};
use hdv::engines::poolsim::{run_pool_case, Phases};
use libfuzzer_sys::fuzz_target;

static KNOWN: OnceLock<Vec<KnownFinding>> = OnceLock::new();
static PROP: OnceLock<Option<String>> = OnceLock::new();

fuzz_target!(|data: &[u8]| {
    let known = KNOWN.get_or_init(load_known);
    let prop = PROP.get_or_init(|| std::env::var("FZ_PROP").ok());
    let Some(case) = hdv::fuzzdecode::pool_case(data) else { return };
    let out = run_pool_case(&case, false, Phases { drain: true, probe: true });
    if let Some(e) = out.report.internal_error {
        panic!("harness internal error: {e}");
    }
    for v in &out.report.violations {
        let p = v.sig.split('/').next().unwrap_or("");
        if let Some(want) = prop {
            if p != want && p != "POOL" {
                continue;
            }
        }
        if known.iter().any(|k| k.sig == v.sig) {
            continue;
        }
        eprintln!("FUZZ-VIOLATION sig={} msg={}", v.sig, v.msg);
        eprintln!("FUZZ-CASE {}", serde_json_case(&case));
        panic!("property violated: {}", v.sig);
    }
});

fn serde_json_case(case: &hdv::engines::poolsim::PoolCase) -> String {
    hdv::common::to_json(case)
}
