#![no_main]
//! libFuzzer target for engine E6 (reqgrammar): a request decoded from the input (table indices plus,
//! optionally, a host taken verbatim from the input) against the C13 and C17 oracles.
//! Env FZ_PROP (C13 or C17) restricts the violations that count.
use std::sync::OnceLock;

use hdv::common::Engine;
use hdv::engines::reqgrammar::ReqEngine;
use libfuzzer_sys::fuzz_target;

static PROP: OnceLock<Option<String>> = OnceLock::new();
static HOOK: OnceLock<()> = OnceLock::new();

fuzz_target!(|data: &[u8]| {
    HOOK.get_or_init(hdv::panichook::install);
    let prop = PROP.get_or_init(|| std::env::var("FZ_PROP").ok());
    let Some(case) = hdv::fuzzdecode::req_case(data) else { return };
    for p in ["C13", "C17"] {
        if prop.as_deref().map(|w| w != p).unwrap_or(false) {
            continue;
        }
        let rep = ReqEngine { prop: p }.run_case(&case);
        if let Some(e) = rep.internal_error {
            eprintln!("FUZZ-CASE {}", hdv::common::to_json(&case));
            eprintln!("harness internal error: {e}");
            std::process::abort();
        }
        if let Some(v) = rep.violations.first() {
            eprintln!("FUZZ-VIOLATION sig={} msg={}", v.sig, v.msg);
            eprintln!("FUZZ-CASE {}", hdv::common::to_json(&case));
            std::process::abort();
        }
    }
});
